#!/usr/bin/env python3
"""check.py <Cxx> <quick|thorough> [--replay file]   (cwd-independent; see DESIGN.md §3.5)"""
import importlib
import os
import sys

sys.path.insert(0, os.path.dirname(os.path.abspath(__file__)))
from lib import common  # noqa: E402


def main():
    if len(sys.argv) < 3:
        print(__doc__)
        return 2
    prop, tier = sys.argv[1], sys.argv[2]
    tier = os.environ.get("VERIF_TIER", tier)
    seed = int(os.environ.get("VERIF_SEED", "1"))
    replay = None
    if "--replay" in sys.argv:
        replay = sys.argv[sys.argv.index("--replay") + 1]
    mod = importlib.import_module("checks." + prop.lower())
    rep = common.Report(prop, tier, seed)
    try:
        mod.run(rep, tier, seed, replay)
    except Exception as ex:  # a crash of the machinery is never silently a pass
        import traceback
        traceback.print_exc()
        rep.violation("unverified", dict(broken="check machinery raised " + repr(ex)), no_input=True)
    rc = rep.finish(getattr(mod, "LEVEL", "proof"))
    print("%s %s seed=%d: %s (%d evaluations, %d distinct non-trivial, %.1fs)" % (
        prop, tier, seed, "VIOLATIONS=%d" % len(rep.violations) if rc else "ok",
        rep.cov["evaluations"], rep.cov["distinct_nontrivial"], __import__("time").time() - rep.t0))
    return rc


if __name__ == "__main__":
    sys.exit(main())
