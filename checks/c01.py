"""C01 — mutex. Lean acceptor + theorems; real runtime on a virtual clock (H-sim); occupancy oracle."""
import json
import os

from lib import common as C
from checks import hsim, sync_gen, sync_eval, mv_sync

LEVEL = "proof"


def oracle(res):
    out = []
    kinds = {}
    for l in res.prog:
        w = l.split()
        if w[0] == "obj":
            kinds[w[2]] = w[1]
    holders = {}   # mutex -> {thread: depth}
    last_call = {}
    ended = set()
    for l in res.trace:
        w = l.split()
        if w[0] == "call":
            last_call[w[1]] = w
            if w[2] == "unlock" and kinds.get(w[3]) in ("mutex", "rmutex", "cmutex"):
                h = holders.setdefault(w[3], {})
                if h.get(w[1], 0) > 0:
                    h[w[1]] -= 1
                    if h[w[1]] == 0:
                        del h[w[1]]
        elif w[0] == "end":
            ended.add(w[1])
        elif w[0] == "ret" and w[2] in ("lock", "trylock"):
            c = last_call.get(w[1])
            if not c or kinds.get(c[3]) not in ("mutex", "rmutex", "cmutex"):
                continue
            m = c[3]
            h = holders.setdefault(m, {})
            if int(w[3]) == 0:
                others = [t for t in h if t != w[1]]
                if others:
                    out.append("two threads inside mutex %s: %s acquired it while %s holds it" % (m, w[1], others[0]))
                if kinds[m] in ("mutex", "cmutex") and h.get(w[1], 0) > 0:
                    out.append("plain mutex %s acquired twice by %s" % (m, w[1]))
                h[w[1]] = h.get(w[1], 0) + 1
            else:
                e = int(w[4])
                if w[2] == "lock" and e == 110:
                    to = c[4]
                    if to == "inf" or int(w[5][1:]) - int(c[-1][1:]) < int(to):
                        out.append("lock(%s, %s) returned ETIMEDOUT before its deadline" % (m, to))
    if res.result == "result stuck":
        owners = {}
        for l in res.trace:
            w = l.split()
            if w[0] == "fs" and w[1] == "mutex":
                owners[w[2]] = w[3].split("=")[1]
        for t, c in last_call.items():
            if t in ended or c[2] != "lock" or t == "T0":
                continue
            if owners.get(c[3]) == "-":
                out.append("%s is blocked forever in lock(%s) although the mutex is free (lost hand-off)" % (t, c[3]))
    elif res.result == "result done":
        for l in res.trace:
            w = l.split()
            if w[0] == "fs" and w[1] == "mutex" and w[3] != "owner=-":
                out.append("mutex %s is still owned (%s) after every thread released it" % (w[2], w[3]))
    return out


def run(rep, tier, seed, replay=None):
    ok, log = C.lean_build()
    if not ok:
        rep.violation("unverified", dict(broken="lake build failed", log=log[-3000:]), no_input=True)
        return
    rep.proof(C.lean_audit("C01"), "cd lean && lake build && lake env lean Audit/C01.lean  (#print axioms per theorem)")
    if tier == "thorough":
        okc, out = C.leanchecker("Photon.Properties.C01")
        rep.cov["leanchecker"] = "ok" if okc else out
        if not okc:
            rep.violation("unverified", dict(broken="leanchecker Photon.Properties.C01", log=out), no_input=True)
    if replay and json.load(open(replay)).get("harness") == "mv_sync":
        mv_sync.run(rep, "C01", ['mutex'], tier, seed, json.load(open(replay))["program"])
        return
    binary = hsim.build(rep)
    if not binary:
        return
    if replay:
        progs = [json.load(open(replay))["program"]]
    else:
        progs = []
        cp = os.path.join(C.VERIF, "corpus", "C01")
        if os.path.isdir(cp):
            for f in sorted(os.listdir(cp)):
                progs.append([l.rstrip("\n") for l in open(os.path.join(cp, f)) if l.strip() and not l.startswith("#")])
        r = C.rng(seed, "c01")
        for _ in range(6000 if tier == "thorough" else 800):
            progs.append(sync_gen.gen_c01(r, tier == "thorough"))
    try:
        results = hsim.run_programs(binary, progs)
    except RuntimeError as ex:
        rep.violation("unverified", dict(broken="H-sim run failed: %s" % ex), no_input=True)
        return
    nev = 0
    for res in results:
        nev += len(res.trace)
        for c, r in sync_eval.calls_with_rets(res.trace):
            if r is not None and c["op"] in ("lock", "trylock", "unlock"):
                rep.distinct((c["op"], c["args"][1] if len(c["args"]) > 1 else "", r["r"], r["e"]))
        rep.distinct(("result", res.result))
    rep.count(nev)
    rep.cov["events"] = nev
    rep.cov["rule"] = ("programs of 2..6 photon threads over 1..2 mutexes (plain with 0..2 spin retries, recursive) doing lock with "
                       "0/short/long/infinite timeouts, try_lock, unlock, sleep, yield and thread_interrupt, plus external interrupts at "
                       "quiescence; every hook event (owner CAS, hand-off, park, wake) and API return validated by the Lean acceptor; "
                       "evaluations = trace events")
    rep.sample(progs[-1])
    sync_eval.evaluate(rep, "C01", progs, results, oracle, C.known_findings("C01"))
    if not replay:
        mv_sync.run(rep, "C01", ['mutex'], tier, seed)
