"""C02 — semaphore. Lean acceptor + theorems; real runtime on a virtual clock (H-sim); token ledger oracle."""
import json
import os

from lib import common as C
from checks import hsim, sync_gen, sync_eval, mv_sync

LEVEL = "proof"


def oracle(res):
    out = []
    sems = {}
    for l in res.prog:
        w = l.split()
        if w[0] == "obj" and w[1] == "sem":
            sems[w[2]] = dict(initial=int(w[3]), inorder=w[4] == "1", signalled=0, taken=0)
    last_call = {}
    parked = {}       # sem -> list of (thread, demand) in arrival order (from the SLEEP hook)
    ended = set()
    for l in res.trace:
        w = l.split()
        if w[0] == "call":
            last_call[w[1]] = w
        elif w[0] == "end":
            ended.add(w[1])
        elif w[0] == "ret" and w[2] == "signal":
            c = last_call[w[1]]
            if c[3] in sems:
                sems[c[3]]["signalled"] += int(c[4])
        elif w[0] == "ret" and w[2] in ("wait", "waiti"):
            c = last_call[w[1]]
            if c[3] in sems and int(w[3]) == 0:
                sems[c[3]]["taken"] += int(c[4])
            if c[3] in sems and int(w[3]) != 0 and int(w[4]) == 110:
                to = c[5]
                if to == "inf" or int(w[5][1:]) - int(c[-1][1:]) < int(to):
                    out.append("wait(%s,%s,%s) returned ETIMEDOUT before its deadline" % (c[3], c[4], to))
        elif w[:2] == ["h", "SLEEP"] and w[3] in sems:
            c = last_call.get(w[2])
            parked.setdefault(w[3], []).append((w[2], int(c[4]) if c and c[2] in ("wait", "waiti") else 0))
        elif w[:2] in (["h", "WAKE_INTR"], ["h", "WAKE_TIMEOUT"]):
            for q in parked.values():
                q[:] = [x for x in q if x[0] != w[2]]
        elif w[0] in ("qs", "fs") and w[1] == "sem" and w[2] in sems:
            s = sems[w[2]]
            cnt = int(w[3].split("=")[1])
            # ledger at a quiescence point: nobody is between a wake-up and its subtraction
            if s["taken"] + cnt != s["initial"] + s["signalled"]:
                out.append("semaphore %s: tokens taken (%d) + count (%d) != initial (%d) + signalled (%d)" %
                           (w[2], s["taken"], cnt, s["initial"], s["signalled"]))
            q = parked.get(w[2], [])
            if q:
                stuck = (q[0][1] <= cnt) if s["inorder"] else any(d <= cnt for (_, d) in q)
                if stuck:
                    out.append("semaphore %s: count %d covers the demand of parked waiter %s at quiescence (lost wake-up)" %
                               (w[2], cnt, q[0][0] if s["inorder"] else [t for (t, d) in q if d <= cnt][0]))
    return out


def run(rep, tier, seed, replay=None):
    ok, log = C.lean_build()
    if not ok:
        rep.violation("unverified", dict(broken="lake build failed", log=log[-3000:]), no_input=True)
        return
    rep.proof(C.lean_audit("C02"), "cd lean && lake build && lake env lean Audit/C02.lean  (#print axioms per theorem)")
    if tier == "thorough":
        okc, out = C.leanchecker("Photon.Properties.C02")
        rep.cov["leanchecker"] = "ok" if okc else out
        if not okc:
            rep.violation("unverified", dict(broken="leanchecker Photon.Properties.C02", log=out), no_input=True)
    if replay and json.load(open(replay)).get("harness") == "mv_sync":
        mv_sync.run(rep, "C02", ['sem', 'semd'], tier, seed, json.load(open(replay))["program"])
        return
    binary = hsim.build(rep)
    if not binary:
        return
    if replay:
        progs = [json.load(open(replay))["program"]]
    else:
        progs = []
        cp = os.path.join(C.VERIF, "corpus", "C02")
        if os.path.isdir(cp):
            for f in sorted(os.listdir(cp)):
                progs.append([l.rstrip("\n") for l in open(os.path.join(cp, f)) if l.strip() and not l.startswith("#")])
        r = C.rng(seed, "c02")
        for _ in range(8000 if tier == "thorough" else 1200):
            progs.append(sync_gen.gen_c02_barge(r, tier == "thorough") if r.random() < 0.4 else sync_gen.gen_c02(r, tier == "thorough"))
    try:
        results = hsim.run_programs(binary, progs)
    except RuntimeError as ex:
        rep.violation("unverified", dict(broken="H-sim run failed: %s" % ex), no_input=True)
        return
    nev = 0
    for res in results:
        nev += len(res.trace)
        for c, r in sync_eval.calls_with_rets(res.trace):
            if r is not None and c["op"] in ("wait", "waiti", "signal"):
                rep.distinct((c["op"], c["args"][1], c["args"][2] if len(c["args"]) > 2 else "", r["r"], r["e"]))
        rep.distinct(("result", res.result))
    rep.count(nev)
    rep.cov["events"] = nev
    rep.cov["rule"] = ("programs of 2..6 photon threads over 1..2 semaphores (in-order and out-of-order resume, initial counts 0..3) doing "
                       "wait / wait_interruptible with demands 0..3 and 0/short/long/infinite timeouts, signal(0..4), sleep, yield, "
                       "thread_interrupt, plus external interrupts; every count change, resume pass, wake-up and return validated by the Lean "
                       "acceptor, the real count compared at every quiescence point; evaluations = trace events")
    rep.sample(progs[-1])
    sync_eval.evaluate(rep, "C02", progs, results, oracle, C.known_findings("C02"))
    if not replay:
        mv_sync.run(rep, "C02", ['sem', 'semd'], tier, seed)
