"""C03 — condition variable. Lean acceptor + theorems; real runtime on a virtual clock (H-sim)."""
import json
import os

from lib import common as C
from checks import hsim, sync_gen, sync_eval, mv_sync

LEVEL = "proof"


def oracle(res):
    """API-level check of C03 (independent of the Lean model)"""
    out = []
    waiting = []          # threads inside cvwait, parked on the cv (by SLEEP hook on the cv queue), in order
    last_call = {}
    holder = None         # who holds m0 according to API returns
    notified = {}         # thread -> True when a notify has picked it
    for l in res.trace:
        w = l.split()
        if w[0] == "call":
            last_call[w[1]] = w
            if w[2] == "unlock" and holder == w[1]:
                holder = None
            if w[2] in ("notify", "notifyall"):
                last_call[w[1]].append(("present", list(waiting)))
        elif w[:2] == ["h", "SLEEP"] and w[3] == "c0":
            waiting.append(w[2])
            # the waiter is enqueued while it still holds the lock: releasing and waiting is one step
            if holder != w[2]:
                out.append("%s became a waiter of c0 without holding the lock" % w[2])
        elif w[:2] == ["h", "MUTEX_UNLOCK"] and w[2] == "m0":
            holder = None if w[3] == "-" else w[3]
        elif w[:2] == ["h", "MUTEX_TRY"] and w[3] == "1" and w[2] == "m0":
            holder = w[4]
        elif w[:2] in (["h", "WAKE_INTR"], ["h", "WAKE_TIMEOUT"]) and w[2] in waiting:
            waiting.remove(w[2])
            if w[1] == "WAKE_INTR" and w[3] == "-1":
                notified[w[2]] = True
        elif w[0] == "ret" and w[2] in ("notify", "notifyall"):
            c = last_call[w[1]]
            present = c[-1][1]
            r = int(w[3])
            want = len(present) if w[2] == "notifyall" else (1 if present else 0)
            if r != want:
                out.append("%s returned %d with %d waiter(s) present" % (w[2], r, len(present)))
        elif w[0] == "ret" and w[2] == "cvwait":
            c = last_call[w[1]]
            r, e = int(w[3]), int(w[4])
            if holder != w[1]:
                out.append("wait() returned to %s without the lock held (holder %s)" % (w[1], holder))
            if r == 0 and not notified.get(w[1]):
                out.append("wait() returned 0 to %s although nobody notified it" % w[1])
            if r != 0 and e == 110:
                to = c[5]
                if to == "inf" or int(w[5][1:]) - int(c[-1][1:] if isinstance(c[-1], str) else c[6][1:]) < int(to):
                    out.append("wait() returned ETIMEDOUT before its deadline")
            notified.pop(w[1], None)
    return out


def run(rep, tier, seed, replay=None):
    ok, log = C.lean_build()
    if not ok:
        rep.violation("unverified", dict(broken="lake build failed", log=log[-3000:]), no_input=True)
        return
    rep.proof(C.lean_audit("C03"), "cd lean && lake build && lake env lean Audit/C03.lean  (#print axioms per theorem)")
    if tier == "thorough":
        okc, out = C.leanchecker("Photon.Properties.C03")
        rep.cov["leanchecker"] = "ok" if okc else out
        if not okc:
            rep.violation("unverified", dict(broken="leanchecker Photon.Properties.C03", log=out), no_input=True)
    if replay and json.load(open(replay)).get("harness") == "mv_sync":
        mv_sync.run(rep, "C03", ['cond'], tier, seed, json.load(open(replay))["program"])
        return
    binary = hsim.build(rep)
    if not binary:
        return
    if replay:
        progs = [json.load(open(replay))["program"]]
    else:
        progs = []
        cp = os.path.join(C.VERIF, "corpus", "C03")
        if os.path.isdir(cp):
            for f in sorted(os.listdir(cp)):
                progs.append([l.rstrip("\n") for l in open(os.path.join(cp, f)) if l.strip() and not l.startswith("#")])
        r = C.rng(seed, "c03")
        for _ in range(8000 if tier == "thorough" else 1000):
            progs.append(sync_gen.gen_c03(r, tier == "thorough"))
    try:
        results = hsim.run_programs(binary, progs)
    except RuntimeError as ex:
        rep.violation("unverified", dict(broken="H-sim run failed: %s" % ex), no_input=True)
        return
    nev = 0
    for res in results:
        nev += len(res.trace)
        for c, r in sync_eval.calls_with_rets(res.trace):
            if r is not None and c["op"] in ("cvwait", "notify", "notifyall"):
                rep.distinct((c["op"], c["args"][2] if len(c["args"]) > 2 else "", r["r"], r["e"]))
        rep.distinct(("result", res.result))
    rep.count(nev)
    rep.cov["events"] = nev
    rep.cov["rule"] = ("programs of 2..6 photon threads over one mutex and one condition variable: lock; wait(timeout 100/1000/3000/inf); "
                       "unlock | lock; notify_one/notify_all; unlock | notify without the lock | sleep | yield | thread_interrupt; every park, "
                       "deferred unlock, wake-up, re-lock and return validated by the Lean acceptor; evaluations = trace events")
    rep.sample(progs[-1])
    sync_eval.evaluate(rep, "C03", progs, results, oracle, C.known_findings("C03"), stuck_is_violation=False)
    if not replay:
        mv_sync.run(rep, "C03", ['cond'], tier, seed)
