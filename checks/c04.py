"""C04 — sleep / timeout / interrupt contract. Lean acceptor + theorems; real runtime on a virtual clock (H-sim)."""
import json
import os

from lib import common as C
from checks import hsim, sync_gen, sync_eval, mv_sync

LEVEL = "proof"


def oracle(res):
    """API-level check of C04 on one run (independent of the Lean model)"""
    out = []
    trace = res.trace
    api = sync_eval.parse_api(trace)
    shut_at = {}      # thread -> trace index of the thread_shutdown() that marked it
    for i, l in enumerate(trace):
        w = l.split()
        if len(w) > 3 and w[0] == "call" and w[2] == "shutdown":
            shut_at.setdefault(w[3], i)
    idx = 0
    intrs = []   # (i, target, errno)
    for i, l in enumerate(trace):
        w = l.split()
        if w[:2] == ["h", "WAKE_INTR"]:
            intrs.append((i, w[2], int(w[3])))
        elif w[:2] == ["h", "INTR_NOSLEEP"] and w[4] == "1":
            intrs.append((i, w[2], int(w[5])))
    yield_reported = {}   # thread -> list of (i, errno) reported by yield returns
    for c, r in sync_eval.calls_with_rets(trace):
        if r is None:
            continue
        th = c["th"]
        shut = {t for t, i in shut_at.items() if i < c["i"]}
        if c["op"] == "yield":
            if r["r"] != 0:
                yield_reported.setdefault(th, []).append((r["i"], r["r"]))
                if not any(c["i"] < i < r["i"] and t == th and e == r["r"] for (i, t, e) in intrs):
                    out.append("thread_yield returned %d but no interrupt arrived during it (stale interrupt)" % r["r"])
            continue
        if c["op"] == "waiti":
            if th in shut and r["t"] - c["t"] > 10000:
                out.append("a shut-down thread blocked for %d us (> 10 ms) in semaphore wait" % (r["t"] - c["t"]))
            continue
        if c["op"] not in ("sleep", "sleepd"):
            continue
        us = c["args"][0]
        if th in shut and r["t"] - c["t"] > 10000:
            out.append("a shut-down thread blocked for %d us (> 10 ms)" % (r["t"] - c["t"]))
            continue
        if r["r"] == 0:
            if us == "inf":
                out.append("infinite sleep returned 0")
            elif r["t"] - c["t"] < int(us):
                out.append("sleep(%s) returned 0 after only %d us" % (us, r["t"] - c["t"]))
            elif r["t"] - c["t"] > int(us) and th not in shut:
                out.append("sleep(%s) woke %d us after its deadline (not in the first scheduling round)" % (us, r["t"] - c["t"] - int(us)))
            if th in shut and us != "0":
                out.append("a shut-down thread slept successfully")
        else:
            e = r["e"]
            if th in shut and e == 1:
                continue
            during = [(i, ee) for (i, t, ee) in intrs if c["i"] < i < r["i"] and t == th and ee == e]
            if not during:
                prev = [(i, ee) for (i, t, ee) in intrs if i < c["i"] and t == th and ee == e]
                if any(ee == e and (not prev or i > prev[-1][0]) for (i, ee) in yield_reported.get(th, [])):
                    out.append("sleep returned -1/%d for an interrupt that thread_yield had already reported (one interrupt, two deliveries)" % e)
                elif prev:
                    out.append("sleep returned -1/%d for an interrupt that arrived before the sleep began, while the thread was runnable (stale interrupt)" % e)
                else:
                    out.append("sleep returned -1/%d but nobody interrupted the thread with that errno" % e)
    return out


def run(rep, tier, seed, replay=None):
    ok, log = C.lean_build()
    if not ok:
        rep.violation("unverified", dict(broken="lake build failed", log=log[-3000:]), no_input=True)
        return
    rep.proof(C.lean_audit("C04"), "cd lean && lake build && lake env lean Audit/C04.lean  (#print axioms per theorem)")
    if tier == "thorough":
        okc, out = C.leanchecker("Photon.Properties.C04")
        rep.cov["leanchecker"] = "ok" if okc else out
        if not okc:
            rep.violation("unverified", dict(broken="leanchecker Photon.Properties.C04", log=out), no_input=True)
    if replay and json.load(open(replay)).get("harness") == "mv_sync":
        mv_sync.run(rep, "C04", ["intrrace"], tier, seed, json.load(open(replay))["program"])
        return
    binary = hsim.build(rep)
    if not binary:
        return
    if replay:
        progs = [json.load(open(replay))["program"]]
    else:
        progs = []
        cp = os.path.join(C.VERIF, "corpus", "C04")
        if os.path.isdir(cp):
            for f in sorted(os.listdir(cp)):
                progs.append([l.rstrip("\n") for l in open(os.path.join(cp, f)) if l.strip() and not l.startswith("#")])
        r = C.rng(seed, "c04")
        for _ in range(6000 if tier == "thorough" else 800):
            progs.append(sync_gen.gen_c04(r, tier == "thorough"))
    try:
        results = hsim.run_programs(binary, progs)
    except RuntimeError as ex:
        rep.violation("unverified", dict(broken="H-sim run failed: %s" % ex), no_input=True)
        return
    nev = 0
    for res in results:
        nev += len(res.trace)
        for c, r in sync_eval.calls_with_rets(res.trace):
            if r is not None and c["op"] in ("sleep", "sleepd", "yield", "waiti"):
                rep.distinct((c["op"], c["args"][0] if c["args"] else "", r["r"], r["e"]))
    rep.count(nev)
    rep.cov["events"] = nev
    rep.cov["rule"] = ("programs of 2..7 photon threads doing sleep (0, equal, distinct and infinite deadlines) / yield / thread_interrupt / "
                       "thread_shutdown, plus external interrupts fired at quiescence exactly before/at/after deadlines on the virtual clock; "
                       "every hook event and API return validated by the Lean acceptor; evaluations = trace events; distinct non-trivial = "
                       "distinct (operation, argument, return, errno) outcomes")
    rep.sample(progs[-1])
    sync_eval.evaluate(rep, "C04", progs, results, oracle, C.known_findings("C04"), stuck_is_violation=False)
    if not replay:
        mv_sync.run(rep, "C04", ["intrrace"], tier, seed)
