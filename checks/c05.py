"""C05 — thread lifecycle. Lean lifecycle automaton + theorems; real photon vCPUs on OS threads (with and without work
stealing, migration, joinable and detached threads) with every lifecycle event stamped by a global atomic counter."""
import json
import os

from lib import common as C
from checks import hsim

LEVEL = "proof"


def gen_program(r, big=False):
    nv = r.choice([1, 2, 2, 3, 3, 4])
    ws = r.choice([0, 0, 1])
    lazy = r.randrange(1, nv) if nv > 1 and ws == 0 and r.random() < 0.3 else -1     # that vCPU blocks outside photon, then finishes at once
    lines = ["vcpus %d %d %d" % (nv, ws, lazy)]
    n = r.randint(2, 10 if big else 7)
    names = ["T%d" % i for i in range(n)]
    child = set(x for x in names[1:] if r.random() < 0.3)
    creators = {}
    for c in child:
        creators[c] = r.choice([x for x in names if x not in child])
    for i, t in enumerate(names):
        ops = []
        for _ in range(r.randint(0, 8 if big else 6)):
            c = r.random()
            if c < 0.35:
                ops.append("y")
            elif c < 0.55:
                ops.append("s%d" % r.choice([0, 1, 10, 100, 500]))
            elif c < 0.8 and nv > 1:
                ops.append("m%d" % r.randrange(nv))
            elif c < 0.9:
                later = names[i + 1:]          # joins go to later threads only: no join cycles (a program-level deadlock)
                ops.append(("j%s" % r.choice(later)) if later else "y")
            else:
                ops.append("k")      # interrupt whoever is blocked joining me: the join must keep waiting
        for c, p in creators.items():
            if p == t:
                ops.insert(r.randint(0, len(ops)), "c%s" % c)
        joinable = 1 if r.random() < 0.6 else 0
        home = r.randrange(nv)
        if home == lazy:
            home = 0
        lines.append("thread %s %s %d %d %d %s" % (t, "-" if t in child else str(home), joinable, r.choice([0, 1, 1]),
                                                    r.randint(0, 99), " ".join(ops)))
    return lines


def oracle(prog, trace, result):
    out = []
    ws = "with work stealing enabled" if prog[0].split()[2] == "1" else "without work stealing"
    mig = " and self-migration" if any(" m" in l for l in prog[1:]) and ws.startswith("with ") else ""
    if result.startswith("result hung"):
        out.append("the runtime hung %s: threads never ran to completion (no progress for 20 s)" % ws)
    if result.startswith("result crashed"):
        out.append("the runtime crashed %s%s: %s" % (ws, mig, result))
    begun, ended = {}, {}
    for l in trace:
        w = l.split()
        if w[0] == "begin":
            begun[w[1]] = begun.get(w[1], 0) + 1
        elif w[0] == "end":
            ended[w[1]] = ended.get(w[1], 0) + 1
        elif w[0] == "overlap":
            out.append("thread %s executed on two vCPUs at once (or its entry ran twice)" % w[1])
        elif w[0] == "count" and w[2] != w[3]:
            out.append("thread count of vCPU %s: %s before, %s after" % (w[1], w[2], w[3]))
    if result.startswith("result done"):
        for l in trace:
            w = l.split()
            if w[0] == "create" and (begun.get(w[1], 0) != 1 or ended.get(w[1], 0) != 1):
                out.append("thread %s: created, entry ran %d time(s), finished %d time(s)" % (w[1], begun.get(w[1], 0), ended.get(w[1], 0)))
    return out


def run(rep, tier, seed, replay=None):
    ok, log = C.lean_build()
    if not ok:
        rep.violation("unverified", dict(broken="lake build failed", log=log[-3000:]), no_input=True)
        return
    rep.proof(C.lean_audit("C05"), "cd lean && lake build && lake env lean Audit/C05.lean  (#print axioms per theorem)")
    if tier == "thorough":
        okc, out = C.leanchecker("Photon.Properties.C05")
        rep.cov["leanchecker"] = "ok" if okc else out
        if not okc:
            rep.violation("unverified", dict(broken="leanchecker Photon.Properties.C05", log=out), no_input=True)
    binary = hsim.build(rep, "mv_life")
    if not binary:
        return
    if replay:
        progs = [json.load(open(replay))["program"]] * 20      # real races: repeat the program
    else:
        progs = []
        cp = os.path.join(C.VERIF, "corpus", "C05")
        if os.path.isdir(cp):
            for f in sorted(os.listdir(cp)):
                p = [l.rstrip("\n") for l in open(os.path.join(cp, f)) if l.strip() and not l.startswith("#")]
                progs += [p] * 10
        r = C.rng(seed, "c05")
        for _ in range(3000 if tier == "thorough" else 400):
            progs.append(gen_program(r, tier == "thorough"))
    try:
        results = hsim.run_programs(binary, progs, model="life", timeout=3000)
    except RuntimeError as ex:
        rep.violation("unverified", dict(broken="multi-vCPU run failed: %s" % ex), no_input=True)
        return
    known = C.known_findings("C05")
    nev, okc, reported, seen = 0, 0, False, {}
    for p, res in zip(progs, results):
        nev += len(res.trace)
        nvw = p[0].split()
        for l in res.trace:
            w = l.split()
            if w[0] == "enter":
                rep.distinct(("enter", nvw[1], nvw[2]))
            elif w[0] == "joined":
                rep.distinct(("joined", w[1].startswith("main")))
        viol = oracle(p, res.trace, res.result)
        rej = None
        if res.reject:
            i, v = res.reject
            rej = "Lean automaton rejected `%s`: %s" % (res.trace[i], v[len("reject "):])
        sigs = viol + ([rej] if rej else [])
        unlisted = []
        for v in sigs:
            kf = [x for x in known if x["signature"] in v]
            if kf:
                seen.setdefault(kf[0]["id"], (kf[0], p, v))
            else:
                unlisted.append(v)
        if not sigs:
            okc += 1
        if unlisted and not reported:
            rep.violation("counterexample", dict(harness="mv_life", program=p, expected=unlisted[0], all=unlisted[:4], trace=res.trace[-40:],
                                                 note="real OS-thread races: `--replay` repeats the program 20 times"))
            reported = True
    # a rare residual crash with work stealing is a recorded finding (F22, about 1 of 20 000 programs); the broken run-queue lock
    # (F19/F20, fixed) crashed or hung 3 of 1 000, the deadlock F18 (fixed) hung 40%
    crashed = [(p, res) for p, res in zip(progs, results) if p[0].split()[2] == "1" and res.result.startswith("result crashed")]
    nws = sum(1 for p in progs if p[0].split()[2] == "1")
    rep.cov["work_stealing_crashes"] = len(crashed)
    if len(crashed) > max(2, nws // 50) and not reported:
        rep.violation("counterexample", dict(harness="mv_life", program=crashed[0][0], trace=crashed[0][1].trace[-30:],
                                             expected="%d of %d programs with work stealing crashed: far above the rate of the recorded rare crash (F22)" % (len(crashed), nws)))
        reported = True
    wsp = [(p, res) for p, res in zip(progs, results) if p[0].split()[2] == "1"]
    hung = [(p, res) for p, res in wsp if res.result.startswith("result hung")]
    rep.cov["work_stealing_programs"] = len(wsp)
    rep.cov["work_stealing_hangs"] = len(hung)
    if len(hung) > max(3, len(wsp) // 20) and not reported:
        rep.violation("counterexample", dict(harness="mv_life", program=hung[0][0], trace=hung[0][1].trace[-30:],
                                             expected="%d of %d programs with work stealing hung" % (len(hung), len(wsp))))
        reported = True
    rep.count(nev)
    rep.cov["events"] = nev
    rep.cov["programs"] = len(progs)
    rep.cov["traces_validated_against_impl"] = okc
    rep.cov["rule"] = ("1..4 real vCPUs (OS threads), work stealing (active+passive on every vCPU) on or off, 2..10 photon threads per program: "
                       "created by the vCPU mains or by other threads, joinable or detached, stealable or not, doing yield / sleep / self-migration "
                       "to another vCPU / join; every create, entry begin/end, every blocking call (leave/enter with the vCPU observed), every join "
                       "result and the vCPU thread counts before/after are logged with a global atomic stamp and validated by the Lean automaton; "
                       "an in-harness atomic flag detects simultaneous execution; a 20 s watchdog detects lost threads; evaluations = events")
    rep.sample(progs[-1])
    for kid, (kf, p, v) in seen.items():
        rep.known_finding("%s (e.g. program `%s`: %s)" % (kf["description"], " | ".join(p)[:200], v[:140]))
