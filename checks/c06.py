"""C06 — reader-writer lock (photon::rwlock). Lean acceptor + theorems; real runtime on a virtual clock (H-sim)."""
import json
import os

from lib import common as C
from checks import hsim, sync_gen, sync_eval

LEVEL = "proof"


def oracle(res):
    out = []
    readers, writer = {}, None      # thread -> depth ; thread
    last_call, ended = {}, set()
    for l in res.trace:
        w = l.split()
        if w[0] == "call":
            last_call[w[1]] = w
            if w[2] == "rwunlock":
                t = w[1]
                if writer == t:
                    writer = None
                elif readers.get(t, 0) > 0:
                    readers[t] -= 1
                    if not readers[t]:
                        del readers[t]
        elif w[0] == "end":
            ended.add(w[1])
        elif w[0] == "ret" and w[2] in ("rlock", "wlock") and int(w[3]) == 0:
            t = w[1]
            if w[2] == "wlock":
                if writer is not None or readers:
                    out.append("write lock granted to %s while %s hold(s) the lock" % (t, writer or list(readers)))
                writer = t
            else:
                if writer is not None:
                    out.append("read lock granted to %s while writer %s holds the lock" % (t, writer))
                readers[t] = readers.get(t, 0) + 1
        elif w[0] == "ret" and w[2] in ("rlock", "wlock") and int(w[4]) == 110:
            c = last_call[w[1]]
            if c[4] == "inf" or int(w[5][1:]) - int(c[-1][1:]) < int(c[4]):
                out.append("%s returned ETIMEDOUT before its deadline" % w[2])
        elif w[0] in ("qs", "fs") and w[1] == "rw":
            st = int(w[3].split("=")[1])
            want = -1 if writer is not None else sum(readers.values())
            if st != want:
                out.append("rwlock state %d differs from the holders (%s readers, writer %s): a failed or finished lock left a trace" %
                           (st, sum(readers.values()), writer))
    if res.result == "result stuck" and writer is None and not readers:
        for t, c in last_call.items():
            if t not in ended and c[2] in ("rlock", "wlock"):
                out.append("%s is blocked forever in %s although nobody holds the lock" % (t, c[2]))
    return out


def run(rep, tier, seed, replay=None):
    ok, log = C.lean_build()
    if not ok:
        rep.violation("unverified", dict(broken="lake build failed", log=log[-3000:]), no_input=True)
        return
    rep.proof(C.lean_audit("C06"), "cd lean && lake build && lake env lean Audit/C06.lean  (#print axioms per theorem)")
    if tier == "thorough":
        okc, out = C.leanchecker("Photon.Properties.C06")
        rep.cov["leanchecker"] = "ok" if okc else out
        if not okc:
            rep.violation("unverified", dict(broken="leanchecker Photon.Properties.C06", log=out), no_input=True)
    binary = hsim.build(rep)
    if not binary:
        return
    if replay:
        progs = [json.load(open(replay))["program"]]
    else:
        progs = []
        cp = os.path.join(C.VERIF, "corpus", "C06")
        if os.path.isdir(cp):
            for f in sorted(os.listdir(cp)):
                progs.append([l.rstrip("\n") for l in open(os.path.join(cp, f)) if l.strip() and not l.startswith("#")])
        r = C.rng(seed, "c06")
        for _ in range(8000 if tier == "thorough" else 1000):
            progs.append(sync_gen.gen_c06_barge(r, tier == "thorough") if r.random() < 0.3 else sync_gen.gen_c06(r, tier == "thorough"))
    try:
        results = hsim.run_programs(binary, progs)
    except RuntimeError as ex:
        rep.violation("unverified", dict(broken="H-sim run failed: %s" % ex), no_input=True)
        return
    nev = 0
    for res in results:
        nev += len(res.trace)
        for c, r in sync_eval.calls_with_rets(res.trace):
            if r is not None and c["op"] in ("rlock", "wlock", "rwunlock"):
                rep.distinct((c["op"], c["args"][1] if len(c["args"]) > 1 else "", r["r"], r["e"]))
        rep.distinct(("result", res.result))
    rep.count(nev)
    rep.cov["events"] = nev
    rep.cov["rule"] = ("programs of 2..6 photon threads over one photon::rwlock doing read/write lock with 0/short/long/infinite timeouts, "
                       "unlock, sleep, yield and thread_interrupt; the lock's internal mutex and condition variable are followed event by event by "
                       "the Lean acceptor, grants and the real `state` word compared with the holder sets; evaluations = trace events")
    rep.sample(progs[-1])
    sync_eval.evaluate(rep, "C06", progs, results, oracle, C.known_findings("C06"), stuck_is_violation=False)
