"""C06 — reader-writer lock (photon::rwlock). Lean acceptor + theorems; real runtime on a virtual clock (H-sim)."""
import json
import os

from lib import common as C
from checks import hsim, sync_gen, sync_eval, mv_sync

LEVEL = "proof"


def oracle(res):
    out = []
    readers, writer = {}, None      # thread -> depth ; thread
    last_call, ended = {}, set()
    for l in res.trace:
        w = l.split()
        if w[0] == "call":
            last_call[w[1]] = w
            if w[2] == "rwunlock":
                t = w[1]
                if writer == t:
                    writer = None
                elif readers.get(t, 0) > 0:
                    readers[t] -= 1
                    if not readers[t]:
                        del readers[t]
        elif w[0] == "end":
            ended.add(w[1])
        elif w[0] == "ret" and w[2] in ("rlock", "wlock") and int(w[3]) == 0:
            t = w[1]
            if w[2] == "wlock":
                if writer is not None or readers:
                    out.append("write lock granted to %s while %s hold(s) the lock" % (t, writer or list(readers)))
                writer = t
            else:
                if writer is not None:
                    out.append("read lock granted to %s while writer %s holds the lock" % (t, writer))
                readers[t] = readers.get(t, 0) + 1
        elif w[0] == "ret" and w[2] in ("rlock", "wlock") and int(w[4]) == 110:
            c = last_call[w[1]]
            if c[4] == "inf" or int(w[5][1:]) - int(c[-1][1:]) < int(c[4]):
                out.append("%s returned ETIMEDOUT before its deadline" % w[2])
        elif w[0] in ("qs", "fs") and w[1] == "rw":
            st = int(w[3].split("=")[1])
            want = -1 if writer is not None else sum(readers.values())
            if st != want:
                out.append("rwlock state %d differs from the holders (%s readers, writer %s): a failed or finished lock left a trace" %
                           (st, sum(readers.values()), writer))
    if res.result == "result stuck" and writer is None and not readers:
        for t, c in last_call.items():
            if t not in ended and c[2] in ("rlock", "wlock"):
                out.append("%s is blocked forever in %s although nobody holds the lock" % (t, c[2]))
    return out


def run(rep, tier, seed, replay=None):
    ok, log = C.lean_build()
    if not ok:
        rep.violation("unverified", dict(broken="lake build failed", log=log[-3000:]), no_input=True)
        return
    rep.proof(C.lean_audit("C06"), "cd lean && lake build && lake env lean Audit/C06.lean  (#print axioms per theorem)")
    if tier == "thorough":
        okc, out = C.leanchecker("Photon.Properties.C06")
        rep.cov["leanchecker"] = "ok" if okc else out
        if not okc:
            rep.violation("unverified", dict(broken="leanchecker Photon.Properties.C06", log=out), no_input=True)
    if replay and json.load(open(replay)).get("harness") == "mv_sync":
        mv_sync.run(rep, "C06", ['rw', 'qrw'], tier, seed, json.load(open(replay))["program"])
        return
    if replay and json.load(open(replay)).get("harness") == "hsim_rw":
        run_api(rep, tier, seed, [json.load(open(replay))["program"]])
        return
    binary = hsim.build(rep)
    if not binary:
        return
    if replay:
        progs = [json.load(open(replay))["program"]]
    else:
        progs = []
        cp = os.path.join(C.VERIF, "corpus", "C06")
        if os.path.isdir(cp):
            for f in sorted(os.listdir(cp)):
                progs.append([l.rstrip("\n") for l in open(os.path.join(cp, f)) if l.strip() and not l.startswith("#")])
        r = C.rng(seed, "c06")
        for _ in range(8000 if tier == "thorough" else 1000):
            progs.append(sync_gen.gen_c06_barge(r, tier == "thorough") if r.random() < 0.3 else sync_gen.gen_c06(r, tier == "thorough"))
    try:
        results = hsim.run_programs(binary, progs)
    except RuntimeError as ex:
        rep.violation("unverified", dict(broken="H-sim run failed: %s" % ex), no_input=True)
        return
    nev = 0
    for res in results:
        nev += len(res.trace)
        for c, r in sync_eval.calls_with_rets(res.trace):
            if r is not None and c["op"] in ("rlock", "wlock", "rwunlock"):
                rep.distinct((c["op"], c["args"][1] if len(c["args"]) > 1 else "", r["r"], r["e"]))
        rep.distinct(("result", res.result))
    rep.count(nev)
    rep.cov["events"] = nev
    rep.cov["rule"] = ("programs of 2..6 photon threads over one photon::rwlock doing read/write lock with 0/short/long/infinite timeouts, "
                       "unlock, sleep, yield and thread_interrupt; the lock's internal mutex and condition variable are followed event by event by "
                       "the Lean acceptor, grants and the real `state` word compared with the holder sets; evaluations = trace events")
    rep.sample(progs[-1])
    sync_eval.evaluate(rep, "C06", progs, results, oracle, C.known_findings("C06"), stuck_is_violation=False)
    if not replay:
        run_api(rep, tier, seed, None)
        mv_sync.run(rep, "C06", ["rw", "qrw"], tier, seed)


def gen_api(r, big):
    kind = r.choice(["qrw", "qrw", "qrw", "rw"])
    lines = ["lock " + kind]
    for i in range(1, r.randint(2, 6 if big else 5) + 1):
        ops = []
        for _ in range(r.randint(1, 7 if big else 5)):
            c = r.random()
            if c < 0.45:
                ops.append("%s %s" % (r.choice(["r", "r", "w", "w", "w"]), r.choice(["inf", "inf", "100", "300", "1000", "0"])))
                c2 = r.random()       # what the holder does before unlocking
                if c2 < 0.35:
                    ops.append("yield")
                if c2 < 0.25:
                    ops.append("spin %d" % r.choice([150, 400, 1200]))
                elif c2 < 0.5:
                    ops.append("sleep %d" % r.choice([50, 200, 500]))
                ops.append("u")
            elif c < 0.55:
                ops.append(r.choice(["tr", "tw"])); ops.append("u")
            elif c < 0.75:
                ops.append("sleep %d" % r.choice([10, 100, 400]))
            elif c < 0.9:
                ops.append("yield")
            else:
                ops.append("spin %d" % r.choice([100, 500]))
        lines.append("thread T%d %s" % (i, " ; ".join(ops)))
    return lines


def run_api(rep, tier, seed, progs):
    """B. API-level specification automaton (Model/RwSpec.lean) on photon::qrwlock and photon::rwlock"""
    binary = hsim.build(rep, "hsim_rw")
    if not binary:
        return
    if progs is None:
        progs = []
        cp = os.path.join(C.VERIF, "corpus", "C06api")
        if os.path.isdir(cp):
            for f in sorted(os.listdir(cp)):
                progs.append([l.rstrip("\n") for l in open(os.path.join(cp, f)) if l.strip() and not l.startswith("#")])
        r = C.rng(seed, "c06api")
        progs += [gen_api(r, tier == "thorough") for _ in range(12000 if tier == "thorough" else 2000)]
    try:
        results = hsim.run_programs(binary, progs, model="rwspec")
    except RuntimeError as ex:
        rep.violation("unverified", dict(broken="H-sim run (hsim_rw) failed: %s" % ex), no_input=True)
        return
    known = C.known_findings("C06")
    nev, okc, seen, reported = 0, 0, {}, False
    for p, res in zip(progs, results):
        nev += len(res.trace)
        kind = p[0].split()[1]
        for l in res.trace:
            w = l.split()
            if w[0] == "ret":
                rep.distinct(("api", kind, w[2], w[3], w[4]))
        viol = []
        if res.result.startswith("result crashed") or res.result.startswith("result hung"):
            viol.append("the runtime crashed or hung: " + res.result)
        g = [l for l in res.trace if l.startswith("guard-violation")]
        if g and not getattr(rep, "pending_guard", None):
            rep.pending_guard = dict(broken="model assumption of C06: qrwlock::try_wake ran without the lock's spinlock held (%s)" % g[0], program=p)
        if any(l.startswith("overlap") for l in res.trace):
            viol.append("a writer was inside the critical section together with another holder")
        rej = res.reject[1] if res.reject else None
        sigs = viol + ([rej] if rej else [])
        unlisted = [v for v in sigs if not [x for x in known if x["signature"] in v]]
        for v in sigs:
            k = [x for x in known if x["signature"] in v]
            if k:
                seen.setdefault(k[0]["id"], (k[0], p, v))
        if not sigs:
            okc += 1
        if unlisted and not reported and not rep.violations:
            i = res.reject[0] if res.reject else len(res.trace) - 1
            # every event of the specification automaton is an API call/return or a quiescence point of the real run
            rep.violation("counterexample", dict(harness="hsim_rw", program=p, expected=unlisted[0] if unlisted[0] != rej else "Lean automaton rejected `%s`: %s" % (res.trace[i], rej),
                                                 trace=res.trace[:i + 1][-30:]))
            reported = True
    rep.count(nev)
    rep.cov["api_programs"] = len(progs)
    rep.cov["api_events"] = nev
    rep.cov["api_traces_accepted"] = okc
    rep.cov["api_rule"] = ("programs of 2..6 photon threads over one photon::qrwlock (3 of 4) or photon::rwlock doing read/write lock with 0/short/long/"
                           "infinite timeouts, try_lock, unlock, sleep, yield and CPU-bound stretches of virtual time (so that a wake-up can find its waiter past "
                           "its deadline); every API call/return and quiescence point must be accepted by the Lean specification automaton")
    for kid, (k, p, v) in seen.items():
        rep.known_finding("%s (e.g. program `%s`: %s)" % (k["description"], " | ".join(p)[:200], v[:140]))
