"""C07 — lock-free ring queues and RingChannel. Lean ring model with a refinement proof (ring = bounded FIFO for every
operation sequence), sequential op-sequence correspondence on the real MPMC / batch-MPMC / SPSC queues, and run-time
validation of real concurrent runs (OS threads and multi-vCPU RingChannel) by a Lean acceptor."""
import json
import os

from lib import common as C
from checks import hsim

LEVEL = "proof"


def gen_seq(r, big=False):
    kind = r.choice(["mpmc", "batch", "spsc"])
    c = r.choice([0, 1, 2, 2, 3, 4, 5, 8, 9])
    lines = ["new %s %d" % (kind, c)]
    v = [100]
    for _ in range(r.randint(5, 60 if big else 30)):
        x = r.random()
        if x < 0.35:
            v[0] += 1
            lines.append("push %d" % v[0])
        elif x < 0.65:
            lines.append("pop")
        elif x < 0.8:
            n = r.randint(0, 12)
            xs = []
            for _ in range(n):
                v[0] += 1
                xs.append(str(v[0]))
            lines.append("pushb %s" % (",".join(xs) if xs else "-"))
        elif x < 0.92:
            lines.append("popb %d" % r.randint(0, 12))
        else:
            lines.append("state")
    return lines


def gen_conc(r, big=False):
    if r.random() < 0.3:
        return ["chan %s %d %d %d %d %d" % (r.choice(["mpmc", "batch"]), r.choice([1, 2, 4, 64]), r.randint(1, 3), r.randint(1, 3),
                                            r.choice([20, 40]), r.choice([0, 1500, 3000]))] if r.random() < 0.6 else \
            ["chan %s %d %d %d %d 1" % (r.choice(["mpmc", "batch"]), r.choice([1, 2, 4, 64]), r.randint(1, 2), r.randint(1, 2), r.choice([10000, 20000]))]
    kind = r.choice(["mpmc", "mpmc", "batch", "spsc"])
    return ["ring %s %d %d %d %d %d" % (kind, r.choice([1, 2, 2, 3, 4, 8, 64]), r.randint(1, 4), r.randint(1, 4),
                                        r.choice([500, 2000, 5000] if not big else [2000, 5000, 20000]), r.choice([0, 1]))]


def run(rep, tier, seed, replay=None):
    ok, log = C.lean_build()
    if not ok:
        rep.violation("unverified", dict(broken="lake build failed", log=log[-3000:]), no_input=True)
        return
    rep.proof(C.lean_audit("C07"), "cd lean && lake build && lake env lean Audit/C07.lean  (#print axioms per theorem)")
    if tier == "thorough":
        okc, out = C.leanchecker("Photon.Properties.C07")
        rep.cov["leanchecker"] = "ok" if okc else out
        if not okc:
            rep.violation("unverified", dict(broken="leanchecker Photon.Properties.C07", log=out), no_input=True)
    r = C.rng(seed, "c07")
    # ---- A. sequential correspondence
    binary, log = C.compile_harness("c07_ring", ["c07_ring.cpp"], flags=C.HFUN_FLAGS + ["-I" + os.path.join(C.REPO, "include")])
    if not binary:
        rep.violation("unverified", dict(broken="correspondence c07_ring: harness does not compile against the tree", log=log[-3000:]), no_input=True)
        return
    seqs = []
    if replay and json.load(open(replay)).get("kind_of") == "seq":
        seqs = [json.load(open(replay))["program"]]
    elif not replay:
        for _ in range(20000 if tier == "thorough" else 3000):
            seqs.append(gen_seq(r, tier == "thorough"))
    lines = [l for p in seqs for l in p]
    reported = False
    if lines:
        rc, impl, err = C.run_lines(binary, [], lines, timeout=1800)
        rc2, model, err2 = C.run_driver("ring", lines, timeout=1800)
        if rc2 != 0 or len(model) != len(lines):
            rep.violation("unverified", dict(broken="driver ring failed", log=err2[-1500:]), no_input=True)
            return
        pos, okc = 0, 0
        for p in seqs:
            good = True
            for j, op in enumerate(p):
                if pos >= len(impl):
                    if not reported:
                        rep.violation("counterexample", dict(harness="c07_ring", kind_of="seq", program=p[:j + 1], observed="harness aborted: " + err[-1500:]))
                        reported = True
                    good = False
                    break
                a, b = impl[pos], model[pos]
                pos += 1
                rep.distinct((p[0].split()[1], op.split()[0], a.split("=")[0] if "=" in a else ("num" if a.isdigit() else a)))
                if a != b and good:
                    good = False
                    if not reported:
                        # the model is proven equal to a bounded FIFO: a disagreement is a FIFO violation of the implementation
                        rep.violation("counterexample", dict(harness="c07_ring", kind_of="seq", program=p[:j + 1], failing_op=op, observed=a,
                                                             expected="%s (the Lean ring model, proven to be a FIFO bounded by the capacity)" % b))
                        reported = True
            okc += good
            if pos >= len(impl):
                break
        rep.cov["sequential_programs"] = len(seqs)
        rep.cov["sequential_ok"] = okc
    # ---- B. concurrent runs
    cb = hsim.build(rep, "mv_ring")
    if not cb:
        return
    if replay and json.load(open(replay)).get("kind_of") == "conc":
        progs = [json.load(open(replay))["program"]] * 10
    elif replay:
        progs = []
    else:
        progs = [gen_conc(r, tier == "thorough") for _ in range(400 if tier == "thorough" else 60)]
    nev = len(lines)
    if progs:
        try:
            results = hsim.run_programs(cb, progs, model="ringlog", timeout=3000)
        except RuntimeError as ex:
            rep.violation("unverified", dict(broken="concurrent run failed: %s" % ex), no_input=True)
            return
        known = C.known_findings("C07")
        okc, seen = 0, {}
        for p, res in zip(progs, results):
            nev += len(res.trace)
            w = p[0].split()
            rep.distinct((w[0], w[1], "cap<=2" if int(w[2]) <= 2 else "cap>2", "P%s" % min(int(w[3]), 2), "C%s" % min(int(w[4]), 2), w[6] if w[0] == "ring" else "rdv" if int(w[6]) == 1 else "gap" if int(w[6]) else "nogap"))
            viol = []
            if res.result.startswith("result slow"):          # the machine did not run the harness (harness/watchdog.h): no verdict about the queue
                rep.cov["inconclusive_slow"] = rep.cov.get("inconclusive_slow", 0) + 1
                continue
            if res.result.startswith("result hung"):
                viol.append("the queue hung: producers or consumers never finished (no element consumed in 20 s in which the machine ran every thread of the harness)")
            if res.result.startswith("result crashed"):
                viol.append("the queue crashed: " + res.result)
            for l in res.trace:
                t = l.split()
                if t[0] == "maxlat_us" and ((int(w[6]) >= 1500 and int(t[1]) >= 50000) or (int(w[6]) == 1 and int(t[1]) >= 90000)):
                    viol.append("a consumer blocked in recv() stayed asleep %s us although an element was available (lost notification, "
                                "rescued only by the 100 ms re-check)" % t[1])
            if res.reject:
                i, v = res.reject
                viol.append("Lean acceptor rejected `%s`: %s" % (res.trace[i], v[len("reject "):]))
            unlisted = []
            for v in viol:
                kf = [x for x in known if x["signature"] in v]
                if kf:
                    seen.setdefault(kf[0]["id"], (kf[0], p, v))
                else:
                    unlisted.append(v)
            if not viol:
                okc += 1
            if unlisted and not reported and all("stayed asleep" in v for v in unlisted) and not replay:
                # a latency can also be an OS scheduling hiccup of the machine: it counts only if the same program shows it again
                again = hsim.run_programs(cb, [p] * 3, model="ringlog", timeout=3000)
                rep.cov["latency_confirm_runs"] = rep.cov.get("latency_confirm_runs", 0) + 3
                thr = 90000 if int(w[6]) == 1 else 50000        # aimed pushes: a lost notification costs the whole 100 ms re-check period
                if sum(1 for r2 in again if any(int(l.split()[1]) >= thr for l in r2.trace if l.startswith("maxlat_us"))) < 2:
                    rep.cov["latency_not_reproduced"] = rep.cov.get("latency_not_reproduced", 0) + 1
                    unlisted = []
            if unlisted and not reported:
                rep.violation("counterexample", dict(harness="mv_ring", kind_of="conc", program=p, expected=unlisted[0],
                                                     trace=[l for l in res.trace if not l.startswith("got")][-30:],
                                                     note="real OS-thread races: `--replay` repeats the program 10 times"))
                reported = True
        rep.cov["concurrent_programs"] = len(progs)
        rep.cov["traces_validated_against_impl"] = okc
        for kid, (kf, p, v) in seen.items():
            rep.known_finding("%s (e.g. program `%s`: %s)" % (kf["description"], " | ".join(p)[:200], v[:140]))
    rep.count(nev)
    rep.cov["rule"] = ("A: single-threaded op sequences (push, pop, push_batch, pop_batch, full/empty/read_available) on the Flex MPMC, batch-MPMC and "
                       "SPSC queues with capacity requests 0..9 (capacities 2..16, many laps around the ring) compared with the Lean ring model; "
                       "B: real concurrent runs - 1..4 producer and 1..4 consumer OS threads pushing/popping or sending/receiving 500..20000 tagged "
                       "elements each through queues of capacity 2..64, and RingChannel with consumers blocked in recv() on their own vCPUs and "
                       "paced producers, or producers that aim every push at the moment a consumer using recv(0,0) decides to sleep (per-element latency "
                       "measured; a latency >= 50 ms - 90 ms for the aimed pushes - must show again in 2 of 3 re-runs to count: a loaded machine produces isolated delays); a run is "
                       "hung when no element is consumed in two 10 s windows in which the machine ran every thread of the harness (harness/watchdog.h; windows in which a thread "
                       "was blocked on I/O or starved of CPU are environment windows and do not count) - every element received is checked by the Lean acceptor (sent, not "
                       "received before, later than what that consumer already has from that producer; all received in the end; capacity)")
    rep.sample(seqs[-1] if seqs else (progs[-1] if progs else []))
