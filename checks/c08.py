"""C08 — WorkPool. Lean task automaton + theorems; the real WorkPool (worker OS threads, three thread modes, small and large
rings) with photon and OS-thread submitters; every submit / task begin / end / call return / task-object deletion / pool
destruction stamped by a global atomic counter."""
import json
import os

from lib import common as C
from checks import hsim

LEVEL = "proof"


def gen_program(r, big=False):
    nv = r.choice([1, 2, 2, 3, 4])
    mode = r.choice([-1, 0, 0, 3, 8])
    ring = r.choice([1, 2, 4, 64, 65536])
    joiners = r.choice([0, 0, 1, 2])       # extra vCPUs that join the pool with join_current_vcpu_into_workpool()
    lines = ["pool %d %d %d %d" % (nv, mode, ring, joiners)]
    nsub = [0]
    k = 0
    for i in range(r.randint(1, 5 if big else 4)):
        ops = []
        for _ in range(r.randint(1, 14 if big else 8)):
            c = r.random()
            if c < 0.8:
                k += 1
                # in the inline mode (-1) a task that blocks holds its worker's loop; keep bodies short there
                body = r.choice(["e", "e", "y1", "y3", "s10", "s100"]) if mode >= 0 else r.choice(["e", "e", "y1", "s10"])
                ops.append("%s%d:%s" % ("c" if r.random() < 0.5 else "a", k, body))
            elif c < 0.87:
                ops.append("y")
            elif c < 0.94:
                ops.append("i%s" % ("S%d" % r.randrange(0, 5)))      # interrupt another submitter if it is blocked in call()
            else:
                ops.append("s%d" % r.choice([10, 100]))
        if r.random() < 0.4:
            # a burst larger than a small ring, ending right before the destruction
            for _ in range(r.randint(3, 12)):
                k += 1
                ops.append("a%d:%s" % (k, r.choice(["e", "y1", "s10"])))
        lines.append("sub S%d %s %s" % (i, r.choice(["photon", "photon", "os"]), " ".join(ops)))
    return lines


def oracle(prog, trace, result):
    out = []
    if result.startswith("result hung"):
        out.append("the pool hung: tasks never finished or the destructor never returned (no progress for 20 s)")
    if result.startswith("result crashed"):
        out.append("the pool crashed: " + result)
    sub, begun, ended, deleted = {}, {}, {}, {}
    for l in trace:
        w = l.split()
        if w[0] == "submit":
            sub[w[2]] = w[1]
        elif w[0] == "begin":
            begun[w[1]] = begun.get(w[1], 0) + 1
        elif w[0] == "end":
            ended[w[1]] = ended.get(w[1], 0) + 1
        elif w[0] == "deleted":
            deleted[w[1]] = deleted.get(w[1], 0) + 1
        elif w[0] == "callret" and not ended.get(w[1]):
            out.append("call() for task %s returned before the task finished" % w[1])
        elif w[0] == "twice":
            out.append("task %s was entered twice" % w[1])
    if result.startswith("result done"):
        for k, kind in sub.items():
            if begun.get(k, 0) != 1 or ended.get(k, 0) != 1:
                out.append("task %s (%s) ran %d time(s), finished %d time(s)" % (k, kind, begun.get(k, 0), ended.get(k, 0)))
            if kind == "a" and deleted.get(k, 0) != 1:
                out.append("async task object %s deleted %d time(s)" % (k, deleted.get(k, 0)))
    return out


def run(rep, tier, seed, replay=None):
    ok, log = C.lean_build()
    if not ok:
        rep.violation("unverified", dict(broken="lake build failed", log=log[-3000:]), no_input=True)
        return
    rep.proof(C.lean_audit("C08"), "cd lean && lake build && lake env lean Audit/C08.lean  (#print axioms per theorem)")
    if tier == "thorough":
        okc, out = C.leanchecker("Photon.Properties.C08")
        rep.cov["leanchecker"] = "ok" if okc else out
        if not okc:
            rep.violation("unverified", dict(broken="leanchecker Photon.Properties.C08", log=out), no_input=True)
    binary = hsim.build(rep, "mv_pool")
    if not binary:
        return
    if replay:
        progs = [json.load(open(replay))["program"]] * 20
    else:
        progs = []
        cp = os.path.join(C.VERIF, "corpus", "C08")
        if os.path.isdir(cp):
            for f in sorted(os.listdir(cp)):
                p = [l.rstrip("\n") for l in open(os.path.join(cp, f)) if l.strip() and not l.startswith("#")]
                progs += [p] * 10
        r = C.rng(seed, "c08")
        for _ in range(3000 if tier == "thorough" else 400):
            progs.append(gen_program(r, tier == "thorough"))
    try:
        results = hsim.run_programs(binary, progs, model="pool", timeout=3000)
    except RuntimeError as ex:
        rep.violation("unverified", dict(broken="multi-vCPU run failed: %s" % ex), no_input=True)
        return
    known = C.known_findings("C08")
    nev, okc, reported, seen = 0, 0, False, {}
    for p, res in zip(progs, results):
        nev += len(res.trace)
        pw = p[0].split()
        for l in res.trace:
            w = l.split()
            if w[0] == "submit":
                rep.distinct((w[1], pw[2] if int(pw[2]) <= 0 else "pooled", "smallring" if int(pw[3]) <= 4 else "bigring"))
        viol = oracle(p, res.trace, res.result)
        rej = None
        if res.reject:
            i, v = res.reject
            rej = "Lean automaton rejected `%s`: %s" % (res.trace[i], v[len("reject "):])
        sigs = viol + ([rej] if rej else [])
        unlisted = []
        for v in sigs:
            kf = [x for x in known if x["signature"] in v]
            if kf:
                seen.setdefault(kf[0]["id"], (kf[0], p, v))
            else:
                unlisted.append(v)
        if not sigs:
            okc += 1
        if unlisted and not reported:
            rep.violation("counterexample", dict(harness="mv_pool", program=p, expected=unlisted[0], all=unlisted[:4], trace=res.trace[-40:],
                                                 note="real OS-thread races: `--replay` repeats the program 20 times"))
            reported = True
    rep.count(nev)
    rep.cov["events"] = nev
    rep.cov["programs"] = len(progs)
    rep.cov["traces_validated_against_impl"] = okc
    rep.cov["rule"] = ("a real WorkPool of 1..4 worker vCPUs in thread mode -1 (inline), 0 (thread per task) or pooled, ring size 1, 2, 4, 64 or "
                       "65536 (bursts larger than the ring), 1..5 submitters that are photon threads or plain OS threads issuing call() and "
                       "async_call() of tasks that return at once, yield or sleep; the pool is destroyed right after the last submitter finished "
                       "(async tasks still queued or running); every submit, task begin/end, call return, task-object destructor and the pool "
                       "destruction are stamped with a global atomic counter and validated by the Lean automaton; evaluations = events")
    rep.sample(progs[-1])
    for kid, (kf, p, v) in seen.items():
        rep.known_finding("%s (e.g. program `%s`: %s)" % (kf["description"], " | ".join(p)[:200], v[:140]))
