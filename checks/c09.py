"""C09 — Go-style channel. Lean specification automaton + theorems; real photon::channel on a virtual clock (H-sim)."""
import json
import os

from lib import common as C
from checks import hsim

LEVEL = "proof"


def gen_program(r, big=False):
    cap = r.choice([0, 0, 0, 1, 1, 2, 3])
    lines = ["chan %d" % cap]
    n = r.randint(2, 6 if big else 4)
    val = [10]
    for i in range(1, n + 1):
        ops = []
        role = r.choice(["s", "r", "m"])
        for _ in range(r.randint(1, 6 if big else 4)):
            c = r.random()
            if role == "s" or (role == "m" and c < 0.5):
                val[0] += 1
                if r.random() < 0.8:
                    ops.append("send %d %s" % (val[0], r.choice(["inf", "inf", "100", "1000", "0"])))
                else:
                    ops.append("trysend %d" % val[0])
            else:
                if r.random() < 0.8:
                    ops.append("recv %s" % r.choice(["inf", "inf", "100", "1000", "0"]))
                else:
                    ops.append("tryrecv")
            c2 = r.random()
            if c2 < 0.15:
                ops.append("sleep %s" % r.choice(["50", "100", "500"]))
            elif c2 < 0.25:
                ops.append("yield")
            elif c2 < 0.29:
                ops.append("close")
        lines.append("thread T%d %s" % (i, " ; ".join(ops)))
    return lines


def oracle(prog, trace):
    """independent API-level check: multiset / order of values, false only by close or timeout"""
    out = []
    cap = int(prog[0].split()[1])
    sent_ok, recvd = [], []
    calls = {}
    closed_at = None
    for i, l in enumerate(trace):
        w = l.split()
        if w[0] == "call":
            calls[w[1]] = (i, w)
            if w[2] == "close" and closed_at is None:
                closed_at = i
        elif w[0] == "ret":
            ci, c = calls.get(w[1], (None, None))
            ok, v, t1 = int(w[3]), int(w[4]), int(w[5][1:])
            if w[2] in ("send", "trysend"):
                if ok:
                    sent_ok.append((w[1], int(c[3])))
                elif w[2] == "send" and closed_at is None:
                    to = c[4]
                    if to == "inf" or t1 - int(c[-1][1:]) < int(to):
                        out.append("send returned false without close() and before its timeout")
            elif w[2] in ("recv", "tryrecv"):
                if ok:
                    if v in [x for (_, x) in recvd]:
                        out.append("value %d was received twice" % v)
                    recvd.append((w[1], v))
                elif w[2] == "recv" and closed_at is None:
                    to = c[3]
                    if to == "inf" or t1 - int(c[-1][1:]) < int(to):
                        out.append("recv returned false without close() and before its timeout")
    offered = set()
    for l in prog[1:]:
        for op in l.split(" ", 2)[2].split(" ; "):
            t = op.split()
            if t[0] in ("send", "trysend"):
                offered.add(int(t[1]))
    for (_, v) in recvd:
        if v not in offered:
            out.append("value %d was received but never sent" % v)
    rv = [x for (_, x) in recvd]
    done = any(l.startswith("result done") for l in trace)
    for (t, v) in sent_ok:
        if v not in rv and done and not any(op.startswith("close") for l in prog for op in l.split(" ; ")):
            # every thread finished, nobody will ever receive it (buffered leftovers are legitimate only if no receiver wanted more)
            if cap == 0:
                out.append("send(%d) returned true but the value was never received (lost or overwritten)" % v)
    # per-sender order
    for s in set(t for (t, _) in sent_ok):
        mine = [v for (t, v) in sent_ok if t == s and v in rv]
        if [v for v in rv if v in mine] != mine:
            out.append("values of sender %s were received out of order" % s)
    return out


def run(rep, tier, seed, replay=None):
    ok, log = C.lean_build()
    if not ok:
        rep.violation("unverified", dict(broken="lake build failed", log=log[-3000:]), no_input=True)
        return
    rep.proof(C.lean_audit("C09"), "cd lean && lake build && lake env lean Audit/C09.lean  (#print axioms per theorem)")
    if tier == "thorough":
        okc, out = C.leanchecker("Photon.Properties.C09")
        rep.cov["leanchecker"] = "ok" if okc else out
        if not okc:
            rep.violation("unverified", dict(broken="leanchecker Photon.Properties.C09", log=out), no_input=True)
    binary = hsim.build(rep, "hsim_chan")
    if not binary:
        return
    if replay:
        progs = [json.load(open(replay))["program"]]
    else:
        progs = []
        cp = os.path.join(C.VERIF, "corpus", "C09")
        if os.path.isdir(cp):
            for f in sorted(os.listdir(cp)):
                progs.append([l.rstrip("\n") for l in open(os.path.join(cp, f)) if l.strip() and not l.startswith("#")])
        r = C.rng(seed, "c09")
        for _ in range(10000 if tier == "thorough" else 1500):
            progs.append(gen_program(r, tier == "thorough"))
    try:
        results = hsim.run_programs(binary, progs, model="chan")
    except RuntimeError as ex:
        rep.violation("unverified", dict(broken="H-sim run failed: %s" % ex), no_input=True)
        return
    known = C.known_findings("C09")
    nev, okc = 0, 0
    reported = False
    seen = {}
    for p, res in zip(progs, results):
        nev += len(res.trace)
        cap = int(p[0].split()[1])
        for l in res.trace:
            w = l.split()
            if w[0] == "ret" and w[2] in ("send", "trysend", "recv", "tryrecv"):
                rep.distinct((min(cap, 2), w[2], w[3]))
        viol = oracle(p, res.trace)
        if res.result.startswith("result crashed") or res.result.startswith("result hung"):
            viol.append("the runtime crashed or hung: " + res.result)
        rej = res.reject[1] if res.reject else None
        sigs = viol + ([rej] if rej else [])
        unlisted = []
        for v in sigs:
            k = [x for x in known if x["signature"] in v]
            if k:
                seen.setdefault(k[0]["id"], (k[0], p, v))
            else:
                unlisted.append(v)
        if not sigs:
            okc += 1
        if unlisted and not reported:
            if viol and any(v in unlisted for v in viol):
                rep.violation("counterexample", dict(harness="hsim_chan", program=p, expected=[v for v in unlisted if v in viol][0],
                                                     model_verdict=rej, trace=[l for l in res.trace if not l.startswith("h ")][-30:]))
            elif res.trace[res.reject[0]].split()[0] in ("ret", "q", "call"):
                # every event of the specification automaton is an API call/return or a quiescent point of the real run:
                # the rejected history is itself the failing input
                i = res.reject[0]
                rep.violation("counterexample", dict(harness="hsim_chan", program=p, expected="Lean automaton rejected `%s`: %s" % (res.trace[i], rej),
                                                     trace=[l for l in res.trace[:i + 1] if not l.startswith("h ")][-30:]))
            else:
                i = res.reject[0]
                rep.violation("unverified", dict(broken="correspondence hsim_chan vs Lean automaton `chan`: history rejected", program=p,
                                                 event=res.trace[i], reason=rej, trace=[l for l in res.trace[:i + 1] if not l.startswith("h ")][-30:],
                                                 note="the API-level oracle accepts this run"), no_input=True)
            reported = True
    rep.count(nev)
    rep.cov["events"] = nev
    rep.cov["programs"] = len(progs)
    rep.cov["traces_validated_against_impl"] = okc
    rep.cov["rule"] = ("programs of 2..6 photon threads (senders, receivers, mixed) on one channel of capacity 0..3 doing send/recv with "
                       "infinite/finite/zero timeouts, try_send/try_recv, close, sleep and yield; every API call/return (with values) must be "
                       "accepted by the Lean specification automaton; evaluations = trace events")
    rep.sample(progs[-1])
    for kid, (k, p, v) in seen.items():
        rep.known_finding("%s (e.g. program `%s`: %s)" % (k["description"], " | ".join(p)[:200], v[:140]))
