"""C09 — Go-style channel. Lean specification automaton + theorems; real photon::channel on a virtual clock (H-sim)."""
import json
import os

from lib import common as C
from checks import hsim

LEVEL = "proof"


def gen_program(r, big=False):
    cap = r.choice([0, 0, 0, 1, 1, 2, 3])
    lines = ["chan %d" % cap]
    n = r.randint(2, 6 if big else 4)
    val = [10]
    for i in range(1, n + 1):
        ops = []
        role = r.choice(["s", "r", "m"])
        for _ in range(r.randint(1, 6 if big else 4)):
            c = r.random()
            if role == "s" or (role == "m" and c < 0.5):
                val[0] += 1
                if r.random() < 0.8:
                    ops.append("send %d %s" % (val[0], r.choice(["inf", "inf", "100", "1000", "0"])))
                else:
                    ops.append("trysend %d" % val[0])
            else:
                if r.random() < 0.8:
                    ops.append("recv %s" % r.choice(["inf", "inf", "100", "1000", "0"]))
                else:
                    ops.append("tryrecv")
            c2 = r.random()
            if c2 < 0.15:
                ops.append("sleep %s" % r.choice(["50", "100", "500"]))
            elif c2 < 0.25:
                ops.append("yield")
            elif c2 < 0.29:
                ops.append("close")
        lines.append("thread T%d %s" % (i, " ; ".join(ops)))
    return lines


def oracle(prog, trace):
    """independent API-level check: multiset / order of values, false only by close or timeout"""
    out = []
    cap = int(prog[0].split()[1])
    sent_ok, recvd = [], []
    calls = {}
    closed_at = None
    for i, l in enumerate(trace):
        w = l.split()
        if w[0] == "call":
            calls[w[1]] = (i, w)
            if w[2] == "close" and closed_at is None:
                closed_at = i
        elif w[0] == "ret":
            ci, c = calls.get(w[1], (None, None))
            ok, v, t1 = int(w[3]), int(w[4]), int(w[5][1:])
            if w[2] in ("send", "trysend"):
                if ok:
                    sent_ok.append((w[1], int(c[3])))
                elif w[2] == "send" and closed_at is None:
                    to = c[4]
                    if to == "inf" or t1 - int(c[-1][1:]) < int(to):
                        out.append("send returned false without close() and before its timeout")
            elif w[2] in ("recv", "tryrecv"):
                if ok:
                    if v in [x for (_, x) in recvd]:
                        out.append("value %d was received twice" % v)
                    recvd.append((w[1], v))
                elif w[2] == "recv" and closed_at is None:
                    to = c[3]
                    if to == "inf" or t1 - int(c[-1][1:]) < int(to):
                        out.append("recv returned false without close() and before its timeout")
    offered = set()
    for l in prog[1:]:
        for op in l.split(" ", 2)[2].split(" ; "):
            t = op.split()
            if t[0] in ("send", "trysend"):
                offered.add(int(t[1]))
    for (_, v) in recvd:
        if v not in offered:
            out.append("value %d was received but never sent" % v)
    rv = [x for (_, x) in recvd]
    done = any(l.startswith("result done") for l in trace)
    for (t, v) in sent_ok:
        if v not in rv and done and not any(op.startswith("close") for l in prog for op in l.split(" ; ")):
            # every thread finished, nobody will ever receive it (buffered leftovers are legitimate only if no receiver wanted more)
            if cap == 0:
                out.append("send(%d) returned true but the value was never received (lost or overwritten)" % v)
    # per-sender order
    for s in set(t for (t, _) in sent_ok):
        mine = [v for (t, v) in sent_ok if t == s and v in rv]
        if [v for v in rv if v in mine] != mine:
            out.append("values of sender %s were received out of order" % s)
    return out


def run(rep, tier, seed, replay=None):
    ok, log = C.lean_build()
    if not ok:
        rep.violation("unverified", dict(broken="lake build failed", log=log[-3000:]), no_input=True)
        return
    rep.proof(C.lean_audit("C09"), "cd lean && lake build && lake env lean Audit/C09.lean  (#print axioms per theorem)")
    if tier == "thorough":
        okc, out = C.leanchecker("Photon.Properties.C09")
        rep.cov["leanchecker"] = "ok" if okc else out
        if not okc:
            rep.violation("unverified", dict(broken="leanchecker Photon.Properties.C09", log=out), no_input=True)
    binary = hsim.build(rep, "hsim_chan")
    if not binary:
        return
    if replay and json.load(open(replay)).get("harness") == "mv_chan":
        run_mv(rep, tier, seed, [json.load(open(replay))["program"]] * 5)
        return
    if replay:
        progs = [json.load(open(replay))["program"]]
    else:
        progs = []
        cp = os.path.join(C.VERIF, "corpus", "C09")
        if os.path.isdir(cp):
            for f in sorted(os.listdir(cp)):
                progs.append([l.rstrip("\n") for l in open(os.path.join(cp, f)) if l.strip() and not l.startswith("#")])
        r = C.rng(seed, "c09")
        for _ in range(10000 if tier == "thorough" else 1500):
            progs.append(gen_program(r, tier == "thorough"))
    try:
        results = hsim.run_programs(binary, progs, model="chan")
    except RuntimeError as ex:
        rep.violation("unverified", dict(broken="H-sim run failed: %s" % ex), no_input=True)
        return
    known = C.known_findings("C09")
    nev, okc = 0, 0
    reported = False
    seen = {}
    for p, res in zip(progs, results):
        nev += len(res.trace)
        cap = int(p[0].split()[1])
        for l in res.trace:
            w = l.split()
            if w[0] == "ret" and w[2] in ("send", "trysend", "recv", "tryrecv"):
                rep.distinct((min(cap, 2), w[2], w[3]))
        viol = oracle(p, res.trace)
        if res.result.startswith("result crashed") or res.result.startswith("result hung"):
            viol.append("the runtime crashed or hung: " + res.result)
        rej = res.reject[1] if res.reject else None
        sigs = viol + ([rej] if rej else [])
        unlisted = []
        for v in sigs:
            k = [x for x in known if x["signature"] in v]
            if k:
                seen.setdefault(k[0]["id"], (k[0], p, v))
            else:
                unlisted.append(v)
        if not sigs:
            okc += 1
        if unlisted and not reported:
            if viol and any(v in unlisted for v in viol):
                rep.violation("counterexample", dict(harness="hsim_chan", program=p, expected=[v for v in unlisted if v in viol][0],
                                                     model_verdict=rej, trace=[l for l in res.trace if not l.startswith("h ")][-30:]))
            elif res.trace[res.reject[0]].split()[0] in ("ret", "q", "call"):
                # every event of the specification automaton is an API call/return or a quiescent point of the real run:
                # the rejected history is itself the failing input
                i = res.reject[0]
                rep.violation("counterexample", dict(harness="hsim_chan", program=p, expected="Lean automaton rejected `%s`: %s" % (res.trace[i], rej),
                                                     trace=[l for l in res.trace[:i + 1] if not l.startswith("h ")][-30:]))
            else:
                i = res.reject[0]
                rep.violation("unverified", dict(broken="correspondence hsim_chan vs Lean automaton `chan`: history rejected", program=p,
                                                 event=res.trace[i], reason=rej, trace=[l for l in res.trace[:i + 1] if not l.startswith("h ")][-30:],
                                                 note="the API-level oracle accepts this run"), no_input=True)
            reported = True
    rep.count(nev)
    rep.cov["events"] = nev
    rep.cov["programs"] = len(progs)
    rep.cov["traces_validated_against_impl"] = okc
    rep.cov["rule"] = ("programs of 2..6 photon threads (senders, receivers, mixed) on one channel of capacity 0..3 doing send/recv with "
                       "infinite/finite/zero timeouts, try_send/try_recv, close, sleep and yield; every API call/return (with values) must be "
                       "accepted by the Lean specification automaton; evaluations = trace events")
    rep.sample(progs[-1])
    for kid, (k, p, v) in seen.items():
        rep.known_finding("%s (e.g. program `%s`: %s)" % (k["description"], " | ".join(p)[:200], v[:140]))
    if not replay:
        run_mv(rep, tier, seed, None)


def gen_mv(r, big):
    cap = r.choice([1, 1, 1, 2, 3, 8])
    P, Cn = r.choice([(1, 1), (1, 1), (2, 1), (1, 2), (2, 2), (3, 2)])
    M = r.choice([40000, 60000] if not big else [60000, 150000]) // P
    return ["chan %d %d %d %d %d %s" % (cap, P, Cn, M, r.choice([0, 0, 0, 200]), r.choice(["stop", "close"]))]


def run_mv(rep, tier, seed, progs):
    """B. several vCPUs: the buffered channel's waiter counters race with push/pop only across vCPUs"""
    import concurrent.futures as cf
    cb = hsim.build(rep, "mv_chan")
    if not cb:
        return
    if progs is None:
        progs = []
        cp = os.path.join(C.VERIF, "corpus", "C09mv")
        if os.path.isdir(cp):
            for f in sorted(os.listdir(cp)):
                progs.append([l.rstrip("\n") for l in open(os.path.join(cp, f)) if l.strip() and not l.startswith("#")])
        r = C.rng(seed, "c09mv")
        progs += [gen_mv(r, tier == "thorough") for _ in range(64 if tier == "thorough" else 12)]
    shards = [progs[i::4] for i in range(4)]
    try:
        with cf.ThreadPoolExecutor(4) as ex:
            parts = list(ex.map(lambda sh: hsim.run_programs(cb, sh, model="ringlog", timeout=3000) if sh else [], shards))
    except RuntimeError as ex_:
        rep.violation("unverified", dict(broken="multi-vCPU channel run failed: %s" % ex_), no_input=True)
        return
    known = C.known_findings("C09")
    okc, nev, seen, reported = 0, 0, {}, False
    for sh, results in zip(shards, parts):
        for p, res in zip(sh, results):
            nev += len(res.trace)
            w = p[0].split()
            rep.distinct(("mv", "cap%s" % min(int(w[1]), 2), "P%s" % min(int(w[2]), 2), "C%s" % min(int(w[3]), 2), w[6]))
            viol = []
            if res.result.startswith("result slow"):
                rep.cov["mv_inconclusive_slow"] = rep.cov.get("mv_inconclusive_slow", 0) + 1
                continue
            st = next((l for l in res.trace if l.startswith("stalled ")), None)
            if res.result.startswith("result hung"):
                f = dict(x.split("=") for x in st.split()[1:]) if st else {}
                if f and int(f.get("closed", 0)):
                    viol.append("a receiver stayed blocked in recv() on a closed, drained buffered channel (%s)" % st)
                elif f and int(f["size"]) > 0 and int(f["size"]) >= int(f["capacity"]):
                    viol.append("a receiver stayed blocked although an item is buffered and a sender although it could proceed afterwards (%s)" % st)
                elif f and int(f["size"]) == 0:
                    viol.append("a sender stayed blocked although a slot is free (%s)" % st)
                else:
                    viol.append("senders / receivers of a buffered channel stopped making progress for 3 s (%s)" % st)
            if res.result.startswith("result crashed"):
                viol.append("the channel crashed: " + res.result)
            if res.reject:
                i, v = res.reject
                viol.append("Lean acceptor rejected `%s`: %s" % (res.trace[i], v[len("reject "):]))
            unlisted = []
            for v in viol:
                k = [x for x in known if x["signature"] in v]
                if k:
                    seen.setdefault(k[0]["id"], (k[0], p, v))
                else:
                    unlisted.append(v)
            if not viol:
                okc += 1
            if unlisted and not reported:
                rep.violation("counterexample", dict(harness="mv_chan", program=p, expected=unlisted[0],
                                                     note="real races on real vCPUs: replaying runs the program 5 times",
                                                     trace=[l for l in res.trace if not l.startswith("got ")][-10:]))
                reported = True
    rep.count(nev)
    rep.cov["mv_programs"] = len(progs)
    rep.cov["mv_events"] = nev
    rep.cov["mv_runs_accepted"] = okc
    rep.cov["mv_rule"] = ("buffered channels of capacity 1..8 with 1..3 senders and 1..2 receivers, each a photon thread on its own vCPU (OS thread), "
                          "infinite timeouts, 40 000..150 000 elements per program, ended by close() or by stop elements; what every receiver got must be "
                          "accepted by the Lean acceptor (sent, at most once, per-sender order, all received at the end) and nobody may stop making progress")
    for kid, (k, p, v) in seen.items():
        rep.known_finding("%s (e.g. program `%s`: %s)" % (k["description"], p[0], v[:140]))
