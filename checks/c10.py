"""C10 — socket streams over the event engine. Lean specification automaton + transfer-loop model + theorems;
real photon socket streams over real kernel sockets and the real epoll / epoll-ng engines on a virtual clock (H-sim),
and the real doio_loop/BufStep/BufStepV on scripted transfer results (H-fun)."""
import concurrent.futures as cf
import json
import os

from lib import common as C
from checks import hsim

LEVEL = "proof"


def split_total(r, n, small=False):
    """random split of n bytes into call sizes"""
    out = []
    while n > 0:
        k = min(n, r.choice([1, 7, 100, 1000, 4096, 5000, 20000, 70000] if not small else [1, 7, 100, 1000]))
        out.append(k)
        n -= k
    return out


def segs(r, n):
    """segmentation of n into iovec lengths incl. zero-length elements"""
    parts, left = [], n
    for _ in range(r.randint(1, 5)):
        if r.random() < 0.3:
            parts.append(0)
        k = r.randint(0, left) if left else 0
        parts.append(k)
        left -= k
    parts.append(left)
    if r.random() < 0.3:
        parts.append(0)
    return ",".join(str(x) for x in parts[:7]) if sum(parts[:7]) == n else ",".join(str(x) for x in parts[:6] + [n - sum(parts[:6])])


def pace(r, ops, heavy):
    c = r.random()
    if c < (0.35 if heavy else 0.12):
        ops.append("sleep %d" % r.choice([50, 500, 3000]))
    elif c < 0.45 if heavy else c < 0.18:
        ops.append("yield")


def gen_direction(r, w, rd, kind, threads, big):
    """one byte stream written at endpoint w, read at endpoint rd"""
    n = r.choice([0, 1, 100, 5000, 5000, 40000, 40000, 150000 if kind == "unix" else 40000] + ([600000] if big and kind == "unix" else []))
    wheavy, rheavy = r.random() < 0.4, r.random() < 0.4
    wops, rops = [], []
    exact = True
    for k in split_total(r, n):
        c = r.random()
        if c < 0.35:
            wops.append("write %s %d" % (w, k))
        elif c < 0.65:
            wops.append("writev %s %s" % (w, segs(r, k)))
        else:
            wops.append("sendall %s %d %d" % (w, k, r.choice([k, 3000, 50000])))
        pace(r, wops, wheavy)
    if r.random() < 0.1:
        wops.append("writev %s 0,0" % w)
    ending = r.choice(["shutdown", "shutdown", "shutdown", "none"])
    if ending == "shutdown":
        wops.append("shutdown %s" % w)
    style = r.random()
    if style < 0.25:        # single recv()s under a short timeout, then drain
        rops.append("timeout %s %d" % (rd, r.choice([200, 1000, 4000])))
        for _ in range(r.randint(2, 8)):
            rops.append("recv %s %d" % (rd, r.choice([1, 100, 5000, 100000])))
            pace(r, rops, rheavy)
        rops.append("timeout %s inf" % rd)
        if ending == "shutdown":
            rops.append("recvall %s 100000000 %d" % (rd, r.choice([100, 4096, 100000])))
    elif style < 0.5 and ending == "shutdown":       # drain until end of stream
        rops.append("recvall %s 100000000 %d" % (rd, r.choice([1, 100, 4096, 100000]) if n < 20000 else r.choice([4096, 100000])))
    else:                   # full-count reads that add up (the last one may over-ask when the stream ends)
        if r.random() < 0.3:
            rops.append("timeout %s %d" % (rd, r.choice([300, 1000, 10000])))
        ks = split_total(r, n)
        for i, k in enumerate(ks):
            over = r.choice([1, 1000]) if (i == len(ks) - 1 and ending == "shutdown" and r.random() < 0.4) else 0
            c = r.random()
            if c < 0.4:
                rops.append("read %s %d" % (rd, k + over))
            elif c < 0.75:
                rops.append("readv %s %s" % (rd, segs(r, k + over)))
            else:
                rops.append("recvall %s %d %d" % (rd, k, r.choice([k, 1000, 65536])))
            pace(r, rops, rheavy)
        if ending == "shutdown":
            rops.append(r.choice(["recv %s 10", "read %s 10", "readv %s 0,5,0"]) % rd)
    threads.append(wops)
    threads.append(rops)


def gen_program(r, big=False):
    eng = r.choice(["epoll", "epoll", "epollng"])
    et = r.random() < 0.12
    lines = ["engine %s %s" % (eng, "et" if et else "plain")]
    many = r.random() < 0.1
    nconn = r.randint(17, 22) if many else r.choice([1, 1, 2, 3])
    threads = []
    for c in range(nconn):
        kind = "tcp" if et or r.random() < 0.2 else "unix"
        if kind == "unix":
            lines.append("conn %d unix %d %d" % (c, r.choice([0, 4096, 16384]), r.choice([0, 4096, 16384])))
        else:
            lines.append("conn %d tcp %d %d" % (c, r.choice([0, 32768, 65536]), r.choice([0, 32768, 65536])))
        if many:
            n = r.choice([1, 100, 3000])
            threads.append(["sleep 100", "write %da %d" % (c, n), "shutdown %da" % c])
            threads.append(["read %db %d" % (c, n), "recv %db 5" % c])
            continue
        gen_direction(r, "%da" % c, "%db" % c, kind, threads, big)
        if r.random() < 0.5:     # the other direction of the same descriptors at the same time
            gen_direction(r, "%db" % c, "%da" % c, kind, threads, big)
    if not many and nconn >= 2 and r.random() < 0.5:
        # one thread serving two connections with short timeouts: a timed-out wait on one descriptor must leave nothing behind that
        # could wake the thread while it waits on the other one (or sleeps)
        c1, c2 = r.sample(range(nconn), 2)
        lines.append("conn %d unix 0 0" % nconn)
        lines.append("conn %d unix 0 0" % (nconn + 1))
        x, y = "%db" % nconn, "%db" % (nconn + 1)
        ops = ["timeout %s %d" % (x, r.choice([100, 300])), "timeout %s %d" % (y, r.choice([100, 300, 1000]))]
        wx, wy = ["sleep %d" % r.choice([200, 500])], ["sleep %d" % r.choice([50, 700])]
        for _ in range(r.randint(2, 6)):
            ops.append("recv %s %d" % (r.choice([x, y]), r.choice([1, 50])))
            if r.random() < 0.3:
                ops.append("sleep %d" % r.choice([100, 400]))
            wx.append("send %da %d" % (nconn, r.choice([1, 10]))); wx.append("sleep %d" % r.choice([150, 400, 900]))
            wy.append("send %da %d" % (nconn + 1, r.choice([1, 10]))); wy.append("sleep %d" % r.choice([150, 400, 900]))
        threads += [ops, wx, wy]
    for i, ops in enumerate(threads):
        lines.append("thread T%d %s" % (i + 1, " ; ".join(ops) if ops else "yield"))
    return lines


def oracle(prog, trace):
    """independent of the Lean automaton: data check verdicts of the harness, per-direction byte accounting at end of stream,
    timeouts neither early nor late"""
    out = []
    W, R, eof, broken = {}, {}, {}, set()
    calls, tmo = {}, {}

    def peer(ep):
        return ep[:-1] + ("b" if ep[-1] == "a" else "a")
    for l in trace:
        w = l.split()
        if w[0] == "set":
            tmo[w[3]] = None if w[4] == "inf" else int(w[4])
        elif w[0] == "call":
            calls[w[1]] = (w[2], w[3], int(w[4]), int(w[5][1:]), tmo.get(w[3]))
        elif w[0] == "ret":
            kind, ep, req, t0, to = calls.pop(w[1])
            r, e, data, t1 = int(w[4][2:]), int(w[5][2:]), w[7][5:], int(w[8][1:])
            if data.startswith("BAD"):
                out.append("%s returned bytes that are not the next bytes of the stream (%s)" % (kind, l))
            if r < 0 and e == 110:
                if to is None or t1 - t0 < to:
                    out.append("%s reported ETIMEDOUT %d us after the call, timeout %s" % (kind, t1 - t0, to))
                if to is not None and t1 - t0 > to:
                    out.append("%s hung past its timeout: returned after %d us, timeout %d" % (kind, t1 - t0, to))
            if kind in ("write", "writev", "send", "sendv"):
                if r > 0:
                    W[ep] = W.get(ep, 0) + r
                if r < 0:
                    broken.add(ep)
                if kind in ("write", "writev") and 0 <= r < req:
                    out.append("%s returned a short count %d of %d" % (kind, r, req))
            else:
                d = peer(ep)
                if r > 0:
                    R[d] = R.get(d, 0) + r
                if r < 0 and kind in ("read", "readv"):
                    broken.add(d)
                if r == 0 and req > 0:
                    eof[d] = True
    for d in eof:
        if d not in broken and R.get(d, 0) != W.get(d, 0):
            out.append("the reader of %s saw the end of the stream after %d bytes, %d were written" % (d, R.get(d, 0), W.get(d, 0)))
    return out


def gen_doio(r):
    if r.random() < 0.4:
        n = r.choice([0, 1, 10, 100])
        rs, left = [], n
        while True:
            c = r.random()
            if c < 0.1:
                rs.append("e"); break
            if c < 0.2 or left == 0:
                rs.append("0"); break
            k = r.randint(1, left)
            rs.append(str(k)); left -= k
            if left == 0 and r.random() < 0.7:
                break
        return "buf %d %s" % (n, ",".join(rs))
    ls = [r.choice([0, 0, 1, 3, 10]) for _ in range(r.randint(1, 7))]
    left, rs = sum(ls), []
    while True:
        c = r.random()
        if c < 0.1:
            rs.append("e"); break
        if c < 0.2 or left == 0:
            rs.append("0"); break
        k = r.randint(1, left)
        rs.append(str(k)); left -= k
        if left == 0 and r.random() < 0.7:
            break
    return "vec %s %s" % (",".join(map(str, ls)), ",".join(rs))


def doio_oracle(op, out):
    """property-level check of one run of the real transfer loop, independent of the Lean model: every transfer must be asked for
    exactly the not yet transferred rest of the flat byte sequence, never for nothing while bytes remain, and the result is the
    bytes moved (or -1 after a failure)"""
    w = op.split()
    if not out.startswith("ret="):
        return "the transfer loop crashed: " + out[:200]
    ret = int(out.split()[0][4:])
    calls = out.split("calls=")[1] if "calls=" in out else ""
    rs = [x for x in w[2].split(",") if x]
    if w[0] == "buf":
        flat = list(range(int(w[1])))
        reqs = [list(range(int(a), int(a) + int(b))) for a, b in (c.split("+") for c in calls.split(",") if c)]
    else:
        flat = []
        for i, l in enumerate(int(x) for x in w[1].split(",")):
            flat += [(i + 1) * 1000000 + k for k in range(l)]
        reqs = []
        for v in calls.split("|"):
            cur = []
            for c in v.split(","):
                if c:
                    a, b = c.split("+")
                    cur += [int(a) + k for k in range(int(b))]
            reqs.append(cur)
    done, exp = 0, None
    for n, req in enumerate(reqs):
        if exp is not None:
            return "transfer %d was issued after the loop should have ended" % (n + 1)
        if req != flat[done:]:
            return "transfer %d was asked for something else than the untransferred rest (offset %d)" % (n + 1, done)
        if not req and flat[done:]:
            return "transfer %d was asked for nothing although bytes remain" % (n + 1)
        r = rs[n] if n < len(rs) else "0"
        if r == "e":
            exp = -1
        elif int(r) == 0:
            exp = done
        else:
            done += int(r)
            if done >= len(flat) and n == len(reqs) - 1:
                exp = done
    if exp is None:
        return "the loop stopped after %d transfers and %d of %d bytes although the stream had not ended" % (len(reqs), done, len(flat))
    if ret != exp:
        return "the loop returned %d, %d bytes were moved%s" % (ret, done, " and the last transfer failed" if exp == -1 else "")
    return None


def run(rep, tier, seed, replay=None):
    ok, log = C.lean_build()
    if not ok:
        rep.violation("unverified", dict(broken="lake build failed", log=log[-3000:]), no_input=True)
        return
    rep.proof(C.lean_audit("C10"), "cd lean && lake build && lake env lean Audit/C10.lean  (#print axioms per theorem)")
    if tier == "thorough":
        okc, out = C.leanchecker("Photon.Properties.C10")
        rep.cov["leanchecker"] = "ok" if okc else out
        if not okc:
            rep.violation("unverified", dict(broken="leanchecker Photon.Properties.C10", log=out), no_input=True)
    r = C.rng(seed, "c10")
    reported = False
    # ---- A. the transfer loop (doio_loop + BufStep / BufStepV) on scripted kernel results
    rp = json.load(open(replay)) if replay else None
    if not rp or rp.get("harness") == "c10_doio":
        lib, log = C.build_photon()
        if not lib:
            rep.violation("unverified", dict(broken="libphoton does not build from the working tree", log=log[-3000:]), no_input=True)
            return
        binary, log = C.compile_harness("c10_doio", ["c10_doio.cpp"], extra=C.photon_link_flags(lib),
                                        flags=C.HFUN_FLAGS + ["-DNDEBUG", "-I" + os.path.join(C.REPO, "include")])
        if not binary:
            rep.violation("unverified", dict(broken="correspondence c10_doio: harness does not compile against the tree", log=log[-3000:]), no_input=True)
            return
        ops = [rp["op"]] if rp else []
        if not rp:
            cp = os.path.join(C.VERIF, "corpus", "C10", "doio.txt")
            if os.path.exists(cp):
                ops += [l.strip() for l in open(cp) if l.strip() and not l.startswith("#")]
            ops += [gen_doio(r) for _ in range(20000 if tier == "thorough" else 4000)]
        rc, impl, err = C.run_lines(binary, [], ops, timeout=900)
        rc2, model, err2 = C.run_driver("doio", ops, timeout=900)
        if rc2 != 0 or len(model) != len(ops):
            rep.violation("unverified", dict(broken="driver doio failed: %s" % err2[-500:]), no_input=True)
            return
        first_diff = None
        for i, op in enumerate(ops):
            a = impl[i] if i < len(impl) else "crashed: " + err[-300:]
            rep.distinct(("doio", op.split()[0], a.split()[0] if a else ""))
            bad = doio_oracle(op, a)
            if bad and not reported:
                rep.violation("counterexample", dict(harness="c10_doio", op=op, observed=a, expected=bad, model=model[i]))
                reported = True
            if a != model[i] and first_diff is None:
                first_diff = (op, a, model[i])
        if first_diff and not reported:
            # the real loop issues different requests than the model although every request still denotes the untransferred suffix
            # and the result is right on every generated input: the correspondence is broken, the property is not shown violated
            rep.violation("unverified", dict(broken="correspondence c10_doio vs Lean model `ioLoop`/`ioLoopV` (theorems C10_ioLoop*_requests_suffix no longer "
                                                    "speak about this code)", op=first_diff[0], observed=first_diff[1], model=first_diff[2]), no_input=True)
            reported = True
        rep.count(len(ops))
        rep.cov["doio_ops"] = len(ops)
    # ---- B. real sockets + real engine on the virtual clock
    if rp and rp.get("harness") != "hsim_sock":
        return
    binary = hsim.build(rep, "hsim_sock")
    if not binary:
        return
    if rp:
        progs = [rp["program"]]
    else:
        progs = []
        cp = os.path.join(C.VERIF, "corpus", "C10")
        if os.path.isdir(cp):
            for f in sorted(os.listdir(cp)):
                if f.startswith("sock"):
                    progs.append([l.rstrip("\n") for l in open(os.path.join(cp, f)) if l.strip() and not l.startswith("#")])
        for _ in range(4000 if tier == "thorough" else 600):
            progs.append(gen_program(r, tier == "thorough"))
    shards = [progs[i::8] for i in range(8)]
    try:
        with cf.ThreadPoolExecutor(8) as ex:
            parts = list(ex.map(lambda sh: hsim.run_programs(binary, sh, model="sock", timeout=3000) if sh else [], shards))
    except RuntimeError as ex_:
        rep.violation("unverified", dict(broken="H-sim run failed: %s" % ex_), no_input=True)
        return
    known = C.known_findings("C10")
    nev, okc, seen, grace = 0, 0, {}, 0
    for sh, results in zip(shards, parts):
        for p, res in zip(sh, results):
            nev += len(res.trace)
            eng = p[0].split()[1:]
            for l in res.trace:
                w = l.split()
                if w[0] == "ret":
                    rv = int(w[4][2:])
                    rep.distinct((eng[0], eng[1], w[2], "neg%s" % w[5][2:] if rv < 0 else "zero" if rv == 0 else "pos"))
                elif w[0] == "grace_ms":
                    grace += int(w[1])
            viol = oracle(p, res.trace)
            if res.result.startswith("result crashed") or res.result.startswith("result hung") or res.result.startswith("result no"):
                viol.append("the runtime crashed or hung: " + res.result)
            rej = res.reject[1] if res.reject else None
            sigs = viol + ([rej] if rej else [])
            unlisted = []
            for v in sigs:
                k = [x for x in known if x["signature"] in v]
                if k:
                    seen.setdefault(k[0]["id"], (k[0], p, v))
                else:
                    unlisted.append(v)
            if not sigs:
                okc += 1
            if unlisted and not reported:
                tr = [l for l in res.trace if not l.startswith("tick")]
                if viol and any(v in unlisted for v in viol):
                    rep.violation("counterexample", dict(harness="hsim_sock", program=p, expected=[v for v in unlisted if v in viol][0], model_verdict=rej, trace=tr[-40:]))
                else:
                    # every event of the specification automaton is an API call/return or a quiescence point of the real run
                    i = res.reject[0]
                    rep.violation("counterexample", dict(harness="hsim_sock", program=p, expected="Lean automaton rejected `%s`: %s" % (res.trace[i], rej),
                                                         trace=[l for l in res.trace[:i + 1] if not l.startswith("tick")][-40:]))
                reported = True
    rep.count(nev)
    rep.cov["events"] = nev
    rep.cov["programs"] = len(progs)
    rep.cov["traces_validated_against_impl"] = okc
    rep.cov["real_ms_waited_for_tcp_in_flight"] = grace
    rep.cov["rule"] = ("A: doio_loop with BufStep/BufStepV on scripted transfer results (partial counts, EOF, failure, zero-length iovecs): return value and the "
                       "exact request issued to every transfer compared with the Lean model; B: 1..3 (sometimes 17..22) connected pairs of real photon socket "
                       "streams (Unix-domain and loopback TCP, plain and ET sockets) on the real epoll / epoll-ng engine on one vCPU under a virtual clock; per "
                       "direction 0..600000 bytes written by write/writev(with empty iovecs)/send loops and read by read/readv/recv loops with paces that force "
                       "EAGAIN on either side, both directions of one descriptor in use at once, stream timeouts shorter than the peer's pauses, shutdown at "
                       "arbitrary offsets with readers over-asking; every call/return (count, errno, stream offset, byte-for-byte data verdict) and every "
                       "quiescence point must be accepted by the Lean specification automaton; evaluations = events + ops")
    rep.sample(progs[-1])
    for kid, (k, p, v) in seen.items():
        rep.known_finding("%s (e.g. program `%s`: %s)" % (k["description"], " | ".join(p)[:200], v[:140]))
