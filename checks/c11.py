"""C11 — RPC stub / out-of-order engine. Lean specification automaton + theorems; the real StubImpl + OooEngine over a
scripted in-memory stream on a virtual clock (H-sim)."""
import json
import os

from lib import common as C
from checks import hsim

LEVEL = "proof"
HDR = 40


def gen_program(r, big=False):
    lines = []
    nthreads = r.randint(2, 6 if big else 4)
    k = 0
    calls = []          # (k, thread, approx start time, timeout, cap)
    threads = []
    for ti in range(1, nthreads + 1):
        ops, t = [], 0
        if r.random() < 0.3:
            d = r.choice([50, 500, 5000])
            ops.append("sleep %d" % d)
            t += d
        for _ in range(r.randint(1, 3 if big else 2)):
            k += 1
            to = r.choice(["inf", "inf", "5000", "20000", "50000"])
            cap = r.choice([16, 32, 32, 64])
            ops.append("call %d %s %d" % (k, to, cap))
            calls.append([k, ti, t, to, cap])
            if r.random() < 0.4:
                d = r.choice([100, 1000, 30000])
                ops.append("sleep %d" % d)
                t += d
            elif r.random() < 0.2:
                ops.append("yield")
        if r.random() < 0.5:
            ops.append("sleep 100000")      # keep the thread (and its stack) around after its last call
        threads.append("thread T%d %s" % (ti, " ; ".join(ops)))
    # the server: which responses appear on the wire, in which order, how fragmented, when
    resps = []
    rid = 0
    for c in calls:
        p = r.random()
        if p < 0.12:
            if c[3] == "inf":
                c[3] = r.choice(["5000", "20000"])
                threads[c[1] - 1] = threads[c[1] - 1].replace("call %d inf" % c[0], "call %d %s" % (c[0], c[3]))
            continue                      # never answered: the call must time out
        rid += 1
        size = r.choice([0, 1, 8, 16, c[4], c[4]])
        if size > c[4]:
            size = c[4]
        resps.append(["R%d" % rid, "for %d" % c[0], size, c])
        if r.random() < 0.06:
            rid += 1
            resps.append(["R%d" % rid, "for %d" % c[0], r.choice([8, 16]), c])   # duplicate answer
    if r.random() < 0.1:
        rid += 1
        resps.append(["R%d" % rid, "rogue %d" % r.choice([7777, 0, 99]), r.choice([0, 8]), None])
    r.shuffle(resps)
    for x in resps:
        lines.append("resp %s %s size %d" % (x[0], x[1], x[2]))
    lines += threads
    t = r.choice([10, 200, 2000])
    for x in resps:
        c = x[3]
        total = HDR + x[2]
        cuts = sorted(set([0, total] + [r.choice([HDR, HDR, r.randint(1, total - 1) if total > 1 else HDR]) for _ in range(r.randint(0, 3))]))
        cuts = [q for q in cuts if 0 <= q <= total]
        t += r.choice([0, 50, 500, 4000, 15000])
        if c is not None and c[3] != "inf" and r.random() < 0.5:
            # aim at the caller's deadline: header before it, body after it (or the other way round)
            t = max(t, c[2] + int(c[3]) - r.choice([1000, 100, 1, 0]))
        for a, b in zip(cuts, cuts[1:]):
            lines.append("at %d deliver %s %d %d" % (t, x[0], a, b - a))
            t += r.choice([0, 0, 1, 100, 1500, 6000, 25000])
    if r.random() < 0.08:
        lines.append("at %d rerror" % r.choice([100, 3000, 30000]))
    elif r.random() < 0.12:
        # the peer closes: mostly in the middle of a response body (the header and a part of the body arrive, then EOF)
        big = [x for x in resps if x[2] > 1]
        if big and r.random() < 0.75:
            x = r.choice(big)
            mine = [l for l in lines if l.startswith("at ") and (" deliver %s " % x[0]) in l]
            t0 = int(mine[0].split()[1])
            i0 = lines.index(mine[0])
            later = [l for l in lines[i0:] if l.startswith("at ") and " deliver " in l]
            for l in later:
                lines.remove(l)
            part = HDR + r.randint(1, x[2] - 1)
            if r.random() < 0.5:
                lines.append("at %d deliver %s 0 %d" % (t0, x[0], part))
            else:
                lines.append("at %d deliver %s 0 %d" % (t0, x[0], HDR))
                lines.append("at %d deliver %s %d %d" % (t0 + r.choice([0, 100, 3000]), x[0], HDR, part - HDR))
            lines.append("at %d eof" % (t0 + r.choice([3000, 3000, 20000, 100000])))
        else:
            lines.append("at %d eof" % r.choice([100, 3000, 30000]))
    if r.random() < 0.1:
        lines.append("wfail %d" % r.randint(1, max(1, k)))
    if r.random() < 0.15:
        lines.append("wslow %d %d" % (r.randint(1, max(1, k)), r.choice([100, 3000])))
    return lines


def oracle(prog, trace, result):
    """independent API-level check"""
    out = []
    resp_for = {}
    for l in trace:
        w = l.split()
        if w[0] == "resp":
            resp_for[w[1]] = (w[2], w[3])
    if result.startswith("result hung"):
        out.append("the runtime hung (no progress in 10 s of real time)")
    if result.startswith("result crashed"):
        out.append("the runtime crashed: " + result)
    for l in trace:
        w = l.split()
        if w[0] == "ret":
            k, r, content = w[2], int(w[3]), w[5]
            if r > 0:
                if content not in resp_for:
                    out.append("call %s reported success (%d bytes) but its buffer holds %s, not a response" % (k, r, content))
                elif resp_for[content] != ("for", k):
                    out.append("call %s reported success but its buffer holds the response produced for another request" % k)
        elif w[0] in ("rbb", "rb") and "dead=1" in w:
            out.append("a response body was read into the buffer of a call that has already returned")
        elif w[0] == "canary":
            out.append("the response buffer of returned call %s was modified" % w[1])
        elif w[0] == "final" and w[1] != "qcount=0":
            out.append("engine queue not empty after every call returned (%s)" % w[1])
    return out


def run(rep, tier, seed, replay=None):
    ok, log = C.lean_build()
    if not ok:
        rep.violation("unverified", dict(broken="lake build failed", log=log[-3000:]), no_input=True)
        return
    rep.proof(C.lean_audit("C11"), "cd lean && lake build && lake env lean Audit/C11.lean  (#print axioms per theorem)")
    if tier == "thorough":
        okc, out = C.leanchecker("Photon.Properties.C11")
        rep.cov["leanchecker"] = "ok" if okc else out
        if not okc:
            rep.violation("unverified", dict(broken="leanchecker Photon.Properties.C11", log=out), no_input=True)
    binary = hsim.build(rep, "hsim_rpc")
    if not binary:
        return
    if replay:
        progs = [json.load(open(replay))["program"]]
    else:
        progs = []
        cp = os.path.join(C.VERIF, "corpus", "C11")
        if os.path.isdir(cp):
            for f in sorted(os.listdir(cp)):
                progs.append([l.rstrip("\n") for l in open(os.path.join(cp, f)) if l.strip() and not l.startswith("#")])
        r = C.rng(seed, "c11")
        for _ in range(8000 if tier == "thorough" else 1200):
            progs.append(gen_program(r, tier == "thorough"))
    try:
        results = hsim.run_programs(binary, progs, model="rpc")
    except RuntimeError as ex:
        rep.violation("unverified", dict(broken="H-sim run failed: %s" % ex), no_input=True)
        return
    known = C.known_findings("C11")
    nev, okc = 0, 0
    reported = False
    seen = {}
    for p, res in zip(progs, results):
        nev += len(res.trace)
        for l in res.trace:
            w = l.split()
            if w[0] == "ret":
                rep.distinct(("ret", "ok" if int(w[3]) >= 0 else "fail", w[4], w[5] if not w[5].isdigit() else "resp"))
            elif w[0] == "rh":
                rep.distinct(("rh", w[4], w[5]))
            elif w[0] == "rb":
                rep.distinct(("rb", "ok" if int(w[4]) >= 0 else "fail", w[5]))
        viol = oracle(p, res.trace, res.result)
        rej = None
        if res.reject:
            i, v = res.reject
            rej = "Lean automaton rejected `%s`: %s" % (res.trace[i], v[len("reject "):])
        sigs = viol + ([rej] if rej else [])
        unlisted = []
        for v in sigs:
            kf = [x for x in known if x["signature"] in v]
            if kf:
                seen.setdefault(kf[0]["id"], (kf[0], p, v))
            else:
                unlisted.append(v)
        if not sigs:
            okc += 1
        if unlisted and not reported:
            tr = [l for l in res.trace if not l.startswith("x ")][-40:]
            if any(v in unlisted for v in viol):
                rep.violation("counterexample", dict(harness="hsim_rpc", program=p, expected=[v for v in unlisted if v in viol][0],
                                                     model_verdict=rej, trace=tr))
            else:
                i = res.reject[0]
                w = res.trace[i].split()
                if w[0] in ("ret", "qs", "final", "rbb", "rb", "intr", "rh", "w", "canary"):
                    # every event of this automaton is externally visible behaviour of the stub: the rejected history is the failing input
                    rep.violation("counterexample", dict(harness="hsim_rpc", program=p, expected=rej, trace=tr))
                else:
                    rep.violation("unverified", dict(broken="correspondence hsim_rpc vs Lean automaton `rpc`: history rejected", program=p,
                                                     event=res.trace[i], reason=rej, trace=tr), no_input=True)
            reported = True
    rep.count(nev)
    rep.cov["events"] = nev
    rep.cov["programs"] = len(progs)
    rep.cov["traces_validated_against_impl"] = okc
    rep.cov["rule"] = ("2..6 photon threads issuing 1..3 calls each on one real rpc::Stub over an in-memory stream; the script is the server: "
                       "responses in any permutation, fragmented at random byte offsets (inside the header, between header and body, inside the "
                       "body), delayed so that deliveries straddle individual callers' deadlines, never answered, answered twice, unknown tags, "
                       "stream errors, failing and slow writes; every call/return, request write, header read, body read (with target buffer), "
                       "reader interrupt and queue count must be accepted by the Lean specification automaton; evaluations = trace events")
    rep.sample(progs[-1])
    for kid, (kf, p, v) in seen.items():
        rep.known_finding("%s (e.g. program `%s`: %s)" % (kf["description"], " | ".join(p)[:200], v[:140]))
