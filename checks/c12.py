"""C12 — RPC serialization. Lean model + theorems; the real SerializerIOV/DeserializerIOV under ASan/UBSan on intact,
re-fragmented and hostile byte strings, diffed with the compiled model; independent round-trip / containment oracle."""
import json
import os

from lib import common as C

LEVEL = "proof"


def hexs(b):
    return "".join("%02x" % x for x in b) if len(b) else "-"


def rb(r, lo=0, hi=12):
    return bytes(r.randint(0, 255) for _ in range(r.randint(lo, hi)))


def cuts_for(r, n):
    if r.random() < 0.25 or n == 0:
        return "-"
    if r.random() < 0.15 and n <= 20:
        return ",".join(["1"] * n)          # one byte per element (an IOVector holds a bounded number of elements)
    if r.random() < 0.1 and n > 20:
        return ",".join(["1"] * 19)         # 19 one-byte elements, then the rest
    out, left = [], n
    while left > 0 and len(out) < 14:
        if r.random() < 0.15:
            out.append(0)
            continue
        l = r.randint(1, left)
        out.append(l)
        left -= l
    if left:
        out.append(left)
    return ",".join(map(str, out))


def gen_message(r):
    """returns (ser line, type, expected field list (hex), expected scalars)"""
    T = r.choice(["Inner", "M1", "M1", "M2", "M2", "M4"])
    if T == "Inner":
        a, c, b = r.randint(0, 2 ** 31 - 1), r.randint(0, 255), rb(r)
        return "ser Inner %d,%d %s" % (a, c, hexs(b)), T, [hexs(b)], [a, c], None
    if T == "M1":
        x, ia, ic, y = r.randint(0, 2 ** 64 - 1), r.randint(0, 2 ** 31 - 1), r.randint(0, 255), r.randint(0, 2 ** 32 - 1)
        s, ib, b, arr = rb(r), rb(r), rb(r, 0, 40), rb(r, 0, 6) * 4
        return ("ser M1 %d,%d,%d,%d %s %s %s %s" % (x, ia, ic, y, hexs(s), hexs(ib), hexs(b), hexs(arr)), T,
                [hexs(s), hexs(ib), hexs(b), hexs(arr)], [x, ia, ic, y], None)
    if T == "M2":
        x = r.randint(0, 2 ** 64 - 1)
        ab, s, b = rb(r, 0, 32), rb(r), rb(r)
        iv = [rb(r, 0, 9) for _ in range(r.randint(0, 4))]
        aiv = [rb(r, 0, 9) for _ in range(r.randint(0, 3))]
        enc = lambda ps: "+".join(hexs(p) if len(p) else "" for p in ps) if ps else "-"
        # an empty piece is written as an empty token between '+'; keep the encoding unambiguous: no empty pieces at all
        iv = [p for p in iv if len(p)]
        aiv = [p for p in aiv if len(p)]
        return ("ser M2 %d %s %s %s %s %s" % (x, hexs(ab), hexs(s), enc(iv), enc(aiv), hexs(b)), T,
                [hexs(ab), hexs(s), hexs(b"".join(iv)), hexs(b"".join(aiv)), hexs(b)], [x], None)
    x = r.randint(0, 2 ** 31 - 1)
    s = rb(r)
    n = r.randint(0, 4)
    ents, seen = [], set()
    for _ in range(n):
        k = bytes(r.randint(97, 122) for _ in range(r.randint(1, 4))) + b"\0"
        if k in seen:
            continue
        seen.add(k)
        ents.append((k, r.randint(0, 1000), r.randint(0, 255), rb(r, 0, 6)))
    line = "ser M4 %d %s %s" % (x, hexs(s), "/".join("%s:%d:%d:%s" % (hexs(k), a, c, hexs(v)) for k, a, c, v in ents) if ents else "-")
    return line, T, None, [x], (hexs(s), ents)


def mutate(r, wire, sch):
    """hostile variants of a wire: truncation, byte flips, length fields rewritten, random bytes"""
    w = bytearray(wire)
    B = sch["B"]
    c = r.random()
    if c < 0.2 and len(w):
        return bytes(w[:r.randint(0, len(w))] if r.random() < 0.5 else w[r.randint(0, len(w)):])
    if c < 0.4 and len(w):
        for _ in range(r.randint(1, 3)):
            w[r.randrange(len(w))] ^= 1 << r.randrange(8)
        return bytes(w)
    if c < 0.85 and len(w) >= B and sch["lenoffs"]:
        off = len(w) - B + r.choice(sch["lenoffs"])
        old = int.from_bytes(w[off:off + 8], "little")
        new = r.choice([0, 1, old + 1, max(0, old - 1), old + r.randint(1, 300), len(w), len(w) - B, 2 ** 63, 2 ** 64 - 1, r.randint(0, 64)])
        w[off:off + 8] = new.to_bytes(8, "little")
        if r.random() < 0.3 and new < old:      # also drop the payload bytes, as a sender lying consistently would
            pass
        return bytes(w)
    if c < 0.93 and sch["name"] == "M4" and len(w) >= B:
        # rewrite one slice of the sorted-map index (the index is the first field on the wire)
        ilen = int.from_bytes(w[len(w) - B + sch["lenoffs"][0]:len(w) - B + sch["lenoffs"][0] + 8], "little")
        if ilen >= 32:
            e = r.randrange(ilen // 32) * 32 + r.choice([0, 8, 16, 24])
            new = r.choice([0, 1, 2 ** 20, 2 ** 63, 2 ** 64 - 1, r.randint(0, 80)])
            w[e:e + 8] = new.to_bytes(8, "little")
        return bytes(w)
    return bytes(r.randint(0, 255) for _ in range(r.randint(0, B + 40)))


def parse_schema(line):
    t = line.split()
    d = {"name": t[0]}
    for x in t[1:]:
        k, v = x.split("=")
        d[k] = v
    d["B"] = int(d["B"])
    d["lenoffs"] = [int(f.split(":")[1]) for f in d["fields"].split(",")] if d["fields"] != "-" else []
    d["ptr_offs"] = [int(x) for x in d["ptrs"].split(",")] if d.get("ptrs", "-") != "-" else []
    return d


def run(rep, tier, seed, replay=None):
    ok, log = C.lean_build()
    if not ok:
        rep.violation("unverified", dict(broken="lake build failed", log=log[-3000:]), no_input=True)
        return
    rep.proof(C.lean_audit("C12"), "cd lean && lake build && lake env lean Audit/C12.lean  (#print axioms per theorem)")
    if tier == "thorough":
        okc, out = C.leanchecker("Photon.Properties.C12")
        rep.cov["leanchecker"] = "ok" if okc else out
        if not okc:
            rep.violation("unverified", dict(broken="leanchecker Photon.Properties.C12", log=out), no_input=True)
    lib, blog = C.build_photon()
    if not lib:
        rep.violation("unverified", dict(broken="libphoton does not build from the working tree", log=blog[-3000:]), no_input=True)
        return
    binary, log = C.compile_harness("c12_ser", ["c12_ser.cpp", os.path.join(C.REPO, "common", "iovector.cpp")], extra=C.photon_link_flags(lib),
                                      flags=C.HFUN_FLAGS + ["-fno-sanitize=alignment,pointer-overflow"])   # packed array<T> elements; end() of a failed (null) array field is computed but never dereferenced
    if not binary:
        rep.violation("unverified", dict(broken="correspondence c12_ser: harness does not compile against the tree", log=log[-3000:]), no_input=True)
        return
    rc, sl, err = C.run_lines(binary, [], ["schema"])
    if rc != 0 or len(sl) < 4:
        rep.violation("unverified", dict(broken="c12_ser schema failed", log=err[-1500:]), no_input=True)
        return
    schemas = {parse_schema(l)["name"]: parse_schema(l) for l in sl}
    sdefs = ["schema-def " + l for l in sl]
    r = C.rng(seed, "c12")
    known = C.known_findings("C12")
    if replay:
        des = json.load(open(replay))["ops"]
        meta = [None] * len(des)
    else:
        msgs = [gen_message(r) for _ in range(6000 if tier == "thorough" else 700)]
        rc, wires, err = C.run_lines(binary, [], [m[0] for m in msgs], timeout=1200)
        if rc != 0 or len(wires) != len(msgs):
            k = len(wires)
            rep.violation("counterexample", dict(harness="c12_ser", ops=[msgs[k][0]] if k < len(msgs) else [],
                                                 observed="harness aborted while serializing (rc=%s): %s" % (rc, err[-1500:])))
            return
        des, meta = [], []
        cp = os.path.join(C.VERIF, "corpus", "C12")
        if os.path.isdir(cp):
            for f in sorted(os.listdir(cp)):
                for l in open(os.path.join(cp, f)):
                    if l.strip() and not l.startswith("#"):
                        des.append(l.strip())
                        meta.append(None)
        for m, wl in zip(msgs, wires):
            wire = bytes.fromhex(wl.split("=", 1)[1]) if wl != "wire=-" else b""
            T = m[1]
            for _ in range(3):      # the same bytes under different fragmentations
                des.append("des %s %s %s" % (T, hexs(wire), cuts_for(r, len(wire))))
                meta.append(m)
            for _ in range(6 if tier == "thorough" else 4):
                h = mutate(r, wire, schemas[T])
                des.append("des %s %s %s" % (T, hexs(h), cuts_for(r, len(h))))
                meta.append(None)
            if T == "M2" and len(wire) > schemas[T]["B"]:
                # a checked message with one bit of a variable-length field flipped: CRC32C detects every single-bit error
                w = bytearray(wire)
                w[r.randrange(len(w) - schemas[T]["B"])] ^= 1 << r.randrange(8)
                des.append("des %s %s %s" % (T, hexs(bytes(w)), cuts_for(r, len(w))))
                meta.append("flip-field")
                w = bytearray(wire)
                cands = [i for i in range(len(w) - schemas[T]["B"], len(w)) if not any(p <= i - (len(w) - schemas[T]["B"]) < p + 8 for p in schemas[T]["ptr_offs"])]
                w[r.choice(cands)] ^= 1 << r.randrange(8)
                des.append("des %s %s %s" % (T, hexs(bytes(w)), cuts_for(r, len(w))))
                meta.append("flip-body")
                # the same alteration with the stored checksum overwritten by a constant (0, all ones, ...)
                co = len(w) - schemas[T]["B"] + int(schemas[T]["crc"])
                w[co:co + 4] = r.choice([b"\0\0\0\0", b"\xff\xff\xff\xff", b"\1\0\0\0"])
                des.append("des %s %s %s" % (T, hexs(bytes(w)), cuts_for(r, len(w))))
                meta.append("flip-body")
        for _ in range(300):
            d = rb(r, 0, 40)
            des.append("crc %s %d" % (hexs(d), r.randint(0, 2 ** 32 - 1)))
            meta.append(None)
    rep.count(len(des))
    rc, impl, err = C.run_lines(binary, [], des, timeout=3000)
    rc2, model, err2 = C.run_driver("ser", sdefs + des, timeout=3000)
    model = model[len(sdefs):]
    rep.cov["rule"] = ("message types Inner, M1 (fixed fields, string, nested message, buffer, array), M2 (checked message: aligned buffer, "
                       "string, iovec array, aligned iovec array, buffer) and M4 (sorted_map<string, Inner> + string) with random field "
                       "contents incl. empty fields; every serialized message is deserialized under 3 random fragmentations (incl. one byte "
                       "per element) and must round-trip; 4..6 hostile variants each (truncation, bit flips, every length field rewritten to "
                       "0 / off-by-one / larger than the input / 2^63 / 2^64-1, sorted-map index slices rewritten, random bytes); every field "
                       "byte of an accepted message is read under ASan and every sorted-map entry is anchored and looked up; results diffed "
                       "with the compiled Lean model; evaluations = deserialize calls")
    reported = False
    seen = {}
    if rc != 0 or len(impl) != len(des):
        k = len(impl)
        v = "the deserializer (or an accessor of the accepted message) crashed under ASan/UBSan: " + err[-1200:]
        kf = [x for x in known if x["signature"] in v]
        if kf:
            seen[kf[0]["id"]] = (kf[0], des[k] if k < len(des) else "", v)
        else:
            rep.violation("counterexample", dict(harness="c12_ser", ops=[des[k]] if k < len(des) else [], observed=v[:3000],
                                                 model=model[k] if k < len(model) else None))
            reported = True
        des, meta = des[:k], meta[:k]
    if rc2 != 0 or len(model) < len(des):
        rep.violation("unverified", dict(broken="driver ser failed", log=err2[-1500:]), no_input=True)
        return
    okc, ndiff = 0, 0
    for op, a, b, m in zip(des, impl, model, meta):
        t = op.split()
        if t[0] == "des":
            rep.distinct((t[1], a.split()[0], "intact" if (m and not isinstance(m, str)) else (m if isinstance(m, str) else "hostile"), "1elem" if t[3] == "-" else "frag"))
        v = None
        if m in ("flip-field", "flip-body"):
            if not a.startswith("null"):
                v = ("a checked message with one altered bit in a variable-length field was accepted (the checksum does not cover the fields)"
                     if m == "flip-field" else "a checked message with one altered bit in its body was accepted")
        elif m is not None:
            # round trip: the real serializer's bytes, re-fragmented, must give the message back
            if a.startswith("null"):
                v = "round trip failed: a serialized %s was rejected by deserialize under fragmentation %s" % (m[1], t[3])
            else:
                f = a.split()[1][2:].split(";")
                sc = [int(x) for x in a.split()[2][2:].split(",")]
                if m[2] is not None and f != m[2]:
                    v = "round trip changed a field of %s: got %s, sent %s" % (m[1], f, m[2])
                elif sc != m[3]:
                    v = "round trip changed a fixed field of %s: got %s, sent %s" % (m[1], sc, m[3])
                elif m[4] is not None:
                    s_hex, ents = m[4]
                    got = a.split()[3][4:]
                    exp = "|".join("%s:%d,%d,%s" % (hexs(k), av, c, hexs(vb)) for k, av, c, vb in sorted(ents, key=lambda e: e[0][:-1])) if ents else "-"
                    if f[2] != s_hex or got != exp:
                        v = "round trip changed the sorted map of M4: got %s, sent %s" % (got, exp)
        elif t[0] == "des" and a.startswith("ok"):
            wh = t[2]
            for fh in a.split()[1][2:].split(";"):
                if fh != "-" and (wh == "-" or fh not in wh):
                    v = "deserialize accepted hostile bytes and produced a field that is not a sub-string of the input"
        if v and not reported:
            kf = [x for x in known if x["signature"] in v]
            if kf:
                seen.setdefault(kf[0]["id"], (kf[0], op, v))
            else:
                rep.violation("counterexample", dict(harness="c12_ser", ops=[op], observed=a, expected=v, model=b))
                reported = True
        if a != b:
            ndiff += 1
            if not reported and not v:
                rep.violation("unverified", dict(broken="correspondence c12_ser vs model ser: outputs differ", ops=[op], impl=a, model=b,
                                                 note="the round-trip / containment oracle accepts this input"), no_input=True)
                reported = True
        else:
            okc += 1
    rep.cov["traces_validated_against_impl"] = okc
    rep.cov["model_impl_disagreements"] = ndiff
    for op in des[:2] + des[-2:]:
        rep.sample(op[:300])
    for kid, (kf, op, v) in seen.items():
        rep.known_finding("%s (e.g. `%s`: %s)" % (kf["description"], op[:160], v[:140]))
