"""C13 — HTTP/1.1 framing. Lean specification (whole-message parser, chunked coding) + theorems; the real incremental parser,
body readers and writers under ASan on generated messages under many fragmentations / read sizes, diffed with the compiled
specification; independent oracle: the generator's intended message."""
import json
import os

from lib import common as C

LEVEL = "proof"
KEYS = ["Host", "Accept", "User-Agent", "X-Foo", "x-bar", "ETag", "Cache-Control", "Range", "X-A", "X-AA", "X-a-b", "Date", "Server", "Via", "Cookie",
        "Content-Type", "accept-encoding", "X-Long-Header-Name-For-Testing", "A", "Z"]


def hx(b):
    return b.hex() if len(b) else "-"


def cuts_for(r, msg, term):
    n = len(msg)
    c = r.random()
    if c < 0.15:
        return "-"
    if c < 0.3 and n <= 3000:
        return ",".join(["1"] * n)
    if c < 0.5:
        # around the header terminator
        k = r.choice([term - 3, term - 2, term - 1, term, term + 1, term + 2, term + 4])
        k = max(1, min(n - 1, k)) if n > 1 else 1
        rest = [r.randint(1, 5) for _ in range(r.randint(0, 4))]
        return ",".join(map(str, [k] + rest))
    out, left = [], n
    while left > 0 and len(out) < 60:
        l = r.choice([1, 2, 3, r.randint(1, 20), r.randint(1, 400), r.randint(1, 5000)])
        l = min(l, left)
        out.append(l)
        left -= l
    return ",".join(map(str, out))


def reads_for(r):
    c = r.random()
    if c < 0.2:
        return "1"
    if c < 0.4:
        return str(r.choice([2, 3, 7, 16]))
    if c < 0.6:
        return str(r.choice([4096, 5000, 100000]))
    return ",".join(str(r.choice([1, 2, 5, 13, 100, 1000, 4095, 4096, 4097, 9000])) for _ in range(r.randint(2, 4)))


def gen_body(r):
    n = r.choice([0, 1, 2, 10, r.randint(0, 300), r.randint(0, 300), r.randint(1000, 6000), r.choice([4094, 4095, 4096, 4097, 8192])])
    return bytes(r.randint(0, 255) for _ in range(n))


def chunk_encode(r, body):
    out = b""
    pos = 0
    while pos < len(body):
        l = r.choice([1, 2, 15, 16, 17, r.randint(1, 300), r.randint(1, 300), 4096, 5000, len(body) - pos])
        l = min(l, len(body) - pos)
        h = ("%x" % l) if r.random() < 0.7 else ("%X" % l)
        out += h.encode() + b"\r\n" + body[pos:pos + l] + b"\r\n"
        pos += l
    return out + b"0\r\n\r\n"


def gen_valid(r):
    """returns (op line prefix, message bytes, expected dict)"""
    is_req = r.random() < 0.45
    version = b"1.1" if r.random() < 0.8 else b"1.0"
    keys = r.sample(KEYS, r.randint(0, 12))
    hdrs = []
    for k in keys:
        v = bytes(r.choice(b"abcdefghijklmnopqrstuvwxyzABCDEFGHIJKLMNOPQRSTUVWXYZ0123456789 :;,=/-_.*\"") for _ in range(r.randint(0, 40))).lstrip(b" ")
        sep = r.choice([b": ", b": ", b":", b":   "])
        hdrs.append((k.encode(), v, sep))
    body = gen_body(r)
    head = r.random() < 0.08 and not is_req
    mode = r.choice(["len", "len", "chunked", "chunked", "close", "nobody"]) if not is_req else r.choice(["len", "len", "chunked", "nobody"])
    if head:
        mode = r.choice(["len", "nobody"])      # a response to HEAD carries Content-Length but no body (chunked + HEAD is outside C13)
    wire_body = b""
    if mode == "len":
        hdrs.append((b"Content-Length", str(len(body)).encode(), b": "))
        wire_body = b"" if head else body
    elif mode == "chunked":
        hdrs.append((b"Transfer-Encoding", b"chunked", b": "))
        wire_body = chunk_encode(r, body)
    elif mode == "close":
        if version == b"1.1" or r.random() < 0.5:
            hdrs.append((b"Connection", b"close", b": "))
        wire_body = body
    else:
        if version == b"1.0":
            hdrs.append((b"Connection", b"keep-alive", b": "))
        body = b""
    r.shuffle(hdrs)
    if is_req:
        verb = r.choice([b"GET", b"POST", b"PUT", b"DELETE"] + ([b"HEAD"] if mode == "nobody" else []))
        target = b"/" + bytes(r.choice(b"abcdefghij/0123456789?=&%.-_") for _ in range(r.randint(0, 60)))
        start = verb + b" " + target + b" HTTP/" + version + b"\r\n"
        exp_start = "%s,%s,%s" % (hx(verb), hx(target), hx(version))
    else:
        code = r.choice([200, 200, 206, 301, 404, 500, 100, 999])
        reason = bytes(r.choice(b"abcdefghijklmnop QRSTUV") for _ in range(r.randint(0, 20))).lstrip(b" ")
        start = b"HTTP/" + version + b" " + str(code).encode() + b" " + reason + b"\r\n"
        exp_start = "%d,%s,%s" % (code, hx(reason), hx(version))
    headb = start + b"".join(k + sep + v + b"\r\n" for k, v, sep in hdrs) + b"\r\n"
    msg = headb + wire_body
    if mode in ("len", "chunked") and r.random() < 0.2:
        msg += bytes(r.randint(0, 255) for _ in range(r.randint(1, 30)))     # bytes of the next message on the connection
    if head:
        body = b""
    exp_h = "|".join("%s:%s" % (hx(k), hx(v)) for k, v, _ in sorted(hdrs, key=lambda kv: kv[0].lower())) if hdrs else "-"
    exp = "rc=0 start=%s hdr=%s body=%s end=0" % (exp_start, exp_h, hx(body))
    op = "%s %s %s %s%s" % ("req" if is_req else "resp", hx(msg), "%s", "%s", " HEAD" if head else "")
    return op, msg, exp, len(headb) - 4


def mutate(r, msg):
    w = bytearray(msg)
    c = r.random()
    if c < 0.3 and len(w) > 1:
        return bytes(w[:r.randint(0, len(w) - 1)])                       # truncated
    if c < 0.6 and len(w):
        for _ in range(r.randint(1, 4)):
            w[r.randrange(len(w))] = r.choice([13, 10, 58, 32, 0, 255, r.randint(0, 255), ord("g"), ord("-")])
        return bytes(w)
    if c < 0.75 and len(w) > 4:
        i = r.randrange(len(w) - 2)
        del w[i:i + r.randint(1, 3)]                                      # dropped bytes (e.g. a CR, a colon, a digit)
        return bytes(w)
    if c < 0.9:
        i = r.randrange(len(w) + 1)
        w[i:i] = r.choice([b"\r\n", b"\r\n\r\n", b":", b"ffffffffffffffff\r\n", b"0\r\n", b"-1\r\n", b" " * 5])
        return bytes(w)
    return bytes(r.randint(0, 255) for _ in range(r.randint(0, 200)))


def strip(line):
    return " ".join(t for t in line.split() if not t.startswith("recvs="))


def run(rep, tier, seed, replay=None):
    ok, log = C.lean_build()
    if not ok:
        rep.violation("unverified", dict(broken="lake build failed", log=log[-3000:]), no_input=True)
        return
    rep.proof(C.lean_audit("C13"), "cd lean && lake build && lake env lean Audit/C13.lean  (#print axioms per theorem)")
    if tier == "thorough":
        okc, out = C.leanchecker("Photon.Properties.C13")
        rep.cov["leanchecker"] = "ok" if okc else out
        if not okc:
            rep.violation("unverified", dict(broken="leanchecker Photon.Properties.C13", log=out), no_input=True)
    lib, blog = C.build_photon()
    if not lib:
        rep.violation("unverified", dict(broken="libphoton does not build from the working tree", log=blog[-3000:]), no_input=True)
        return
    srcs = ["c13_http.cpp"] + [os.path.join(C.REPO, p) for p in ("net/http/message.cpp", "net/http/headers.cpp", "net/http/body.cpp",
                                                                   "net/http/url.cpp", "common/estring.cpp", "common/iovector.cpp")]
    binary, log = C.compile_harness("c13_http", srcs, extra=C.photon_link_flags(lib), flags=C.HFUN_FLAGS + ["-I" + os.path.join(C.REPO, "include")])
    if not binary:
        rep.violation("unverified", dict(broken="correspondence c13_http: harness does not compile against the tree", log=log[-3000:]), no_input=True)
        return
    r = C.rng(seed, "c13")
    known = C.known_findings("C13")
    ops, exps, valid = [], [], []
    if replay:
        ops = json.load(open(replay))["ops"]
        exps, valid = [None] * len(ops), [False] * len(ops)
    else:
        cp = os.path.join(C.VERIF, "corpus", "C13")
        if os.path.isdir(cp):
            for f in sorted(os.listdir(cp)):
                for l in open(os.path.join(cp, f)):
                    if l.strip() and not l.startswith("#"):
                        ops.append(l.strip()); exps.append(None); valid.append(False)
        # the library's writers, read back by its readers (second pass below)
        wr = []
        for _ in range(300 if tier == "thorough" else 60):
            mode = r.choice(["chunked", "chunked", "len"])
            pieces = []
            for _ in range(r.randint(0, 6)):
                if r.random() < 0.25:
                    pieces.append("%d+%d" % (r.randint(0, 40), r.randint(1, 300)))
                else:
                    pieces.append(str(r.choice([1, 2, 16, r.randint(1, 300), 4096, 5000])))
            wr.append("wr %s %s" % (mode, ",".join(pieces) if pieces else "-"))
        rc, wout, err = C.run_lines(binary, [], wr, timeout=600)
        if rc != 0 or len(wout) != len(wr):
            rep.violation("counterexample", dict(harness="c13_http", ops=wr[len(wout):len(wout) + 1], observed="writer crashed: " + err[-1500:]))
            return
        for w, o in zip(wr, wout):
            if not o.startswith("ok "):
                rep.violation("counterexample", dict(harness="c13_http", ops=[w], observed=o, expected="the body writer accepts the pieces"))
                return
            wire = bytes.fromhex(o.split("wire=")[1])
            # expected payload: the harness writes bytes 1|.. in sequence ((v++)|1)
            total, v, body = 0, 1, bytearray()
            for p in w.split()[2].split(",") if w.split()[2] != "-" else []:
                for q in p.split("+"):
                    for _ in range(int(q)):
                        body.append((v | 1) & 255); v = (v + 1) & 255
            term = wire.find(b"\r\n\r\n")
            for _ in range(3):
                ops.append("resp %s %s %s" % (hx(wire), cuts_for(r, wire, term), reads_for(r)))
                exps.append(("writer", hx(bytes(body)))); valid.append(True)
        for _ in range(5000 if tier == "thorough" else 600):
            op, msg, exp, term = gen_valid(r)
            for _ in range(3):
                ops.append(op % (cuts_for(r, msg, term), reads_for(r))); exps.append(("gen", exp)); valid.append(True)
            for _ in range(3):
                h = mutate(r, msg)
                kind = op.split()[0]
                ops.append("%s %s %s %s" % (kind, hx(h), cuts_for(r, h, max(1, h.find(b"\r\n\r\n"))), reads_for(r))); exps.append(None); valid.append(False)
    rep.count(len(ops))
    rc, impl, err = C.run_lines(binary, [], ops, timeout=3000)
    vops = [o for o, v in zip(ops, valid) if v]
    rc2, model, err2 = C.run_driver("http", vops, timeout=3000)
    rep.cov["rule"] = ("valid requests and responses (0..13 headers with mixed-case distinct names and separators, bodies of 0..8192 bytes framed by "
                       "Content-Length, chunked coding with chunk sizes 1..5000 and upper/lower-case hex, connection close, or none; HEAD; "
                       "HTTP/1.0 and 1.1; trailing bytes of a next message), each under 3 fragmentations (whole, one byte per recv, cuts around the "
                       "header terminator, random) and read() size patterns (1 byte .. 100000); messages produced by the library's own chunked and "
                       "fixed-length writers read back; 3 malformed variants each (truncated, bytes replaced by CR/LF/colon/NUL, dropped, inserted "
                       "size lines) run under ASan with a step bound; valid inputs are compared with the compiled Lean specification and with the "
                       "generator's intent; evaluations = parse+read runs")
    reported = False
    seen = {}
    if rc != 0 or len(impl) != len(ops):
        k = len(impl)
        looped = "LOOP" in (impl[-1] if impl else "")
        v = ("the parser / body reader did not terminate within the step bound" if rc == 3 else
             "the parser / body reader crashed under ASan/UBSan: " + err[-1500:])
        kf = [x for x in known if x["signature"] in v]
        if kf:
            seen[kf[0]["id"]] = (kf[0], ops[k] if k < len(ops) else "", v)
        else:
            rep.violation("counterexample", dict(harness="c13_http", ops=[ops[k]] if k < len(ops) else [], observed=v[:3000]))
            reported = True
        ops, exps, valid = ops[:k], exps[:k], valid[:k]
    if rc2 != 0 or len(model) != len(vops):
        rep.violation("unverified", dict(broken="driver http failed", log=err2[-1500:]), no_input=True)
        return
    mi = iter(model)
    okc, ndiff = 0, 0
    first_cex, first_diff = None, None
    for op, a, e, v in zip(ops, impl, exps, valid):
        t = op.split()
        rep.distinct((t[0], a.split()[0], "valid" if v else "malformed", "1" if t[2] == "-" else "frag"))
        if not v:
            continue
        b = next(mi)
        sa = strip(a)
        sg = " ".join(t_ for t_ in sa.split() if not t_.startswith("hend="))
        viol = None
        if e[0] == "gen" and sg != e[1]:
            viol = "parse of a valid message differs from the message that was generated (fragmentation %s, read sizes %s): got `%s`" % (t[2][:60], t[3], sa[:300])
        if e[0] == "writer":
            got = dict(x.split("=", 1) for x in sa.split()[1:]) if sa.startswith("rc=0") else {}
            if got.get("body") != e[1] or got.get("end") != "0":
                viol = "a body written by the library's writer is not read back identically by its reader"
        if viol:
            kf = [x for x in known if x["signature"] in viol]
            if kf:
                seen.setdefault(kf[0]["id"], (kf[0], op, viol))
            elif first_cex is None:
                first_cex = dict(harness="c13_http", ops=[op], observed=sa[:2000], expected=viol, intended=e[1][:2000], model=b[:2000])
        if sa != b:
            ndiff += 1
            if first_diff is None and not viol:
                first_diff = dict(broken="correspondence c13_http vs model http: outputs differ", ops=[op], impl=sa[:2000], model=b[:2000],
                                  note="the generator-intent oracle accepts this input")
        else:
            okc += 1
    if not reported:
        if first_cex is not None:
            rep.violation("counterexample", first_cex)
        elif first_diff is not None:
            rep.violation("unverified", first_diff, no_input=True)
    rep.cov["traces_validated_against_impl"] = okc
    rep.cov["model_impl_disagreements"] = ndiff
    for op in ops[:1] + ops[-1:]:
        rep.sample(op[:300])
    for kid, (kf, op, v) in seen.items():
        rep.known_finding("%s (e.g. `%s`: %s)" % (kf["description"], op[:160], v[:140]))
