"""C14 — iovector. Proof (Lean) + element-level functional correspondence + flat-byte-string oracle."""
import json
import os

from lib import common as C

LEVEL = "proof"


def content(b, o):
    return (b * 37 + o * 11 + 5) % 251


# ------------------------------------------------------------------ generator

def gen_program(r, pid, big=False):
    """one program = fresh buffers + views + an op sequence; returns list of lines"""
    lines = []
    nb = r.randint(1, 8)
    base = pid * 16
    sizes = {}
    for i in range(nb):
        sizes[base + i] = r.choice([0, 0, 1, 2, 3, 5, 8, 13]) if r.random() < 0.8 else r.randint(0, 40)
    for b, n in sizes.items():
        lines.append("buf %d %d" % (b, n))

    def rand_view(bufids, maxel):
        k = r.choice([0, 0, 1, 1, 2, 3, 4, 5, 6, 8]) if maxel >= 8 else r.randint(0, maxel)
        es = []
        for _ in range(k):
            b = r.choice(bufids)
            n = sizes[b]
            c = r.random()
            if c < 0.6:
                o, l = 0, n                      # whole buffer (exact size: ASan sees any overrun)
            elif c < 0.75:
                o = r.randint(0, n); l = 0       # zero-length element anywhere
            else:
                o = r.randint(0, n); l = r.randint(0, n - o)
            es.append("%d:%d:%d" % (b, o, l))
        return es
    ids = list(sizes)
    half = max(1, len(ids) // 2)
    va, vb = base, base + 1
    # view a uses the first half of the buffers, view b the second half: no aliasing between them
    ea = rand_view(ids[:half], 8)
    eb = rand_view(ids[half:] or ids[:half], 8) if len(ids) > half else []
    lines.append("new %d %s" % (va, " ".join(ea) or "-"))
    lines.append("new %d %s" % (vb, " ".join(eb) or "-"))
    tot = lambda es: sum(int(e.split(":")[2]) for e in es)
    ta, tb = tot(ea), tot(eb)
    nops = r.randint(1, 30 if big else 12)
    for _ in range(nops):
        vid, t = (va, ta) if r.random() < 0.7 else (vb, tb)
        n = r.choice([0, 1, t, t + 1, t + 2, max(0, t - 1)]) if r.random() < 0.5 else r.randint(0, t + 2)
        op = r.choice(["sum", "show", "flat", "shrink_to", "shrink_lt", "xfront", "xback", "xfront_buf", "xback_buf",
                       "xfc", "xbc", "oxfc", "oxbc", "memcpy_to_buf", "memcpy_from_buf", "pipe_to_buf",
                       "xfront_view", "xback_view", "slice", "memcpy_v", "pipe_v", "renew"])
        if op in ("sum", "show", "flat"):
            lines.append("%s %d" % (op, vid))
        elif op in ("xfront_view", "xback_view"):
            lines.append("%s %d %d %d" % (op, vid, n, r.choice([0, 1, 2, 3, 9])))
        elif op == "slice":
            lines.append("slice %d %d %d %d" % (vid, n, r.randint(0, t + 1), r.choice([0, 1, 2, 3, 9])))
        elif op in ("memcpy_v", "pipe_v"):
            d, s = (va, vb) if r.random() < 0.5 else (vb, va)
            lines.append("%s %d %d %d" % (op, d, s, r.choice([0, 1, 3, 7, 100, 2 ** 63])))
        elif op == "renew":
            e = rand_view(ids[:half], 8) if vid == va else (rand_view(ids[half:], 8) if len(ids) > half else [])
            lines.append("new %d %s" % (vid, " ".join(e) or "-"))
            if vid == va:
                ta = tot(e)
            else:
                tb = tot(e)
        else:
            lines.append("%s %d %d" % (op, vid, n))
    return lines


def gen(tier, seed):
    progs = []
    cp = os.path.join(C.VERIF, "corpus", "C14")
    if os.path.isdir(cp):
        for f in sorted(os.listdir(cp)):
            progs.append([l.strip() for l in open(os.path.join(cp, f)) if l.strip() and not l.startswith("#")])
    r = C.rng(seed, "c14")
    n = 40000 if tier == "thorough" else 8000
    for pid in range(n):
        progs.append(gen_program(r, pid + 1000, tier == "thorough"))
    return progs


# ------------------------------------------------------------------ flat oracle

class Flat:
    """reference: a view denotes a list of addresses; memory is a dict"""

    def __init__(self):
        self.mem = {}
        self.views = {}

    def rd(self, a):
        return self.mem.get(a, content(*a))

    @staticmethod
    def parse_view(s):
        s = s.strip()
        if s == "-" or s == "":
            return []
        return [tuple(map(int, e.split(":"))) for e in s.split()]

    @staticmethod
    def addrs(es):
        return [(b, o + i) for (b, o, l) in es for i in range(l)]

    def hexof(self, al):
        return "".join("%02x" % self.rd(a) for a in al) or "-"


def hexbytes(h):
    return [] if h == "-" else [int(h[i:i + 2], 16) for i in range(0, len(h), 2)]


def oracle_step(F, op, out):
    """checks one implementation output line against the flat semantics; updates F. returns error text or None"""
    t = op.split()
    name = t[0]
    if name == "buf":
        return None
    if name == "new":
        F.views[int(t[1])] = F.parse_view(" ".join(t[2:]))
        return None
    vid = int(t[1])
    before = F.views[vid]
    A = F.addrs(before)
    tot = len(A)
    secs = [s.strip() for s in out.split("|")]
    n = int(t[2]) if len(t) > 2 else 0
    if name == "sum":
        return None if int(out) == tot else "sum %s != %d" % (out, tot)
    if name == "show":
        return None if F.parse_view(out) == before else "view changed without an operation"
    if name == "flat":
        return None if out == F.hexof(A) else "flat bytes differ from the reference"
    if name in ("shrink_to", "xfront", "xback", "xfront_buf", "xback_buf", "pipe_to_buf"):
        ret = int(secs[0]); after = F.parse_view(secs[1]); F.views[vid] = after
        if ret != min(n, tot):
            return "%s returned %d, flat says %d" % (name, ret, min(n, tot))
        B = F.addrs(after)
        if name == "shrink_to":
            exp = A[:ret] if n <= tot else A
        elif name in ("xfront", "xfront_buf", "pipe_to_buf"):
            exp = A[ret:]
        else:
            exp = A[:tot - ret]
        if B != exp:
            return "%s leaves the wrong remaining bytes" % name
        if name in ("xfront_buf", "pipe_to_buf"):
            hb = hexbytes(secs[2])
            if hb[:ret] != [F.rd(a) for a in A[:ret]] or any(x != 0xEE for x in hb[ret:]):
                return "%s copied the wrong bytes" % name
        if name == "xback_buf":
            hb = hexbytes(secs[2])
            if hb[n - ret:] != [F.rd(a) for a in A[tot - ret:]] or any(x != 0xEE for x in hb[:n - ret]):
                return "xback_buf copied the wrong bytes"
        return None
    if name == "shrink_lt":
        F.views[vid] = F.parse_view(secs[1])
        B = F.addrs(F.views[vid])
        return None if B == A[:len(B)] else "shrink_less_than changed content"
    if name in ("xfront_view", "xback_view"):
        ret = int(secs[0]); after = F.parse_view(secs[1]); o = F.parse_view(secs[2]); F.views[vid] = after
        B, O = F.addrs(after), F.addrs(o)
        if ret < 0:   # destination has too few slots: specified error branch; nothing may be lost
            ok = (O + B == A) if name == "xfront_view" else (B + O == A)
            return None if ok else "%s failed and lost bytes" % name
        if ret != min(n, tot):
            return "%s returned %d, flat says %d" % (name, ret, min(n, tot))
        if name == "xfront_view":
            return None if (O == A[:ret] and B == A[ret:]) else "xfront_view wrong split"
        return None if (O == A[tot - ret:] and B == A[:tot - ret]) else "xback_view wrong split"
    if name in ("xfc", "xbc"):
        after = F.parse_view(secs[1]); F.views[vid] = after
        B = F.addrs(after)
        if secs[0] == "null":
            return None if B == A else "null result but the view changed"
        P = F.addrs(F.parse_view(secs[0]))
        if name == "xfc":
            return None if (P == A[:n] and B == A[n:]) else "extract_front_continuous wrong bytes"
        return None if (P == A[tot - n:] and B == A[:tot - n]) else "extract_back_continuous wrong bytes"
    if name in ("oxfc", "oxbc"):
        if out == "skip":
            return None
        after = F.parse_view(secs[1]); F.views[vid] = after
        B = F.addrs(after)
        if secs[0] == "null":
            return None if (tot < n and B == A) else "owning contiguous extract returned null although enough data"
        kind, val = secs[0].split()
        want = A[:n] if name == "oxfc" else A[tot - n:]
        rest = A[n:] if name == "oxfc" else A[:tot - n]
        got = [F.rd(a) for a in F.addrs(F.parse_view(val))] if kind == "direct" else hexbytes(val)
        if got != [F.rd(a) for a in want] or B != rest:
            return "owning contiguous extract returned the wrong bytes"
        return None
    if name == "slice":
        cnt, off, slots = n, int(t[3]), int(t[4])
        if out == "-1":
            return None if slots == 0 else "slice failed with slots available"
        ret = int(secs[0]); O = F.addrs(F.parse_view(secs[1])); o_el = F.parse_view(secs[1])
        full = min(cnt, max(0, tot - off))
        if O != A[off:off + ret] or ret > full:
            return "slice returned the wrong bytes"
        if ret < full and len(o_el) < slots:
            return "slice truncated although slots remained"
        return None
    if name == "memcpy_to_buf":
        ret = int(secs[0]); hb = hexbytes(secs[1])
        if ret != min(n, tot) or hb[:ret] != [F.rd(a) for a in A[:ret]] or any(x != 0xEE for x in hb[ret:]):
            return "memcpy_to(buf) wrong count or bytes"
        return None
    if name == "memcpy_from_buf":
        ret = int(secs[0])
        if ret != min(n, tot):
            return "memcpy_from(buf) returned %d, flat says %d" % (ret, min(n, tot))
        for i, a in enumerate(A[:ret]):
            F.mem[a] = (i * 7 + 3) % 256
        return None if secs[1] == F.hexof(A) else "memcpy_from(buf) wrote the wrong bytes"
    if name in ("memcpy_v", "pipe_v"):
        sid, size = int(t[2]), int(t[3])
        S = F.addrs(F.views[sid])
        ret = int(secs[0])
        want = min(size, tot, len(S))
        if ret != want:
            return "%s returned %d, flat says %d" % (name, ret, want)
        vals = [F.rd(a) for a in S[:ret]]
        for a, x in zip(A[:ret], vals):
            F.mem[a] = x
        if name == "pipe_v":
            F.views[sid] = F.parse_view(secs[1])
            if F.addrs(F.views[sid]) != S[ret:]:
                return "pipe left the wrong remaining source bytes"
            return None if secs[2] == F.hexof(A) else "pipe wrote the wrong bytes"
        return None if secs[1] == F.hexof(A) else "memcpy wrote the wrong bytes"
    return None


def run(rep, tier, seed, replay=None):
    ok, log = C.lean_build()
    if not ok:
        rep.violation("unverified", dict(broken="lake build failed", log=log[-3000:]), no_input=True)
        return
    rep.proof(C.lean_audit("C14"), "cd lean && lake build && lake env lean Audit/C14.lean  (#print axioms per theorem)")
    if tier == "thorough":
        okc, out = C.leanchecker("Photon.Properties.C14")
        rep.cov["leanchecker"] = "ok" if okc else out
        if not okc:
            rep.violation("unverified", dict(broken="leanchecker Photon.Properties.C14", log=out), no_input=True)
    lib, log = C.build_photon()
    if not lib:
        rep.violation("unverified", dict(broken="libphoton does not build from the working tree", log=log[-3000:]), no_input=True)
        return
    # iovector.cpp is compiled into the harness so that its code runs under ASan/UBSan (libphoton.so is not instrumented)
    binary, log = C.compile_harness("c14_iov", ["c14_iov.cpp", os.path.join(C.REPO, "common", "iovector.cpp")],
                                    extra=C.photon_link_flags(lib))
    if not binary:
        rep.violation("unverified", dict(broken="correspondence c14_iov: harness does not compile against the tree",
                                         log=log[-3000:]), no_input=True)
        return
    progs = [json.load(open(replay))["program"]] if replay else gen(tier, seed)
    rep.cov["rule"] = ("programs: fresh exact-size buffers, two non-aliasing views with 0..8 elements (zero-length elements anywhere), "
                       "1..12 (thorough: 30) operations with counts 0..total+2, offsets, destination shapes with 0..9 slots; compared at element "
                       "level (buf:off:len of every resulting element, copied bytes, return values); distinct non-trivial = distinct "
                       "(operation, outcome class, #elements capped, zero-length element present?) tuples hit")
    known = C.known_findings("C14")
    seen_known = {}
    nops = 0
    reported = False
    # run in shards so that a sanitizer abort only loses one shard
    SH = 200
    for s0 in range(0, len(progs), SH):
        shard = progs[s0:s0 + SH]
        ops = [l for p in shard for l in p]
        rc, impl, err = C.run_lines(binary, [], ops, timeout=1200)
        rc2, model, err2 = C.run_driver("iov", ops, timeout=1200)
        nops += len(ops)
        crashed_at = None
        if rc != 0 or len(impl) != len(ops):
            crashed_at = len(impl)
        if rc2 != 0 or len(model) != len(ops):
            rep.violation("unverified", dict(broken="driver iov failed", log=err2), no_input=True)
            return
        # walk programs
        idx = 0
        for p in shard:
            F = Flat()
            for j, op in enumerate(p):
                if crashed_at is not None and idx >= crashed_at:
                    break
                a, b = impl[idx], model[idx]
                e = None
                try:
                    e = oracle_step(F, op, a)
                except Exception as ex:       # unparsable implementation output
                    e = "oracle could not interpret output %r (%r)" % (a[:60], ex)
                t = op.split()
                if t[0] not in ("buf", "new"):
                    before = F.views.get(int(t[1]), [])
                    rep.distinct((t[0], a.split("|")[0].strip()[:6] in ("-1", "null", "0"), min(len(before), 4),
                                  any(l == 0 for (_, _, l) in before)))
                if e and not reported:
                    k = [x for x in known if x["signature"] in e]
                    if k:
                        seen_known[k[0]["id"]] = (k[0], op)
                    else:
                        rep.violation("counterexample", dict(harness="c14_iov", program=p[:j + 1], failing_op=op, observed=a,
                                                             expected=e, model=b))
                        reported = True
                elif a != b and not reported:
                    rep.violation("unverified", dict(broken="correspondence c14_iov vs model iov: outputs differ", program=p[:j + 1],
                                                     failing_op=op, impl=a, model=b,
                                                     note="the flat-reference oracle accepts the implementation's output"),
                                  no_input=True)
                    reported = True
                idx += 1
            if crashed_at is not None and idx >= crashed_at:
                if not reported:
                    crash_prog, crash_j = None, None
                    c = 0
                    for q in shard:
                        if c + len(q) > crashed_at:
                            crash_prog, crash_j = q, crashed_at - c
                            break
                        c += len(q)
                    sig = "sanitizer abort: " + (err.split("\n")[0][:200] if err else "no message")
                    desc = (err[-1800:] if err else "")
                    rep.violation("counterexample", dict(harness="c14_iov", program=crash_prog[:crash_j + 1],
                                                         failing_op=crash_prog[crash_j],
                                                         observed="harness aborted (rc=%s) %s" % (rc, sig), detail=desc))
                    reported = True
                break
        if reported:
            break
    rep.count(nops)
    rep.cov["programs"] = len(progs)
    rep.cov["traces_validated_against_impl"] = len(progs) if not reported else 0
    rep.sample(progs[-1][:12])
    for kid, (k, op) in seen_known.items():
        rep.known_finding("%s (e.g. `%s`)" % (k["description"], op))
