"""C15 — range split. Proof (Lean) + exhaustive/boundary functional correspondence + tiling oracle."""
import json
import os

from lib import common as C

LEVEL = "proof"
U64 = 2 ** 64
GUARD = 10000
DEPS = ["fs/range-split.h", "fs/range-split-vi.h", "common/utility.h"]


def gen(tier, seed):
    ops = []
    # corpus: boundary cases and past findings first
    cp = os.path.join(C.VERIF, "corpus", "C15", "ops.txt")
    if os.path.exists(cp):
        ops += [l.strip() for l in open(cp) if l.strip() and not l.startswith("#")]
    big = tier == "thorough"
    omax, lmax, ivmax = (72, 72, 33) if big else (40, 40, 17)
    # exhaustive small domain: every boundary configuration of init occurs many times
    for iv in range(1, ivmax + 1):
        for o in range(0, omax + 1):
            for l in range(0, lmax + 1):
                ops.append("fixed %d %d %d" % (o, l, iv))
    for k in range(0, 7):
        for o in range(0, omax + 1):
            for l in range(0, lmax + 1):
                ops.append("pow2 %d %d %d" % (o, l, k))
    r = C.rng(seed, "c15")
    # variable interval, small key points
    for _ in range(20000 if big else 4000):
        n = r.randint(1, 6)
        pts = sorted(r.sample(range(1, 60), n))
        kp = [0] + pts + [U64 - 1]
        o = r.randint(0, 70)
        l = r.randint(1, 30)   # empty ranges are excluded for the variable-interval variant (outside C15's statement)
        ops.append("vi %d %d %s" % (o, l, " ".join(map(str, kp))))
    # boundary-biased 64-bit triples (inside and outside the no-wrap domain)
    def b64():
        c = r.random()
        if c < 0.3:
            return r.randint(0, 100)
        if c < 0.6:
            e = r.randint(1, 64)
            return max(0, min(U64 - 1, 2 ** e + r.randint(-3, 3)))
        return r.randint(0, U64 - 1)
    for _ in range(400000 if big else 30000):
        iv = max(1, b64())
        o = b64()
        l = b64() if r.random() < 0.5 else r.randint(0, 3 * iv if iv < 2 ** 40 else 100)
        if r.random() < 0.8:  # keep most inside the domain, and the part count printable
            o %= max(1, U64 - iv - 1)
            l %= max(1, U64 - iv - o)
            if iv < 2 ** 50:
                l = min(l, iv * r.randint(1, 40))
        if r.random() < 0.5:
            k = r.randint(0, 63)
            ops.append("pow2 %d %d %d" % (o, min(l, (2 ** k) * 50), k))
        else:
            ops.append("fixed %d %d %d" % (o, l, iv))
    return ops


def parse(line):
    """harness/driver line -> dict"""
    secs = [s.strip() for s in line.split("|")]
    d = {}
    def plist(toks):
        if toks[0] == "toomany":
            return None
        return [tuple(map(int, t.split(":"))) for t in toks[1:]]
    d["parts"] = plist(secs[0].split()[1:])
    t = secs[1].split()
    for i in range(0, 8, 2):
        d[t[i]] = tuple(map(int, t[i + 1].split(":")))
    a = list(map(int, secs[2].split()[1:]))
    d["abegin"], d["aend"], d["apbegin"], d["apend"], d["brem"], d["erem"] = a
    d["ap"] = plist(secs[3].split()[1:])
    t = secs[4].split()
    d["abo"], d["aeo"] = int(t[1]), int(t[3])
    return d


def oracle(op, line):
    """Implementation-side check of the property itself (independent of the Lean model).
    Returns None if the property holds on this input (or the input is outside its domain)."""
    t = op.split()
    kind, o, l = t[0], int(t[1]), int(t[2])
    if kind == "fixed":
        iv = int(t[3]); base = lambda i: i * iv; blen = lambda i: iv
        if not (0 < iv < U64 and o + l + iv < U64):
            return None
    elif kind == "pow2":
        iv = 2 ** int(t[3]); base = lambda i: i * iv; blen = lambda i: iv
        if not (o + l + iv < U64):
            return None
    else:
        kp = list(map(int, t[3:]))
        if o + l >= U64 - 1:
            return None
        base = lambda i: kp[i]; blen = lambda i: kp[i + 1] - kp[i]
    d = parse(line)
    if kind != "vi" and l > 0 and -(-(o + l) // iv) - o // iv > GUARD:
        return None     # legitimately more parts than the harness prints
    if d["parts"] is None:
        return "all_parts() yields more than %d parts" % GUARD
    ne = [p for p in d["parts"] if p[2] > 0]
    if l == 0:
        if ne:
            return "empty range produced a non-empty part %s" % (ne[0],)
    else:
        if len(ne) != len(d["parts"]) or not ne:
            return "non-empty range produced an empty part or no part"
        pos = o
        for j, (i, off, ln) in enumerate(ne):
            if base(i) + off != pos:
                return "part %d starts at %d, expected %d" % (j, base(i) + off, pos)
            if off + ln > blen(i):
                return "part %d crosses its block" % j
            if j and i != ne[j - 1][0] + 1:
                return "block indices not consecutive at part %d" % j
            pos += ln
        if pos != o + l:
            return "parts end at %d, expected %d" % (pos, o + l)
    # classification consistent with the list
    if d["ap"] is None:
        return "aligned_parts() yields more than %d parts (classification of this range never terminates in practice)" % GUARD
    if d["sn"][2] > 0:
        cls = [d["sn"]]
    else:
        cls = ([d["pre"]] if d["pre"][2] > 0 else []) + d["ap"] + ([d["post"]] if d["post"][2] > 0 else [])
    if cls != ne:
        return "classification %s differs from all_parts %s" % (cls, ne)
    # aligned begin/end enclose with < one interval of slack
    if kind != "vi":
        if not (d["abo"] <= o and o - d["abo"] < iv and o + l <= d["aeo"] and d["aeo"] - (o + l) < iv):
            return "aligned offsets [%d,%d) do not enclose [%d,%d) within one interval" % (d["abo"], d["aeo"], o, o + l)
    return None


def classify(op, line):
    t = op.split()
    d = parse(line)
    n = len(d["parts"]) if d["parts"] is not None else -1
    return (t[0], min(n, 4), d["sn"][2] > 0, d["pre"][2] > 0, d["post"][2] > 0, int(t[2]) == 0,
            d["brem"] == 0, d["erem"] == 0)


def run(rep, tier, seed, replay=None):
    ok, log = C.lean_build()
    if not ok:
        rep.violation("unverified", dict(broken="lake build failed", log=log[-3000:]), no_input=True)
        return
    audit = C.lean_audit("C15")
    rep.proof(audit, "cd lean && lake build && lake env lean Audit/C15.lean  (#print axioms per theorem)")
    if tier == "thorough":
        okc, out = C.leanchecker("Photon.Properties.C15")
        rep.cov["leanchecker"] = "ok" if okc else out
        if not okc:
            rep.violation("unverified", dict(broken="leanchecker Photon.Properties.C15", log=out), no_input=True)
    binary, log = C.compile_harness("c15_rs", ["c15_rs.cpp"], deps=DEPS)
    if not binary:
        rep.violation("unverified", dict(broken="correspondence c15_rs: harness does not compile against the tree",
                                         log=log[-3000:]), no_input=True)
        return
    if replay:
        ops = json.load(open(replay)).get("ops") or [json.load(open(replay))["input"]]
    else:
        ops = gen(tier, seed)
    rc, impl, err = C.run_lines(binary, [], ops, timeout=3000)
    rc2, model, err2 = C.run_driver("rs", ops, timeout=3000)
    rep.count(len(ops))
    rep.cov["rule"] = ("inputs: corpus, then every (offset,length,interval) of a small exhaustive box for range_split and "
                       "range_split_power2, random key-point sets for range_split_vi, boundary-biased 64-bit triples; "
                       "distinct non-trivial = distinct (variant, #parts capped at 4, small_note?, preface?, postface?, "
                       "empty?, begin aligned?, end aligned?) classes hit")
    rep.cov["exhaustive"] = False
    if rc != 0 or len(impl) != len(ops):
        k = len(impl)
        rep.violation("counterexample", dict(harness="c15_rs", input=ops[k] if k < len(ops) else None,
                                             observed="harness aborted (rc=%s): %s" % (rc, err[-1500:])))
        return
    if rc2 != 0 or len(model) != len(ops):
        rep.violation("unverified", dict(broken="driver rs failed", log=err2), no_input=True)
        return
    bad_oracle, bad_diff = [], []
    for op, a, b in zip(ops, impl, model):
        v = oracle(op, a)
        if v:
            bad_oracle.append((op, a, v))
        if a != b:
            bad_diff.append((op, a, b))
        rep.distinct(classify(op, a))
    rep.cov["traces_validated_against_impl"] = len(ops) - len(bad_diff)
    for op in ops[:3] + ops[-3:]:
        rep.sample(op)
    rep.cov["oracle_failures"] = len(bad_oracle)
    rep.cov["model_impl_disagreements"] = len(bad_diff)
    known = C.known_findings("C15")
    reported = 0
    unlisted = []
    for op, a, v in bad_oracle:
        hit = [k for k in known if k["signature"] in v]
        if hit:
            continue
        unlisted.append((op, a, v))
    for k in known:
        hits = [x for x in bad_oracle if k["signature"] in x[2]]
        if hits:
            rep.known_finding("%s (e.g. input `%s`; %d inputs in this run)" % (k["description"], hits[0][0], len(hits)))
    if unlisted:
        op, a, v = min(unlisted, key=lambda x: len(x[0]))
        rep.violation("counterexample", dict(harness="c15_rs", input=op, observed=a, expected=v,
                                             others=len(unlisted) - 1))
        reported += 1
    if bad_diff and not reported:
        op, a, b = min(bad_diff, key=lambda x: len(x[0]))
        rep.violation("unverified", dict(broken="correspondence c15_rs vs model rs: outputs differ", input=op, impl=a,
                                         model=b, disagreements=len(bad_diff),
                                         note="the implementation-side tiling oracle accepts every explored input"),
                      no_input=True)
