"""C16 — file adaptors (aligned, linear, striped). Lean model + theorems; op-sequence differential correspondence of the real
adaptors over in-memory recording files (under ASan/UBSan) with the compiled model; independent flat-file oracle."""
import json
import os

from lib import common as C

LEVEL = "proof"
DEPS = ["fs/aligned-file.cpp", "fs/xfile.cpp", "fs/virtual-file.cpp", "fs/range-split.h", "fs/range-split-vi.h", "common/iovector.cpp"]


def hexs(b):
    return "".join("%02x" % x for x in b) if len(b) else "-"


def unhex(s):
    return bytearray() if s == "-" else bytearray.fromhex(s)


def rnd_bytes(r, n, lo=1, hi=120):
    return bytearray(r.randint(lo, hi) for _ in range(n))


def cuts_for(r, n, A=None):
    """random iovec segmentation of n bytes (zero-length elements included)"""
    if r.random() < 0.2:
        return "-"
    out, left = [], n
    while left > 0 and len(out) < 12:
        if r.random() < 0.2:
            out.append(0)
            continue
        l = r.randint(1, left)
        out.append(l)
        left -= l
    if left:
        out.append(left)
    if r.random() < 0.2:
        out.append(0)
    return ",".join(map(str, out)) if out else "0"


def gen_program(r, big=False):
    kind = r.choice(["aligned", "aligned", "aligned", "linear", "vlinear", "stripe"])
    lines = []
    nops = r.randint(2, 8 if big else 5)
    if kind == "aligned":
        A = 2 ** r.randint(1, 6 if big else 5)
        am = r.choice([0, 0, 1]) if A >= 8 else 0     # AlignedAlloc needs alignment >= sizeof(void*) (posix_memalign)
        size = r.choice([r.randint(1, 5 * A), r.randint(1, 5 * A), A * r.randint(1, 4), A * r.randint(1, 4) + r.choice([1, A - 1])])
        lines.append("new aligned %d %d %s" % (A, am, hexs(rnd_bytes(r, size))))
        cur = size
        for _ in range(nops):
            # offsets and lengths around the block boundaries and the end of file
            off = r.choice([r.randint(0, max(0, cur - 1)), (r.randint(0, cur) // A) * A, max(0, cur - r.randint(1, A)), r.randint(0, max(0, cur - 1))])
            off = min(off, max(0, cur - 1)) if r.random() < 0.93 else cur + r.randint(0, A)     # a few requests at/after EOF
            ln = r.choice([r.randint(0, 4 * A), A * r.randint(0, 3), max(0, cur - off), max(0, cur - off) + r.randint(0, A), A - off % A, r.randint(1, A)])
            op = r.choice(["pread", "pwrite", "preadv", "pwritev"])
            fl = "a" if (am and r.random() < 0.4) else "u"
            if op == "pread":
                lines.append("pread %d %d %s" % (off, ln, fl))
            elif op == "preadv":
                cuts = cuts_for(r, ln)
                if fl == "a":
                    k = max(1, ln // A)
                    cuts = ",".join([str(A)] * k) if ln % A == 0 and ln else "-"
                    fl = "a" if ln % A == 0 and ln else "u"
                lines.append("preadv %d %d %s %s" % (off, ln, cuts, fl))
            else:
                d = rnd_bytes(r, ln, 128, 250)
                if op == "pwrite":
                    lines.append("pwrite %d %s %s" % (off, hexs(d), fl))
                else:
                    cuts = cuts_for(r, ln)
                    if fl == "a":
                        k = max(1, ln // A)
                        cuts = ",".join([str(A)] * k) if ln % A == 0 and ln else "-"
                        fl = "a" if ln % A == 0 and ln else "u"
                    lines.append("pwritev %d %s %s %s" % (off, hexs(d), cuts, fl))
                if ln:
                    cur = max(cur, off + ln)
        return lines
    n = r.randint(1, 5)
    if kind == "linear":
        U = r.choice([r.randint(1, 9), 2 ** r.randint(0, 4), r.randint(1, 20)])
        subs = [rnd_bytes(r, U) for _ in range(n)]
        lines.append("new linear %d %s" % (U, " ".join(hexs(s) for s in subs)))
    elif kind == "vlinear":
        subs = [rnd_bytes(r, r.choice([0, 1, 2, 5, 9, r.randint(1, 12)])) for _ in range(n)]
        if not any(len(s) for s in subs):
            subs[0] = rnd_bytes(r, 3)
        lines.append("new vlinear %s" % " ".join(hexs(s) for s in subs))
    else:
        S = 2 ** r.randint(0, 4)
        rows = r.randint(1, 3)
        subs = [rnd_bytes(r, S * rows) for _ in range(n)]
        lines.append("new stripe %d %s" % (S, " ".join(hexs(s) for s in subs)))
    total = sum(len(s) for s in subs)
    for _ in range(nops):
        off = r.randint(0, max(0, total - 1)) if r.random() < 0.93 else total + r.randint(0, 3)
        ln = r.choice([r.randint(0, total + 3), r.randint(0, 6), max(0, total - off), max(0, total - off) + 1])
        op = r.choice(["pread", "pwrite", "preadv", "pwritev"])
        if op == "pread":
            lines.append("pread %d %d u" % (off, ln))
        elif op == "preadv":
            lines.append("preadv %d %d %s u" % (off, ln, cuts_for(r, ln)))
        elif op == "pwrite":
            lines.append("pwrite %d %s u" % (off, hexs(rnd_bytes(r, ln, 128, 250))))
        else:
            lines.append("pwritev %d %s %s u" % (off, hexs(rnd_bytes(r, ln, 128, 250)), cuts_for(r, ln)))
    return lines


def parse_out(line):
    d = {}
    for t in line.split():
        if "=" in t:
            k, v = t.split("=", 1)
            d[k] = v
    return d


class Ref:
    """the plain reference file the statement compares with"""

    def __init__(self, newline):
        t = newline.split()
        self.kind = t[1]
        if self.kind == "aligned":
            self.A, self.am = int(t[2]), int(t[3])
            self.flat = unhex(t[4])
        elif self.kind == "linear":
            self.U = int(t[2])
            self.subs = [unhex(x) for x in t[3:]]
        elif self.kind == "vlinear":
            self.subs = [unhex(x) for x in t[2:]]
        else:
            self.S = int(t[2])
            self.subs = [unhex(x) for x in t[3:]]
        if self.kind != "aligned":
            self.flat = self.view(self.subs)

    def view(self, subs):
        if self.kind in ("linear", "vlinear"):
            return bytearray(b"".join(bytes(s) for s in subs))
        n, S = len(subs), self.S
        rows = len(subs[0]) // S
        out = bytearray()
        for j in range(n * rows):
            out += subs[j % n][(j // n) * S:(j // n) * S + S]
        return out

    def check(self, op, outline):
        """returns a violation text or None; updates the reference"""
        t = op.split()
        o = parse_out(outline)
        off = int(t[1])
        size = len(self.flat)
        inside = off < size            # requests that start at or after end-of-file are outside the statement
        fixed = self.kind != "aligned"
        r = int(o["r"])
        files = [unhex(x) for x in o["files"].split("|")]
        if o.get("mem") != "ok":
            return "the adaptor handed a buffer that is not aligned to %d to the underlying file" % self.A
        if self.kind == "aligned" and o["log"] != "-":
            for e in o["log"].split(";"):
                if e and e[0] in "rw":
                    _, _, eo, el = e.split(":")
                    if int(eo) % self.A or int(el) % self.A:
                        return "underlay request %s is not aligned to %d" % (e, self.A)
        if t[0] in ("pread", "preadv"):
            ln = int(t[2])
            if inside:
                exp = self.flat[off:off + ln]
                if r != len(exp):
                    return "%s returned %d, the plain file returns %d" % (t[0], r, len(exp))
                if unhex(o["data"]) != exp:
                    return "%s returned data that differs from the plain file's" % t[0]
            cur = files[0] if self.kind == "aligned" else self.view(files)
            if cur != self.flat:
                return "a read changed the file content"
            return None
        d = unhex(t[2])
        if inside:
            if fixed:
                d = d[:size - off]
            if r != len(d):
                return "%s returned %d, the plain file returns %d" % (t[0], r, len(d))
            if len(d):
                if off + len(d) > len(self.flat):
                    self.flat += bytearray(off + len(d) - len(self.flat))
                self.flat[off:off + len(d)] = d
            cur = files[0] if self.kind == "aligned" else self.view(files)
            if cur != self.flat:
                return "after %s the content/size differs from the plain file (size %d vs %d)" % (t[0], len(cur), len(self.flat))
        else:
            # outside the statement: just resynchronise the reference with whatever the adaptor did
            self.flat = files[0] if self.kind == "aligned" else self.view(files)
        return None


def run(rep, tier, seed, replay=None):
    ok, log = C.lean_build()
    if not ok:
        rep.violation("unverified", dict(broken="lake build failed", log=log[-3000:]), no_input=True)
        return
    rep.proof(C.lean_audit("C16"), "cd lean && lake build && lake env lean Audit/C16.lean  (#print axioms per theorem)")
    if tier == "thorough":
        okc, out = C.leanchecker("Photon.Properties.C16")
        rep.cov["leanchecker"] = "ok" if okc else out
        if not okc:
            rep.violation("unverified", dict(broken="leanchecker Photon.Properties.C16", log=out), no_input=True)
    srcs = ["c16_files.cpp"] + [os.path.join(C.REPO, p) for p in ("fs/aligned-file.cpp", "fs/xfile.cpp", "fs/virtual-file.cpp", "common/iovector.cpp")]
    lib, blog = C.build_photon()
    if not lib:
        rep.violation("unverified", dict(broken="libphoton does not build from the working tree", log=blog[-3000:]), no_input=True)
        return
    binary, log = C.compile_harness("c16_files", srcs, extra=C.photon_link_flags(lib))
    if not binary:
        rep.violation("unverified", dict(broken="correspondence c16_files: harness does not compile against the tree", log=log[-3000:]), no_input=True)
        return
    if replay:
        progs = [json.load(open(replay))["program"]]
    else:
        progs = []
        cp = os.path.join(C.VERIF, "corpus", "C16")
        if os.path.isdir(cp):
            for f in sorted(os.listdir(cp)):
                progs.append([l.rstrip("\n") for l in open(os.path.join(cp, f)) if l.strip() and not l.startswith("#")])
        r = C.rng(seed, "c16")
        for _ in range(150000 if tier == "thorough" else 20000):
            progs.append(gen_program(r, tier == "thorough"))
    lines = [l for p in progs for l in p]
    rc, impl, err = C.run_lines(binary, [], lines, timeout=3000)
    rc2, model, err2 = C.run_driver("file", lines, timeout=3000)
    rep.count(len(lines))
    rep.cov["programs"] = len(progs)
    rep.cov["rule"] = ("op sequences (2..8 ops) on the real AlignedFileAdaptor (alignment 2..64, with and without align_memory, aligned and "
                       "misaligned caller buffers), FixedSizeLinearFile (power-of-2 and other unit sizes), VariableSizeLinearFile (incl. empty "
                       "sub-files) and StripeFile over 1..5 in-memory recording sub-files: pread/pwrite/preadv/pwritev with offsets and lengths "
                       "around block, stripe, sub-file and end-of-file boundaries and random iovec segmentations incl. zero-length elements; "
                       "compared with the compiled Lean model: return value, data, content of every sub-file, and the exact underlay request "
                       "log; evaluations = ops; distinct non-trivial = (adaptor, op, aligned?, crosses EOF?, #requests capped) classes")
    if rc2 != 0 or len(model) != len(lines):
        rep.violation("unverified", dict(broken="driver file failed", log=err2[-1500:]), no_input=True)
        return
    # walk programs
    pos, reported, okc, ndiff, nviol = 0, False, 0, 0, 0
    first_cex, first_diff = None, None
    known = C.known_findings("C16")
    seen = {}
    for p in progs:
        ref = None
        good = True
        for j, op in enumerate(p):
            if pos >= len(impl):
                if not reported:
                    rep.violation("counterexample", dict(harness="c16_files", program=p[:j + 1], failing_op=op,
                                                         observed="harness aborted (rc=%s): %s" % (rc, err[-1500:])))
                    reported = True
                pos = len(lines)
                good = False
                break
            a, b = impl[pos], model[pos]
            pos += 1
            if op.startswith("new"):
                ref = Ref(op)
                continue
            t = op.split()
            o = parse_out(a)
            rep.distinct((ref.kind, t[0], o.get("log", "-").count(";") if o.get("log") != "-" else 0, o.get("r", "?") == "-1"))
            v = ref.check(op, a) if good else None
            if v:
                nviol += 1
                kf = [x for x in known if x["signature"] in v]
                if kf:
                    seen.setdefault(kf[0]["id"], (kf[0], p[:j + 1], v))
                elif first_cex is None:
                    first_cex = dict(harness="c16_files", program=p[:j + 1], failing_op=op, observed=a, expected=v)
                good = False
            if a != b and good:
                ndiff += 1
                if first_diff is None:
                    first_diff = dict(broken="correspondence c16_files vs model file: outputs differ", program=p[:j + 1],
                                      failing_op=op, impl=a, model=b, note="the flat-file oracle accepts every explored run")
                good = False
        if good:
            okc += 1
    if not reported:
        # a failing input (oracle) is preferred over a bare model/code disagreement
        if first_cex is not None:
            rep.violation("counterexample", first_cex)
        elif first_diff is not None:
            rep.violation("unverified", first_diff, no_input=True)
    rep.cov["traces_validated_against_impl"] = okc
    rep.cov["oracle_failures"] = nviol
    rep.cov["model_impl_disagreements"] = ndiff
    rep.sample(progs[-1])
    for kid, (kf, p, v) in seen.items():
        rep.known_finding("%s (e.g. program `%s`: %s)" % (kf["description"], " | ".join(p)[:200], v[:140]))
