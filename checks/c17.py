"""C17 — cache layer. Lean: RangeModule as a set of byte positions, the abstract cache store (every read in every history
of reads and evictions returns the source's bytes), an acceptor for real runs; correspondence: op sequences on the real
RangeModule, and the real full-file cached file system over local files on a virtual clock (H-sim) with concurrent
readers, whole-file evictions and injected source faults."""
import json
import os

from lib import common as C
from checks import hsim

LEVEL = "proof"


def gen_rm(r, n):
    ops = []
    for _ in range(n):
        c = r.random()
        l = r.randint(0, 40)
        rr = max(0, l + r.randint(-2, 15))
        if c < 0.4:
            ops.append("add %d %d" % (l, rr))
        elif c < 0.65:
            ops.append("remove %d %d" % (l, rr))
        elif c < 0.7:
            ops.append("removefrom %d" % l)
        elif c < 0.72:
            ops.append("clear")
        else:
            ops.append("query %d %d" % (l, rr))
    return ops


def cuts(r, n):
    if n == 0 or r.random() < 0.4:
        return "-"
    out, left = [], n
    while left > 0 and len(out) < 6:
        l = r.randint(1, left)
        out.append(l)
        left -= l
    if left:
        out.append(left)
    return ",".join(map(str, out))


def gen_prog(r, big=False):
    size = r.choice([4096 * r.randint(1, 12), 4096 * r.randint(1, 12) + r.randint(1, 4095), r.randint(1, 4095), 100000])
    refill = 4096 << r.randint(0, 3)
    # media on tmpfs (no fiemap: the store keeps / rebuilds its own range map) or under the scratch directory (fiemap where the fs has it)
    lines = ["cache %d %d %s" % (size, refill, r.choice([os.path.join(C.SCRATCH, "c17"), "/dev/shm/photon-verif-c17"]))]
    for ti in range(1, r.randint(2, 5 if big else 4) + 1):
        ops = []
        for _ in range(r.randint(1, 7 if big else 5)):
            c = r.random()
            if c < 0.7:
                off = r.choice([r.randint(0, size + 50), (r.randint(0, size) // 4096) * 4096, max(0, size - r.randint(0, 5000))])
                ln = r.choice([r.randint(1, 20000), 4096, refill, r.randint(1, 100), size])
                ops.append("read %d %d %s" % (off, ln, cuts(r, ln)))
            elif c < 0.78:
                ops.append("evict")
            elif c < 0.83:
                ops.append("reopen")
            elif c < 0.9:
                ops.append("yield")
            else:
                ops.append("sleep %d" % r.choice([10, 1000, 1500000]))
        lines.append("thread T%d %s" % (ti, " ; ".join(ops)))
    if r.random() < 0.35:
        # key 0 = the first source read that reaches end-of-file (a short count there is still a short read: seeded C17-m4)
        lines.append("srcfail %d %s" % (r.choice([0, 0, r.randint(1, 6)]), r.choice(["short", "short", "fail"])))
    return lines


def run(rep, tier, seed, replay=None):
    ok, log = C.lean_build()
    if not ok:
        rep.violation("unverified", dict(broken="lake build failed", log=log[-3000:]), no_input=True)
        return
    rep.proof(C.lean_audit("C17"), "cd lean && lake build && lake env lean Audit/C17.lean  (#print axioms per theorem)")
    if tier == "thorough":
        okc, out = C.leanchecker("Photon.Properties.C17")
        rep.cov["leanchecker"] = "ok" if okc else out
        if not okc:
            rep.violation("unverified", dict(broken="leanchecker Photon.Properties.C17", log=out), no_input=True)
    r = C.rng(seed, "c17")
    reported = False
    nev = 0
    # ---- A. RangeModule
    binary, log = C.compile_harness("c17_rm", ["c17_rm.cpp"], flags=C.HFUN_FLAGS + ["-I" + C.REPO])
    if not binary:
        rep.violation("unverified", dict(broken="correspondence c17_rm: harness does not compile against the tree", log=log[-3000:]), no_input=True)
        return
    if not replay:
        ops = gen_rm(r, 200000 if tier == "thorough" else 30000)
        rc, impl, err = C.run_lines(binary, [], ops, timeout=1800)
        rc2, model, err2 = C.run_driver("rangemodule", ops, timeout=1800)
        nev += len(ops)
        if rc2 != 0 or len(model) != len(ops):
            rep.violation("unverified", dict(broken="driver rangemodule failed", log=err2[-1500:]), no_input=True)
            return
        if rc != 0 or len(impl) != len(ops):
            rep.violation("counterexample", dict(harness="c17_rm", ops=ops[max(0, len(impl) - 30):len(impl) + 1], observed="harness aborted: " + err[-1500:]))
            reported = True
        else:
            bad = next((i for i, (a, b) in enumerate(zip(impl, model)) if a != b), None)
            rep.cov["rangemodule_ops"] = len(ops)
            if bad is not None:
                # the model is proven to be a set of byte positions: a disagreement is a wrong filled-range map
                lo = max(0, bad - 40)
                rep.violation("counterexample", dict(harness="c17_rm", ops=ops[lo:bad + 1], failing_op=ops[bad], observed=impl[bad],
                                                     expected="%s (Lean model, proven: add = union, remove = difference, query sound)" % model[bad],
                                                     note="the replay starts from the state `%s`" % (impl[lo - 1] if lo else "empty")))
                reported = True
            for o, a in zip(ops, impl):
                rep.distinct(("rm", o.split()[0], a.split()[0] == "q=0:0", min(a.count(":") - 1, 4)))
    # ---- B. the real cached file system
    cb = hsim.build(rep, "hsim_cache")
    if not cb:
        return
    if replay:
        progs = [json.load(open(replay))["program"]]
    else:
        progs = []
        cp = os.path.join(C.VERIF, "corpus", "C17")
        if os.path.isdir(cp):
            for f in sorted(os.listdir(cp)):
                progs.append([l.rstrip("\n") for l in open(os.path.join(cp, f)) if l.strip() and not l.startswith("#")])
        for _ in range(2500 if tier == "thorough" else 300):
            progs.append(gen_prog(r, tier == "thorough"))
    try:
        results = hsim.run_programs(cb, progs, model="cachelog", timeout=3000)
    except RuntimeError as ex:
        rep.violation("unverified", dict(broken="H-sim run failed: %s" % ex), no_input=True)
        return
    known = C.known_findings("C17")
    okc, seen = 0, {}
    for p, res in zip(progs, results):
        nev += len(res.trace)
        viol = []
        if res.result.startswith("result hung") or res.result.startswith("result crashed") or res.result.startswith("result stuck"):
            viol.append("the cached file system crashed or hung: " + res.result)
        for l in res.trace:
            w = l.split()
            if w[0] == "ret" and "BAD@" in l:
                viol.append("a cached read returned a byte that differs from the source's (%s)" % w[4])
            if w[0] == "ret":
                rep.distinct(("read", w[3].split("=")[1].startswith("-"), w[4].split("=")[1][:2]))
            elif w[0] == "src":
                rep.distinct(("src", "injected" in l))
        if res.reject:
            i, v = res.reject
            viol.append("Lean acceptor rejected `%s`: %s" % (res.trace[i], v[len("reject "):]))
        unlisted = []
        for v in viol:
            kf = [x for x in known if x["signature"] in v]
            if kf:
                seen.setdefault(kf[0]["id"], (kf[0], p, v))
            else:
                unlisted.append(v)
        if not viol:
            okc += 1
        if unlisted and not reported:
            rep.violation("counterexample", dict(harness="hsim_cache", program=p, expected=unlisted[0], trace=res.trace[-40:]))
            reported = True
    import shutil
    shutil.rmtree("/dev/shm/photon-verif-c17", ignore_errors=True)
    rep.count(nev)
    rep.cov["programs"] = len(progs)
    rep.cov["traces_validated_against_impl"] = okc
    rep.cov["rule"] = ("A: random add/remove/removeFrom/clear/query sequences on the real RangeModule compared (interval list and query answer) with the "
                       "Lean model; B: the real full-file cached file system over a local-fs source file (page-aligned and unaligned sizes, 1 byte .. "
                       "100000) and media directory, refill unit 4..32 KB, 2..5 concurrent reader threads on one vCPU (virtual clock) issuing vectored "
                       "reads at offsets around pages / refill units / end of file and past it, whole-file evictions in between and while reads "
                       "are in flight, sleeps across the pool's timer, injected short/failed source reads; every returned byte compared with the "
                       "source function in the harness; calls/returns/source reads validated by the Lean acceptor")
    rep.sample(progs[-1] if progs else [])
    for kid, (kf, p, v) in seen.items():
        rep.known_finding("%s (e.g. program `%s`: %s)" % (kf["description"], " | ".join(p)[:200], v[:140]))
