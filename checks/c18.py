"""C18 — RangeLock. Proof (Lean) + op-sequence correspondence on the real RangeLock with photon threads + disjointness/wake oracle."""
import json
import os
import subprocess

from lib import common as C

LEVEL = "proof"
U64 = 2 ** 64
FLAGS = ["-std=c++17", "-O1", "-g", "-DNDEBUG", "-I" + os.path.join(C.REPO, "include"), "-I" + os.path.join(C.VERIF, "harness")]


class ModelProc:
    """the Lean model as the generator's state tracker (which handles are alive, who is parked)"""

    def __init__(self):
        self.p = subprocess.Popen([C.DRIVER, "rangelock", "-i"], stdin=subprocess.PIPE, stdout=subprocess.PIPE, text=True)

    def ask(self, line):
        self.p.stdin.write(line + "\n")
        self.p.stdin.flush()
        return self.p.stdout.readline().rstrip("\n")

    def close(self):
        try:
            self.p.stdin.close()
            self.p.wait(timeout=5)
        except Exception:
            self.p.kill()


def parse(line):
    secs = [s.strip() for s in line.split("|")]
    res = secs[0]
    woken = [int(x) for x in secs[1].split()[1:]] if len(secs) > 1 else []
    idx = [tuple(map(int, e.split(":"))) for e in secs[2].split()[1:]] if len(secs) > 2 else []
    return res, woken, idx


def exact(off, ln):
    return off, min(off + ln, U64)


def sat_end(off, ln):
    return min(off + ln, U64 - 1)


def gen_program(r, M, big):
    """generate one program interactively against the Lean model; returns op lines"""
    ops = ["reset"]
    M.ask("reset")
    base = r.choice([0, 0, 0, U64 - 10, U64 - 6, 2 ** 63 - 4])
    parked = set()
    alive = []
    nthreads = r.randint(2, 6)
    for _ in range(r.randint(3, 40 if big else 16)):
        c = r.random()
        free = [t for t in range(1, nthreads + 1) if t not in parked]
        if c < 0.5 and free:
            t = r.choice(free)
            off = base + r.randint(0, 8)
            ln = r.choice([0, 1, 1, 2, 3, 4, 9, U64 - 1, 2 ** 63]) if r.random() < 0.8 else r.randint(0, 9)
            if off >= U64:
                off = U64 - 1
            # never hold two empty ranges at the same point: their relative order in std::set is an
            # artefact of libstdc++'s hinted insertion (the comparator is not irreflexive for them)
            e = sat_end(off, ln)
            if e == off and any(o == off and sat_end(o, l) == o for (_, o, l) in alive):
                continue
            op = "%s %d %d %d" % (r.choice(["lock", "lock", "trylock"]), t, off, ln)
        elif c < 0.7 and alive:
            op = "unlock %d" % r.choice(alive)[0]
        elif c < 0.8:
            off = base + r.randint(0, 6)
            op = "unlockr %d %d" % (min(off, U64 - 1), r.choice([1, 3, 9, 20, U64 - 1]))
        elif alive:
            h = r.choice(alive)
            off = base + r.randint(0, 8)
            ln = r.choice([0, 1, 2, 3, 5, 9, U64 - 1])
            off = min(off, U64 - 1)
            e = sat_end(off, ln)
            if e == off and any(o == off and sat_end(o, l) == o and i != h[0] for (i, o, l) in alive):
                continue
            op = "adjust %d %d %d" % (h[0], off, ln)
        else:
            continue
        out = M.ask(op)
        res, woken, idx = parse(out)
        ops.append(op)
        alive = idx
        if res.startswith("parked"):
            parked.add(int(op.split()[1]))
        for t in woken:
            parked.discard(t)
    return ops


def oracle(prog, outs):
    """independent check of the property on the implementation's outputs for one program"""
    held = {}        # id -> (off,len)
    parked = {}      # tid -> (off,len, expected id it waits on)
    for op, out in zip(prog, outs):
        if op == "reset":
            held, parked = {}, {}
            continue
        if out.startswith("bad-op"):
            return op, "harness refused the operation: " + out
        res, woken, idx = parse(out)
        t = op.split()
        new_held = {i: (o, l) for (i, o, l) in idx}
        # 1. held ranges pairwise disjoint (exact denotation of [off, off+len) within the 64-bit space)
        items = sorted(new_held.items(), key=lambda kv: kv[1])
        for a in range(len(items)):
            for b in range(a + 1, len(items)):
                (ia, (oa, la)), (ib, (ob, lb)) = items[a], items[b]
                sa, ea = exact(oa, la)
                sb, eb = exact(ob, lb)
                lo, hi = max(sa, sb), min(ea, eb)
                if lo < hi:
                    if lo == U64 - 1:
                        return op, "held ranges overlap on the last byte 2^64-1"
                    return op, "held ranges %s and %s overlap" % ((oa, la), (ob, lb))
        # 2. erased elements wake exactly their waiters
        erased = set(held) - set(new_held)
        for tid, (o, l, wid) in list(parked.items()):
            if wid in erased and tid not in woken:
                return op, "thread %d waited on range id %d which was unlocked, but it was not woken" % (tid, wid)
            if tid in woken:
                del parked[tid]
        # 3. a parked request must really conflict with a holder
        if t[0] in ("lock", "trylock") and res.startswith("parked"):
            o, l = int(t[2]), int(t[3])
            s, e = exact(o, l)
            cands = [(oo, i) for i, (oo, ll) in new_held.items() if oo < max(e, s + 0) and exact(oo, ll)[1] > s and ll > 0]
            if not cands:
                zl = [(oo, i) for i, (oo, ll) in new_held.items() if ll == 0 and s < oo < e]
                if zl:
                    return op, "request (%d,%d) was blocked only by a zero-length held range at %d" % (o, l, zl[0][0])
                return op, "request (%d,%d) was blocked although no held range conflicts with it" % (o, l)
            # the element actually waited on is the first in set order among everything lower_bound can return:
            # real overlaps and zero-length elements strictly inside the request (see F12)
            allc = [(oo, 1, i) for (oo, i) in cands] + [(oo, 0, i) for i, (oo, ll) in new_held.items() if ll == 0 and s < oo < e]
            parked[int(t[1])] = (o, l, min(allc)[2])
        held = new_held
    return None


def run(rep, tier, seed, replay=None):
    ok, log = C.lean_build()
    if not ok:
        rep.violation("unverified", dict(broken="lake build failed", log=log[-3000:]), no_input=True)
        return
    rep.proof(C.lean_audit("C18"), "cd lean && lake build && lake env lean Audit/C18.lean  (#print axioms per theorem)")
    if tier == "thorough":
        okc, out = C.leanchecker("Photon.Properties.C18")
        rep.cov["leanchecker"] = "ok" if okc else out
        if not okc:
            rep.violation("unverified", dict(broken="leanchecker Photon.Properties.C18", log=out), no_input=True)
    lib, log = C.build_photon()
    if not lib:
        rep.violation("unverified", dict(broken="libphoton does not build from the working tree", log=log[-3000:]), no_input=True)
        return
    binary, log = C.compile_harness("c18_rangelock", ["c18_rangelock.cpp"], extra=C.photon_link_flags(lib), flags=FLAGS)
    if not binary:
        rep.violation("unverified", dict(broken="correspondence c18_rangelock: harness does not compile against the tree",
                                         log=log[-3000:]), no_input=True)
        return
    progs = []
    if replay:
        progs = [json.load(open(replay))["program"]]
    else:
        cp = os.path.join(C.VERIF, "corpus", "C18")
        if os.path.isdir(cp):
            for f in sorted(os.listdir(cp)):
                progs.append([l.strip() for l in open(os.path.join(cp, f)) if l.strip() and not l.startswith("#")])
        r = C.rng(seed, "c18")
        M = ModelProc()
        try:
            for _ in range(6000 if tier == "thorough" else 1200):
                progs.append(gen_program(r, M, tier == "thorough"))
        finally:
            M.close()
    ops = [l for p in progs for l in p]
    rc, impl, err = C.run_lines(binary, [], ops, timeout=3000)
    rc2, model, err2 = C.run_driver("rangelock", ops, timeout=3000)
    rep.count(len(ops))
    rep.cov["programs"] = len(progs)
    rep.cov["rule"] = ("programs of lock / try-lock-and-wait / unlock(handle) / unlock(range) / adjust by 2..6 logical photon threads over a "
                       "9-point offset space translated to 0, 2^63 and the top of the 64-bit space, lengths 0..9 and saturating; "
                       "distinct non-trivial = distinct (operation, outcome, #held capped, #parked capped, near-top?) tuples")
    if rc != 0 or len(impl) != len(ops):
        k = len(impl)
        rep.violation("counterexample", dict(harness="c18_rangelock", failing_op=ops[k] if k < len(ops) else None,
                                             observed="harness aborted or hung (rc=%s): %s" % (rc, err[-1500:])))
        return
    if rc2 != 0 or len(model) != len(ops):
        rep.violation("unverified", dict(broken="driver rangelock failed", log=err2), no_input=True)
        return
    known = C.known_findings("C18")
    i = 0
    reported = False
    seen_known = {}
    ok_traces = 0
    for p in progs:
        a, b = impl[i:i + len(p)], model[i:i + len(p)]
        i += len(p)
        v = oracle(p, a)
        nparked = 0
        for op, out in zip(p, a):
            if op != "reset" and "|" in out:
                res, woken, idx = parse(out)
                nparked += res.startswith("parked")
                rep.distinct((op.split()[0], res.split()[0], min(len(idx), 3), min(nparked, 2), any(o > 2 ** 63 for (_, o, _) in idx)))
        if v:
            k = [x for x in known if x["signature"] in v[1]]
            if k:
                seen_known[k[0]["id"]] = (k[0], v[0])
                continue
            if not reported:
                j = p.index(v[0]) if v[0] in p else len(p) - 1
                rep.violation("counterexample", dict(harness="c18_rangelock", program=p[:j + 1], failing_op=v[0], expected=v[1],
                                                     observed=a[:j + 1][-3:]))
                reported = True
        elif a != b:
            if not reported:
                j = C.first_diff(a, b)
                rep.violation("unverified", dict(broken="correspondence c18_rangelock vs model rangelock: outputs differ",
                                                 program=p[:j + 1], impl=a[j], model=b[j],
                                                 note="the disjointness / wake-up oracle accepts the implementation's outputs"), no_input=True)
                reported = True
        else:
            ok_traces += 1
    rep.cov["traces_validated_against_impl"] = ok_traces
    rep.sample(progs[-1][:10])
    for kid, (k, op) in seen_known.items():
        rep.known_finding("%s (e.g. at `%s`)" % (k["description"], op))
