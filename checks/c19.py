"""C19 — ObjectCache. Lean specification automaton + theorems; real ObjectCache on a virtual clock (H-sim)."""
import json
import os

from lib import common as C
from checks import hsim

LEVEL = "proof"


def gen_program(r, big=False):
    lifespan = r.choice([200, 1000, 1000, 5000])
    lines = ["cache %d %d" % (lifespan, r.choice([50, 100, lifespan // 4 or 1]))]
    n = r.randint(2, 6 if big else 4)
    for i in range(1, n + 1):
        ops = []
        for _ in range(r.randint(1, 8 if big else 5)):
            k = r.choice([1, 1, 1, 2])
            c = r.random()
            if c < 0.4:
                ops.append("acquire %d %s %d" % (k, r.choice(["ok", "ok", "ok", "fail", "slow50", "slow300", "slowfail50", "slowfail300"]),
                                                 r.choice([0, 0, 0, 50, 300, 1000, 10 ** 9])))
            elif c < 0.7:
                ops.append("release %d %d" % (k, 1 if r.random() < 0.25 else 0))
            elif c < 0.9:
                ops.append("sleep %d" % r.choice([10, 100, lifespan - 1, lifespan, lifespan + 1, 2 * lifespan]))
            else:
                ops.append("yield")
        lines.append("thread T%d %s" % (i, " ; ".join(ops)))
    return lines


def oracle(prog, trace):
    """independent: live reference count at every destructor call; shared object; constructor exclusion"""
    out = []
    refs, obj_of, constructing = {}, {}, set()   # key -> count ; key -> live object ; keys under construction
    call = {}
    recyclers = {}
    ran, last_fail = {}, {}
    for l in trace:
        w = l.split()
        if w[0] == "call":
            call[w[1]] = w
            ran[w[1]] = False
        elif w[0] == "ctor_begin":
            ran[w[2]] = True
            k = int(w[1])
            if k in constructing:
                out.append("constructor for key %d started while another one is running" % k)
            constructing.add(k)
        elif w[0] == "ctor_end":
            k = int(w[1]); constructing.discard(k)
            if int(w[2]) < 0:
                last_fail[k] = int(w[3][1:])
            if int(w[2]) >= 0:
                if k in obj_of:
                    out.append("second live object constructed for key %d" % k)
                obj_of[k] = int(w[2])
        elif w[0] == "ret" and w[2] == "acquire":
            c = call[w[1]]; k = int(c[3]); o = int(w[3])
            if o < 0 and not ran.get(w[1]):
                cd, t1 = int(c[5]), int(w[4][1:])
                if k not in last_fail or t1 >= last_fail[k] + cd:
                    out.append("acquire(%d, cooldown %d) returned null without trying the constructor although no failure lies within the cooldown" % (k, cd))
            if o >= 0:
                if obj_of.get(k) != o:
                    out.append("acquire(%d) returned object %d but the key's live object is %s" % (k, o, obj_of.get(k)))
                refs[k] = refs.get(k, 0) + 1
        elif w[0] == "call" and False:
            pass
        elif w[0] == "dtor":
            k, o = int(w[1]), int(w[2])
            if refs.get(k, 0) > 0:
                out.append("object %d of key %d destroyed while %d reference(s) are held" % (o, k, refs[k]))
            if obj_of.get(k) == o:
                del obj_of[k]
        if w[0] == "call" and w[2] == "release":
            k = int(w[3])
            refs[k] = max(0, refs.get(k, 0) - 1)
            # a second recycling release while one is pending is demoted to a plain release by the cache
            if w[4] == "1" and k in recyclers:
                call[w[1]] = w[:4] + ["0"] + w[5:]
            elif w[4] == "1":
                recyclers[k] = w[1]
        if w[0] == "ret" and w[2] == "release":
            c = call[w[1]]
            if recyclers.get(int(c[3])) == w[1]:
                del recyclers[int(c[3])]
            if c[4] == "1" and refs.get(int(c[3]), 0) > 0:
                out.append("recycling release(%s) returned while %d other holder(s) still have a reference" % (c[3], refs[int(c[3])]))
    return out


def run(rep, tier, seed, replay=None):
    ok, log = C.lean_build()
    if not ok:
        rep.violation("unverified", dict(broken="lake build failed", log=log[-3000:]), no_input=True)
        return
    rep.proof(C.lean_audit("C19"), "cd lean && lake build && lake env lean Audit/C19.lean  (#print axioms per theorem)")
    if tier == "thorough":
        okc, out = C.leanchecker("Photon.Properties.C19")
        rep.cov["leanchecker"] = "ok" if okc else out
        if not okc:
            rep.violation("unverified", dict(broken="leanchecker Photon.Properties.C19", log=out), no_input=True)
    if replay and json.load(open(replay)).get("harness") == "mv_obj":
        run_mv(rep, tier, seed, [json.load(open(replay))["program"]] * 5)
        return
    binary = hsim.build(rep, "hsim_objcache")
    if not binary:
        return
    if replay:
        progs = [json.load(open(replay))["program"]]
    else:
        progs = []
        cp = os.path.join(C.VERIF, "corpus", "C19")
        if os.path.isdir(cp):
            for f in sorted(os.listdir(cp)):
                progs.append([l.rstrip("\n") for l in open(os.path.join(cp, f)) if l.strip() and not l.startswith("#")])
        r = C.rng(seed, "c19")
        for _ in range(8000 if tier == "thorough" else 1200):
            progs.append(gen_program(r, tier == "thorough"))
    try:
        results = hsim.run_programs(binary, progs, model="objcache")
    except RuntimeError as ex:
        rep.violation("unverified", dict(broken="H-sim run failed: %s" % ex), no_input=True)
        return
    known = C.known_findings("C19")
    nev, okc, reported, seen = 0, 0, False, {}
    for p, res in zip(progs, results):
        nev += len(res.trace)
        live_refs = 0
        for l in res.trace:
            w = l.split()
            if w[0] in ("dtor", "ctor_end"):
                rep.distinct((w[0], int(w[2]) >= 0, live_refs > 0))
            elif w[0] == "ret" and w[2] == "acquire":
                live_refs += int(w[3]) >= 0
                rep.distinct(("acquire", int(w[3]) >= 0, min(live_refs, 3)))
            elif w[0] == "call" and w[2] == "release":
                live_refs = max(0, live_refs - 1)
                rep.distinct(("release", w[4], min(live_refs, 3)))
        viol = oracle(p, res.trace)
        # `result stuck` is not a violation here: a holder that re-acquires a key while another thread's recycling release
        # waits for it is a deadlock of the program, by the cache's documented semantics
        if res.result.startswith("result crashed") or res.result.startswith("result hung"):
            viol.append("the runtime crashed or hung: " + res.result)
        rej = res.reject[1] if res.reject else None
        sigs = viol + ([rej] if rej else [])
        unlisted = [v for v in sigs if not any(x["signature"] in v for x in known)]
        for v in sigs:
            for x in known:
                if x["signature"] in v:
                    seen.setdefault(x["id"], (x, p, v))
        if not sigs:
            okc += 1
        if unlisted and not reported:
            if any(v in unlisted for v in viol):
                rep.violation("counterexample", dict(harness="hsim_objcache", program=p, expected=[v for v in unlisted if v in viol][0],
                                                     model_verdict=rej, trace=res.trace[-30:]))
            elif res.trace[res.reject[0]].split()[0] in ("ret", "call", "dtor", "ctor_begin", "ctor_end", "q"):
                # the automaton's events are the externally visible behaviour of the cache (API calls/returns, constructor and
                # destructor invocations): the rejected history is itself the failing input
                i = res.reject[0]
                rep.violation("counterexample", dict(harness="hsim_objcache", program=p,
                                                     expected="Lean automaton rejected `%s`: %s" % (res.trace[i], rej),
                                                     trace=res.trace[max(0, i - 25):i + 1]))
            else:
                i = res.reject[0]
                rep.violation("unverified", dict(broken="correspondence hsim_objcache vs Lean automaton `objcache`: history rejected",
                                                 program=p, event=res.trace[i], reason=rej, trace=res.trace[max(0, i - 25):i + 1],
                                                 note="the reference-count oracle accepts this run"), no_input=True)
            reported = True
    rep.count(nev)
    rep.cov["events"] = nev
    rep.cov["programs"] = len(progs)
    rep.cov["traces_validated_against_impl"] = okc
    rep.cov["rule"] = ("programs of 2..6 photon threads on one ObjectCache<int,Obj*> (lifespan 200..5000 us, timer-driven expiry on the virtual "
                       "clock) doing acquire with successful / failing / slow constructors, plain and recycling release, sleeps around the "
                       "lifespan boundary; every call/return, constructor begin/end and destructor call must be accepted by the Lean automaton")
    rep.sample(progs[-1])
    for kid, (k, p, v) in seen.items():
        rep.known_finding("%s (e.g. program `%s`: %s)" % (k["description"], " | ".join(p)[:200], v[:140]))
    if not replay:
        run_mv(rep, tier, seed, None)


def run_mv(rep, tier, seed, progs):
    """B. the cache used from several vCPUs (real races), stamped log validated by the Lean acceptor `objlog`"""
    import concurrent.futures as cf
    binary = hsim.build(rep, "mv_obj")
    if not binary:
        return
    if progs is None:
        r = C.rng(seed, "c19mv")
        big = tier == "thorough"
        progs = []
        cp = os.path.join(C.VERIF, "corpus", "C19mv")
        if os.path.isdir(cp):
            for f in sorted(os.listdir(cp)):
                progs.append([l.rstrip("\n") for l in open(os.path.join(cp, f)) if l.strip() and not l.startswith("#")] )
        progs += [["objc %d %d %d %d %d %d %d %d" % (r.choice([2, 3, 4]), r.choice([1, 2, 3]), r.choice([1500, 3000] if not big else [5000, 15000]), r.choice([1, 1, 2, 3]),
                                                   r.choice([50, 300, 2000]), r.choice([10, 30, 60]), r.choice([0, 10, 30]), r.choice([0, 10, 30]))]
                 for _ in range(60 if big else 12)]
    shards = [progs[i::4] for i in range(4)]
    try:
        with cf.ThreadPoolExecutor(4) as ex:
            parts = list(ex.map(lambda sh: hsim.run_programs(binary, sh, model="objlog", timeout=3000) if sh else [], shards))
    except RuntimeError as ex_:
        rep.violation("unverified", dict(broken="multi-vCPU run (mv_obj) failed: %s" % ex_), no_input=True)
        return
    known = C.known_findings("C19")
    nev, okc, seen = 0, 0, {}
    for sh, results in zip(shards, parts):
        for p, res in zip(sh, results):
            nev += len(res.trace)
            w = p[0].split()
            rep.distinct(("mv", "nv%s" % w[1], "keys%s" % min(int(w[4]), 2), res.result))
            viol = []
            if res.result.startswith("result slow"):
                rep.cov["mv_inconclusive_slow"] = rep.cov.get("mv_inconclusive_slow", 0) + 1
                continue
            if res.result.startswith("result hung"):
                viol.append("nobody made progress for 3 s (%s)" % next((l for l in res.trace if l.startswith("stalled")), ""))
            if res.result.startswith("result crashed"):
                viol.append("the runtime crashed: " + res.result)
            for l in res.trace:
                t = l.split()
                if t[0] == "dead":
                    viol.append("an acquirer holds an object that has been destroyed (%s)" % l)
                elif t[0] == "refs":
                    viol.append("an object was destroyed while %s acquirer(s) were inside (%s)" % (t[3], l))
            if res.reject:
                i, v = res.reject
                viol.append("Lean acceptor `objlog` rejected `%s`: %s" % (res.trace[i], v[len("reject "):]))
            unlisted = []
            for v in viol:
                k = [x for x in known if x["signature"] in v]
                if k:
                    seen.setdefault(k[0]["id"], (k[0], p, v))
                else:
                    unlisted.append(v)
            if not viol:
                okc += 1
            if unlisted and not rep.violations:
                rep.violation("counterexample", dict(harness="mv_obj", program=p, expected=unlisted[0], all=unlisted[:5],
                                                     note="real races on real vCPUs: replaying runs the program 5 times", trace=res.trace[-12:]))
    rep.count(nev)
    rep.cov["mv_programs"] = len(progs)
    rep.cov["mv_events"] = nev
    rep.cov["mv_runs_accepted"] = okc
    rep.cov["mv_rule"] = ("the real ObjectCache<int, Obj*> used by 1..3 photon threads on each of 2..4 vCPUs (OS threads): acquire with constructors that return at "
                          "once, yield, sleep or fail, hold (yield / sleep), plain and recycling release with destroy, 1..3 keys, lifespans 50..2000 us with the "
                          "expiry timer on the creating vCPU; destroyed objects stay recognisable (quarantined); the stamped log (constructor begin/end, acquired, "
                          "releasing, destroyed) is validated by the Lean acceptor `objlog`, in-harness counters report holders inside a destroyed object")
    for kid, (k, p, v) in seen.items():
        rep.known_finding("%s (e.g. program `%s`: %s)" % (k["description"], p[0], v[:140]))
