"""C20 — sub-filesystem path confinement. Proof (Lean) + exhaustive functional correspondence over every
path-taking operation of the real SubFileSystem + lexical oracle."""
import itertools
import json
import os

from lib import common as C

LEVEL = "proof"
PATH_MAX = 4096


def gen(tier, seed):
    ops = []
    cp = os.path.join(C.VERIF, "corpus", "C20", "ops.txt")
    if os.path.exists(cp):
        ops += [l.rstrip("\n") for l in open(cp) if l.strip() and not l.startswith("#")]
    big = tier == "thorough"
    n3, n5 = (11, 7) if big else (10, 6)
    for n in range(0, n3 + 1):
        for t in itertools.product("/.a", repeat=n):
            ops.append("cat /base p:" + "".join(t))
    for n in range(0, n5 + 1):
        for t in itertools.product("/.ab-", repeat=n):
            s = "".join(t)
            if "b" in s or "-" in s:
                ops.append("cat /b/ p:" + s)
    r = C.rng(seed, "c20")
    comps = [".", "..", "...", ".a", "a", "ab", "..b", "a.", "x" * 50, "", ""]
    for _ in range(20000 if big else 3000):
        k = r.randint(1, 12)
        s = ("/" if r.random() < 0.3 else "") + "/".join(r.choice(comps) for _ in range(k)) + ("/" if r.random() < 0.3 else "")
        ops.append("cat %s p:%s" % (r.choice(["/base", "/x/y/", "/q"]), s))
    # around the length limit
    for base in ["/base", "/b/"]:
        bl = len(base) + (0 if base.endswith("/") else 1)
        for total in range(PATH_MAX - 6, PATH_MAX + 2):
            n = total - bl
            for body in ["a" * n, ("a/" * n)[:n], ("../" + "a" * n)[:n], ("a/../" * n)[:n]]:
                ops.append("cat %s p:%s" % (base, body))
    return ops


def lexical(path):
    """(legal, comps): legal iff no prefix of the component walk goes above the start"""
    d = 0
    for c in path.split("/"):
        if c == "" or c == ".":
            continue
        if c == "..":
            d -= 1
            if d < 0:
                return False
        else:
            d += 1
    return True


def oracle(op, line):
    _, base, pp = op.split(" ", 2)
    path = pp[2:]
    b = base if base.endswith("/") else base + "/"
    if not line.endswith(" all"):
        return "operations disagree on the same path: " + line
    legal = lexical(path)
    toolong = len(path) + len(b) >= PATH_MAX - 2
    if line.startswith("fwd "):
        q = line[4:-4]
        if q != b + path:
            return "forwarded path %r is not base+path" % q[:80]
        if not legal:
            return "path escaping the base directory was forwarded"
        return None
    if line == "reject all":
        if legal and not toolong:
            return "legal path (every prefix stays at or below the base) was rejected"
        return None
    return "unexpected harness output " + line[:80]


def classify(op, line):
    path = op.split(" ", 2)[2][2:]
    cs = [c for c in path.split("/") if c]
    kinds = tuple(sorted(set("dot" if c == "." else "dotdot" if c == ".." else "dotname" if c.startswith(".") else "name" for c in cs)))
    return (line.startswith("fwd"), kinds, path.startswith("/"), path.endswith("/"), "//" in path, min(len(cs), 5), len(path) > 4000)


def run(rep, tier, seed, replay=None):
    ok, log = C.lean_build()
    if not ok:
        rep.violation("unverified", dict(broken="lake build failed", log=log[-3000:]), no_input=True)
        return
    rep.proof(C.lean_audit("C20"), "cd lean && lake build && lake env lean Audit/C20.lean  (#print axioms per theorem)")
    if tier == "thorough":
        okc, out = C.leanchecker("Photon.Properties.C20")
        rep.cov["leanchecker"] = "ok" if okc else out
        if not okc:
            rep.violation("unverified", dict(broken="leanchecker Photon.Properties.C20", log=out), no_input=True)
    lib, log = C.build_photon()
    if not lib:
        rep.violation("unverified", dict(broken="libphoton does not build from the working tree", log=log[-3000:]), no_input=True)
        return
    binary, log = C.compile_harness("c20_subfs", ["c20_subfs.cpp"], extra=C.photon_link_flags(lib))
    if not binary:
        rep.violation("unverified", dict(broken="correspondence c20_subfs: harness does not compile against the tree",
                                         log=log[-3000:]), no_input=True)
        return
    ops = [json.load(open(replay))["input"]] if replay else gen(tier, seed)
    rc, impl, err = C.run_lines(binary, [], ops, timeout=3000)
    rc2, model, err2 = C.run_driver("path", ops, timeout=3000)
    rep.count(len(ops))
    rep.cov["rule"] = ("every string over {/ . a} up to length %s and over {/ . a b -} up to length 6, random component mixes, "
                       "paths around the PATH_MAX limit; each through all 34 path operands of SubFileSystem; distinct non-trivial = "
                       "distinct (accepted?, component kinds, absolute?, trailing slash?, repeated slash?, #components capped, long?)" % (11 if tier == "thorough" else 10))
    if rc != 0 or len(impl) != len(ops):
        k = len(impl)
        rep.violation("counterexample", dict(harness="c20_subfs", input=ops[k] if k < len(ops) else None,
                                             observed="harness aborted (rc=%s): %s" % (rc, err[-1500:])))
        return
    if rc2 != 0 or len(model) != len(ops):
        rep.violation("unverified", dict(broken="driver path failed", log=err2), no_input=True)
        return
    bad_oracle, bad_diff = [], []
    for op, a, b in zip(ops, impl, model):
        v = oracle(op, a)
        if v:
            bad_oracle.append((op, a, v))
        if a != b:
            bad_diff.append((op, a, b))
        rep.distinct(classify(op, a))
    rep.cov["traces_validated_against_impl"] = len(ops) - len(bad_diff)
    for op in ops[:2] + ops[5000:5002] + ops[-2:]:
        rep.sample(op[:120])
    rep.cov["oracle_failures"] = len(bad_oracle)
    rep.cov["model_impl_disagreements"] = len(bad_diff)
    known = C.known_findings("C20")
    unlisted = [x for x in bad_oracle if not any(k["signature"] in x[2] for k in known)]
    for k in known:
        hits = [x for x in bad_oracle if k["signature"] in x[2]]
        if hits:
            rep.known_finding("%s (e.g. `%s`; %d inputs in this run)" % (k["description"], hits[0][0][:80], len(hits)))
    if unlisted:
        op, a, v = min(unlisted, key=lambda x: len(x[0]))
        rep.violation("counterexample", dict(harness="c20_subfs", input=op, observed=a, expected=v, others=len(unlisted) - 1))
    elif bad_diff:
        op, a, b = min(bad_diff, key=lambda x: len(x[0]))
        rep.violation("unverified", dict(broken="correspondence c20_subfs vs model path: outputs differ", input=op, impl=a,
                                         model=b, disagreements=len(bad_diff),
                                         note="the lexical oracle accepts every explored input"), no_input=True)
