"""shared driver for the H-sim checks: run programs on the real runtime (hsim_sync), validate traces with the Lean acceptor"""
import os

from lib import common as C

FLAGS = ["-std=c++17", "-O1", "-g", "-DNDEBUG", "-DPHOTON_VERIF", "-I" + os.path.join(C.REPO, "include"),
         "-I" + os.path.join(C.VERIF, "harness")]


def build(rep, name="hsim_sync"):
    lib, log = C.build_photon()
    if not lib:
        rep.violation("unverified", dict(broken="libphoton does not build from the working tree", log=log[-3000:]), no_input=True)
        return None
    binary, log = C.compile_harness(name, [name + ".cpp"], extra=C.photon_link_flags(lib), flags=FLAGS)
    if not binary:
        rep.violation("unverified", dict(broken="correspondence %s: harness does not compile against the tree" % name,
                                         log=log[-3000:]), no_input=True)
    return binary


class Result:
    def __init__(self, prog, trace, verdicts):
        self.prog, self.trace, self.verdicts = prog, trace, verdicts
        self.reject = next(((i, v) for i, v in enumerate(verdicts) if v.startswith("reject")), None)
        self.stuck_notes = [(i, v) for i, v in enumerate(verdicts) if v.startswith("ok stuck:")]
        self.result = next((l for l in trace if l.startswith("result ")), "result none")

    def rets(self):
        return [l for l in self.trace if l.startswith("ret ")]


def run_programs(binary, progs, model="sync", timeout=1800):
    """returns list of Result (one per program), or raises"""
    lines = []
    for p in progs:
        lines += p + ["run"]
    rc, out, err = C.run_lines(binary, [], lines, timeout=timeout)
    # split harness output per program; `watchdog ...` lines (harness/watchdog.h) are kept apart: the lines of a verdict stay in the trace
    # (they end up in the replay), the notes about environment windows only count
    traces, cur = [], []
    for l in out:
        if l == "endprog":
            traces.append(cur)
            cur = []
        elif l.startswith("watchdog env-"):
            C.WATCHDOG["environment_windows"] = C.WATCHDOG.get("environment_windows", 0) + 1
            C.WATCHDOG.setdefault("notes", [])
            if len(C.WATCHDOG["notes"]) < 5:
                C.WATCHDOG["notes"].append(l)
        else:
            cur.append(l)
    if rc != 0 or len(traces) != len(progs):
        raise RuntimeError("harness failed rc=%s after %d/%d programs: %s" % (rc, len(traces), len(progs), err[-800:]))
    # feed the model: object declarations, then the trace, then endprog
    dl, spans = [], []
    for p, t in zip(progs, traces):
        objs = [l for l in p if l.startswith("obj ")]
        start = len(dl) + len(objs)
        dl += objs + t + ["endprog"]
        spans.append((start, start + len(t)))
    rc2, ver, err2 = C.run_driver(model, dl, timeout=timeout)
    if rc2 != 0 or len(ver) != len(dl):
        raise RuntimeError("driver failed rc=%s: %s" % (rc2, err2[-800:]))
    return [Result(p, t, ver[a:b]) for p, t, (a, b) in zip(progs, traces, spans)]
