"""shared part B of C01, C02, C03, C06: the real primitives across several vCPUs (harness mv_sync, real races on real time),
stamped logs validated by Lean acceptors (rwspec for mutex / rwlock / qrwlock, semlog for the semaphore, ringlog for the
condition-variable bounded buffer)."""
import concurrent.futures as cf

from lib import common as C
from checks import hsim

MODEL = {"mutex": "rwspec", "rw": "rwspec", "qrw": "rwspec", "sem": "semlog", "semd": "semlog", "semooo": "semlog", "semtight": "semlog", "condrace": "semlog", "intrrace": "intrlog", "cond": "ringlog"}


def gen(r, what, big):
    nv = r.choice([2, 3, 4])
    if what in ("mutex", "rw", "qrw") and r.random() < 0.5:
        # one hand-over per round, aimed at the window between a locker's last failed attempt and its going to sleep
        return ["handoff %s %d %d %d" % (r.choice(["mutex", "mutex0"]) if what == "mutex" else what, r.choice([20000, 40000] if not big else [100000, 200000]),
                                         r.choice([0, 1, 1]), r.choice([0, 0, 5, 20]))]
    if what in ("mutex", "rw", "qrw"):
        return ["lock %s %d %d %d %s %s %d" % (what, nv, r.choice([1, 2, 3]), r.choice([100, 300] if not big else [300, 1000]), r.choice("nyys"),
                                                r.choice(["inf", "inf", "100", "1000"]), r.choice([10, 30, 100]))]
    if what == "sem" and r.random() < 0.25:
        return ["semtight %d %d %d" % (r.choice([100000, 300000] if not big else [300000, 1000000]), r.choice([0, 1, 1]), r.choice([1, 2, 3]))]
    if what == "sem" and r.random() < 0.35:
        return ["semooo %d %d" % (r.choice([3, 24]), r.choice([20000, 50000] if not big else [100000, 300000]))]
    if what == "sem":
        tmo = r.choice([0, 1])
        return ["sem %d %d %d %d %d %d %d" % (nv, r.choice([1, 2, 3]), r.choice([0, 1, 2]), r.choice([1, 2]),
                                             r.choice([200, 600] if not big else [600, 3000]) * (4 if tmo else 1), r.choice([0, 1, 1] if tmo else [0, 0, 1]), tmo)]
    if what == "semd":
        return ["semd %d %d %d %d" % (nv, r.choice([1, 2, 4]), r.choice([300, 1000] if not big else [1000, 5000]), r.choice([0, 1]))]
    if what == "intrrace":
        return ["intrrace %d %d %d" % (r.choice([3000, 6000] if not big else [15000, 30000]), r.choice([10, 50, 300]), r.choice([0, 1]))]
    if what == "cond" and r.random() < 0.5:
        return ["condrace %d %d" % (r.choice([20000, 40000] if not big else [100000, 300000]), r.choice([5, 30, 100]))]
    return ["cond %d %d %d %d %d" % (nv, r.choice([1, 2, 3]), r.choice([1, 2, 3]), r.choice([500, 2000] if not big else [2000, 10000]), r.choice([1, 1, 2, 8]))]


def kind_of(p):
    w = p[0].split()
    if w[0] in ("lock", "handoff"):
        return "mutex" if w[1].startswith("mutex") else w[1]
    return w[0]


def run(rep, prop, kinds, tier, seed, replay_prog=None):
    binary = hsim.build(rep, "mv_sync")
    if not binary:
        return
    if replay_prog:
        progs = [replay_prog] * 5
    else:
        import os
        r = C.rng(seed, "mv_sync_" + prop)
        n = 40 if tier == "thorough" else 8
        progs = []
        cp = os.path.join(C.VERIF, "corpus", prop + "mv")
        if os.path.isdir(cp):
            for f in sorted(os.listdir(cp)):
                progs.append([l.rstrip("\n") for l in open(os.path.join(cp, f)) if l.strip() and not l.startswith("#")])
        progs += [gen(r, k, tier == "thorough") for k in kinds for _ in range(n)]
    groups = {}
    for p in progs:
        groups.setdefault(MODEL[kind_of(p)], []).append(p)
    jobs = []
    for model, ps in groups.items():
        for i in range(2):
            if ps[i::2]:
                jobs.append((model, ps[i::2]))
    try:
        with cf.ThreadPoolExecutor(4) as ex:
            parts = list(ex.map(lambda j: hsim.run_programs(binary, j[1], model=j[0], timeout=3000), jobs))
    except RuntimeError as ex_:
        rep.violation("unverified", dict(broken="multi-vCPU run (mv_sync) failed: %s" % ex_), no_input=True)
        return
    known = C.known_findings(prop)
    nev, okc, seen = 0, 0, {}
    for (model, ps), results in zip(jobs, parts):
        for p, res in zip(ps, results):
            nev += len(res.trace)
            w = p[0].split()
            rep.distinct(("mv", w[0], kind_of(p), "nv%s" % (w[2] if w[0] == "lock" else w[1]) if w[0] != "handoff" else "intr%s" % w[3], res.result))
            viol = []
            if res.result.startswith("result slow"):
                rep.cov["mv_inconclusive_slow"] = rep.cov.get("mv_inconclusive_slow", 0) + 1      # still progressing after 300 s: the machine is too loaded to judge
                continue
            if res.result.startswith("result hung"):
                viol.append("nobody made progress for 3 s although threads were still inside their operations (%s)" % next((l for l in res.trace if l.startswith("stalled")), ""))
            if res.result.startswith("result crashed"):
                viol.append("the runtime crashed: " + res.result)
            for l in res.trace:
                t = l.split()
                if t[0] == "overlap":
                    viol.append("a writer was inside the critical section together with another holder (%s)" % l)
                elif t[0] == "counter" and t[1] != t[2]:
                    viol.append("an unprotected counter incremented only inside write-locked sections is %s after %s sections (lost update: exclusion failed)" % (t[1], t[2]))
                elif t[0] in ("stale", "wrong-result"):
                    viol.append("a sleep that nobody interrupted was cut short / returned a wrong result across vCPUs (%s)" % l)
                elif t[0] == "late-write":
                    viol.append("a semaphore was written to after wait() had returned and the waiter had destroyed it (%s)" % l)
            if res.reject:
                i, v = res.reject
                viol.append("Lean acceptor `%s` rejected `%s`: %s" % (model, res.trace[i], v[len("reject "):]))
            unlisted = []
            for v in viol:
                k = [x for x in known if x["signature"] in v]
                if k:
                    seen.setdefault(k[0]["id"], (k[0], p, v))
                else:
                    unlisted.append(v)
            if not viol:
                okc += 1
            if unlisted and not rep.violations:
                rep.violation("counterexample", dict(harness="mv_sync", program=p, expected=unlisted[0], all=unlisted[:5],
                                                     note="real races on real vCPUs: replaying runs the program 5 times",
                                                     trace=[l for l in res.trace][-12:]))
    rep.count(nev)
    rep.cov["mv_programs"] = len(progs)
    rep.cov["mv_events"] = nev
    rep.cov["mv_runs_accepted"] = okc
    rep.cov["mv_rule"] = ("the real primitives on 2..4 vCPUs (OS threads), 1..3 photon threads each, real races on real time: lock/unlock cycles with yields or "
                          "sleeps inside the critical section, timed and untimed, an occupancy counter and an unprotected counter inside; single hand-overs per round "
                          "between two vCPUs with the unlock placed 0..3 us after the other side started to lock, optionally with a thread_interrupt of the locker "
                          "from a plain OS thread at the same moment; semaphores signalled "
                          "from photon threads and plain OS threads, waiters of 1..3 tokens, in-order and out-of-order resume, optionally with short timeouts and "
                          "interrupts of the waiters; thread_interrupt from another vCPU or OS thread aimed at the moment a sleep times out, followed by an "
                          "undisturbed sleep that must last its full time; semaphores destroyed and "
                          "overwritten as soon as wait() returns; a bounded buffer with a mutex and two condition variables; stamped logs validated by the "
                          "Lean acceptors rwspec / semlog / ringlog; a run without progress for 3 s is a stuck waiter")
    for kid, (k, p, v) in seen.items():
        rep.known_finding("%s (e.g. program `%s`: %s)" % (k["description"], p[0], v[:140]))
    if getattr(rep, "pending_guard", None) and not rep.violations:
        rep.violation("unverified", rep.pending_guard, no_input=True)
