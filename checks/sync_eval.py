"""shared evaluation for the H-sim checks: acceptor verdicts + API-level oracles that do not use the model"""
import re

from lib import common as C
from checks import hsim


def parse_api(trace):
    """yields dicts for call/ret lines: kind, thread, op, args, t (virtual time), r, e"""
    ev = []
    for i, l in enumerate(trace):
        w = l.split()
        if not w:
            continue
        if w[0] == "call":
            ev.append(dict(i=i, kind="call", th=w[1], op=w[2], args=w[3:-1], t=int(w[-1][1:])))
        elif w[0] == "ret":
            ev.append(dict(i=i, kind="ret", th=w[1], op=w[2], r=int(w[3]), e=int(w[4]), t=int(w[5][1:])))
        elif w[0] == "x" and w[1] == "intr":
            ev.append(dict(i=i, kind="xintr", target=w[2], e=int(w[3])))
        elif w[0] == "h" and w[1] in ("WAKE_INTR", "INTR_NOSLEEP"):
            ev.append(dict(i=i, kind="hintr", target=w[2], line=l))
    return ev


def calls_with_rets(trace):
    """pairs each call with its ret (same thread): list of (call, ret|None)"""
    open_, pairs = {}, []
    for e in parse_api(trace):
        if e["kind"] == "call":
            open_[e["th"]] = e
        elif e["kind"] == "ret":
            c = open_.pop(e["th"], None)
            if c is not None:
                pairs.append((c, e))
    for c in open_.values():
        pairs.append((c, None))
    return pairs


def evaluate(rep, prop, progs, results, oracle, known, stuck_is_violation=True):
    """classify every program run; returns nothing, reports through rep"""
    reported = False
    seen_known = {}
    okc = 0
    for p, res in zip(progs, results):
        viol = []
        if res.result.startswith("result crashed"):
            viol.append("the runtime crashed: " + res.result)
        if res.result.startswith("result hung"):
            last = next((l for l in reversed(res.trace) if l.startswith("call ") or l.startswith("h ")), "")
            viol.append("the runtime hung (no progress in 10 s of real time) after `%s`" % last)
        viol += oracle(res)
        if res.reject and not viol:
            # the acceptor's guards on API returns and on quiescent states are the property clauses
            # themselves (the theorems are stated over them); the model state they are evaluated in was
            # validated event by event up to this point, so the rejected run is a failing history.
            # A rejected internal (hook) event is only a broken correspondence.
            i, v = res.reject
            w = res.trace[i].split()
            if w and w[0] in ("ret", "q"):
                viol.append("clause guard of the Lean acceptor rejected the real run at `%s`: %s" % (res.trace[i], v))
        if stuck_is_violation:
            for i, v in res.stuck_notes:
                viol.append("lost wake-up at quiescence: " + v[len("ok stuck: "):])
        unlisted = []
        for v in viol:
            k = [x for x in known if x["signature"] in v]
            if k:
                seen_known.setdefault(k[0]["id"], (k[0], p, v))
            else:
                unlisted.append(v)
        if unlisted and not reported:
            rep.violation("counterexample", dict(harness="hsim_sync", program=p, expected=unlisted[0], all=unlisted[:5],
                                                 trace_tail=res.trace[-25:]))
            reported = True
        elif res.reject and not unlisted and not reported and not viol:
            i, v = res.reject
            rep.violation("unverified", dict(broken="correspondence hsim_sync vs Lean acceptor `sync`: trace rejected",
                                             program=p, event=res.trace[i], reason=v, trace_until=res.trace[max(0, i - 15):i + 1],
                                             note="the API-level oracles accept this run"), no_input=True)
            reported = True
        elif not res.reject:
            okc += 1
    rep.cov["traces_validated_against_impl"] = okc
    rep.cov["programs"] = len(progs)
    # regions the models treat as one atomic step because they run under the primitive's spinlock: the PHOTON_VERIF build reports
    # whether that spinlock is held when such a region is entered. On one vCPU a missing lock changes no behaviour, so this is a
    # broken modelling assumption (reported after the multi-vCPU part had its chance to show a failing run), not a failing input.
    for p, res in zip(progs, results):
        g = [l for l in res.trace if l.startswith("guard-violation")]
        if g:
            rep.pending_guard = dict(broken="model assumption of %s: a region treated as atomic under the primitive's spinlock was entered without it (%s)" % (prop, g[0]),
                                     program=p, note="single-vCPU runs cannot show a failure; see the multi-vCPU part")
            break
    for kid, (k, p, v) in seen_known.items():
        rep.known_finding("%s (e.g. program `%s`: %s)" % (k["description"], " | ".join(x for x in p if x.startswith("thread"))[:160], v[:120]))
