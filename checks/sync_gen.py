"""program generators for the H-sim checks (C01-C04, C06)"""

TOS = ["0", "1", "100", "100", "1000", "3000", "inf"]


def threads_lines(scripts):
    return ["thread %s %s" % (n, " ; ".join(ops)) for n, ops in scripts]


def gen_c04(r, big=False):
    """sleep / yield / interrupt populations with equal, zero and infinite deadlines"""
    n = r.randint(2, 7 if big else 5)
    names = ["T%d" % i for i in range(1, n + 1)]
    scripts = []
    shutdown_used = False
    for t in names:
        ops = []
        for _ in range(r.randint(1, 8 if big else 5)):
            c = r.random()
            if c < 0.08:
                # a blocking primitive built on thread_usleep_defer (nobody signals sx): times out, is interrupted, or is
                # cut short by the shutdown bound
                ops.append("waiti sx 1 %s" % r.choice(["100", "5000", "50000", "inf"]))
            elif c < 0.5:
                ops.append("%s %s" % ("sleepd" if r.random() < 0.2 else "sleep",
                                      r.choice(["0", "1", "100", "100", "100", "250", "1000", "1000", "5000", "20000", "inf"])))
            elif c < 0.65:
                ops.append("yield")
            elif c < 0.95:
                ops.append("intr %s %d" % (r.choice([x for x in names if x != t] or names), r.choice([4, 4, 11, 125])))
            else:
                ops.append("shutdown %s" % r.choice(names))
                shutdown_used = True
        scripts.append((t, ops))
    lines = ["obj sem sx 0 1"] + threads_lines(scripts)
    for _ in range(r.randint(0, 4)):
        lines.append("at %d intr %s %d" % (r.choice([0, 99, 100, 101, 250, 999, 1000, 1001, 3000, 20000]), r.choice(names), r.choice([4, 11])))
    # a thread that sleeps forever needs somebody to wake it: a late external interrupt for every thread
    for i, t in enumerate(names):
        lines.append("at %d intr %s 4" % (10_000_000 + i, t))
        lines.append("at %d intr %s 4" % (20_000_000 + i, t))
    return lines


def gen_c01(r, big=False):
    nm = r.randint(1, 2)
    lines = []
    for i in range(nm):
        kind = r.choice(["mutex", "mutex", "rmutex", "cmutex"])
        lines.append("obj %s m%d %d" % (kind, i, r.choice([0, 0, 1, 2])))
    n = r.randint(2, 6 if big else 4)
    names = ["T%d" % i for i in range(1, n + 1)]
    scripts = []
    for t in names:
        ops = []
        for _ in range(r.randint(1, 8 if big else 5)):
            m = "m%d" % r.randrange(nm)
            c = r.random()
            if c < 0.35:
                ops.append("lock %s %s" % (m, r.choice(TOS)))
            elif c < 0.45:
                ops.append("trylock %s" % m)
            elif c < 0.6:
                ops.append("unlock %s" % m)
            elif c < 0.7:
                ops += ["unlock %s" % m, "lock %s %s" % (m, r.choice(TOS))]     # release and barge back in
            elif c < 0.8:
                ops.append("sleep %s" % r.choice(["0", "50", "100", "1000"]))
            elif c < 0.88:
                ops.append("yield")
            else:
                ops.append("intr %s %d" % (r.choice([x for x in names if x != t] or names), r.choice([4, 11])))
        for i in range(nm):       # release everything at the end (no-op when not held; once per acquisition for recursive depth)
            ops += ["unlock m%d" % i] * max(1, sum(1 for o in ops if o.split()[0] in ("lock", "trylock") and o.split()[1] == "m%d" % i))
        scripts.append((t, ops))
    lines += threads_lines(scripts)
    for _ in range(r.randint(0, 3)):
        lines.append("at %d intr %s %d" % (r.choice([0, 50, 99, 100, 101, 1000, 1001]), r.choice(names), r.choice([4, 11])))
    for i, t in enumerate(names):
        lines.append("at %d intr %s 4" % (10_000_000 + i, t))
    return lines


def gen_c02(r, big=False):
    ns = r.randint(1, 2)
    lines = []
    for i in range(ns):
        lines.append("obj sem s%d %d %d" % (i, r.choice([0, 0, 1, 2, 3]), 0 if r.random() < 0.3 else 1))
    n = r.randint(2, 6 if big else 4)
    names = ["T%d" % i for i in range(1, n + 1)]
    scripts = []
    for t in names:
        ops = []
        for _ in range(r.randint(1, 7 if big else 4)):
            s = "s%d" % r.randrange(ns)
            c = r.random()
            if c < 0.4:
                ops.append("%s %s %d %s" % (r.choice(["wait", "wait", "waiti"]), s, r.choice([0, 1, 1, 2, 3]), r.choice(TOS)))
            elif c < 0.75:
                ops.append("signal %s %d" % (s, r.choice([0, 1, 1, 2, 3, 4])))
            elif c < 0.85:
                ops.append("sleep %s" % r.choice(["0", "50", "100", "1000"]))
            elif c < 0.9:
                ops.append("yield")
            else:
                ops.append("intr %s %d" % (r.choice([x for x in names if x != t] or names), r.choice([4, 11])))
        scripts.append((t, ops))
    lines += threads_lines(scripts)
    for _ in range(r.randint(0, 3)):
        lines.append("at %d intr %s %d" % (r.choice([0, 50, 99, 100, 101, 1000, 1001]), r.choice(names), r.choice([4, 11])))
    return lines


def gen_c02_barge(r, big=False):
    """waiters with different demands park first (creation order = arrival order); then one thread signals and
    takes tokens on the fast path before the woken waiters run; timeouts / interrupts hit parked waiters"""
    lines = ["obj sem s0 %d %d" % (r.choice([0, 0, 1]), 0 if r.random() < 0.4 else 1)]
    nw = r.randint(2, 4)
    names = []
    for i in range(nw):
        names.append("W%d" % i)
        lines.append("thread W%d %s s0 %d %s" % (i, r.choice(["wait", "wait", "waiti"]), r.choice([1, 1, 2, 3, 5]),
                                                 r.choice(["inf", "inf", "2000000", "1000", "20"])))
    ops = []
    for _ in range(r.randint(1, 5)):
        c = r.random()
        if c < 0.5:
            ops.append("signal s0 %d" % r.choice([1, 2, 3, 3, 4]))
        elif c < 0.8:
            ops.append("wait s0 %d %s" % (r.choice([1, 2, 2, 3]), r.choice(["0", "inf", "100"])))
        elif c < 0.9:
            ops.append("intr %s %d" % (r.choice(names), r.choice([4, 11])))
        else:
            ops.append("sleep %s" % r.choice(["10", "30", "1500"]))
    lines.append("thread S %s" % " ; ".join(ops))
    return lines


def gen_c06_barge(r, big=False):
    """a holder H, waiters queued behind it; H (or a late-comer) unlocks and locks again before the waiter that the
    unlock has just woken gets to run; timeouts of queued waiters fall around these moments"""
    lines = ["obj rw r0"]
    hold = r.choice(["rlock", "rlock", "wlock"])
    ops = ["%s r0 inf" % hold, "sleep 100"]
    for _ in range(r.randint(1, 3)):
        ops.append("rwunlock r0")
        ops.append("%s r0 %s" % (r.choice(["rlock", "rlock", "wlock"]), r.choice(["inf", "0", "100"])))
        ops.append(r.choice(["sleep 100", "sleep 30", "yield"]))
    lines.append("thread H %s ; rwunlock r0 ; rwunlock r0" % " ; ".join(ops))
    for i in range(r.randint(1, 3)):
        lines.append("thread W%d sleep %s ; %s r0 %s ; sleep %s ; rwunlock r0" % (
            i, r.choice(["10", "10", "50", "120"]), r.choice(["wlock", "wlock", "rlock"]),
            r.choice(["inf", "inf", "90", "95", "250"]), r.choice(["10", "40"])))
    return lines


def gen_c03(r, big=False):
    lines = ["obj mutex m0 %d" % r.choice([0, 0, 1]), "obj cv c0"]
    n = r.randint(2, 6 if big else 4)
    names = ["T%d" % i for i in range(1, n + 1)]
    scripts = []
    for t in names:
        ops = []
        for _ in range(r.randint(1, 5 if big else 3)):
            c = r.random()
            if c < 0.45:
                ops += ["lock m0 inf", "cvwait c0 m0 %s" % r.choice(["100", "1000", "3000", "inf", "inf"]), "unlock m0"]
            elif c < 0.7:
                mid = []
                if r.random() < 0.4:
                    # keep the mutex for a while after notifying: the woken waiters queue on the mutex, where
                    # interrupts and their deadlines can hit them
                    if r.random() < 0.6:
                        mid.append("intr %s %d" % (r.choice([x for x in names if x != t] or names), r.choice([4, 11])))
                    if r.random() < 0.6:
                        mid.append("sleep %s" % r.choice(["50", "100", "1000", "3000"]))
                    if r.random() < 0.3:
                        mid.append("intr %s %d" % (r.choice([x for x in names if x != t] or names), r.choice([4, 11])))
                ops += ["lock m0 inf", r.choice(["notify c0", "notifyall c0"])] + mid + ["unlock m0"]
            elif c < 0.8:
                ops.append(r.choice(["notify c0", "notifyall c0"]))      # notification without holding the lock
            elif c < 0.9:
                ops.append("sleep %s" % r.choice(["0", "50", "100", "1000", "2999", "3000"]))
            elif c < 0.95:
                ops.append("yield")
            else:
                ops.append("intr %s %d" % (r.choice([x for x in names if x != t] or names), r.choice([4, 11])))
        ops += ["unlock m0"]
        scripts.append((t, ops))
    lines += threads_lines(scripts)
    return lines


def gen_c06(r, big=False):
    lines = ["obj rw r0"]
    n = r.randint(2, 6 if big else 4)
    names = ["T%d" % i for i in range(1, n + 1)]
    scripts = []
    for t in names:
        ops = []
        for _ in range(r.randint(1, 6 if big else 4)):
            c = r.random()
            if c < 0.3:
                ops.append("rlock r0 %s" % r.choice(TOS))
            elif c < 0.5:
                ops.append("wlock r0 %s" % r.choice(TOS))
            elif c < 0.75:
                ops.append("rwunlock r0")
                if r.random() < 0.35:
                    # barging: re-lock before the waiter that the unlock has just woken gets to run
                    ops.append("%s r0 %s" % (r.choice(["rlock", "rlock", "wlock"]), r.choice(TOS)))
            elif c < 0.85:
                ops.append("sleep %s" % r.choice(["0", "50", "100", "1000"]))
            elif c < 0.9:
                ops.append("yield")
            else:
                ops.append("intr %s %d" % (r.choice([x for x in names if x != t] or names), r.choice([4, 11])))
        ops += ["rwunlock r0"] * 4
        scripts.append((t, ops))
    lines += threads_lines(scripts)
    for i, t in enumerate(names):
        lines.append("at %d intr %s 4" % (10_000_000 + i, t))
    return lines
