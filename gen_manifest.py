#!/usr/bin/env python3
"""Regenerates MANIFEST.json from the table below (kept in one place so it stays valid)."""
import json
import os

HERE = os.path.dirname(os.path.abspath(__file__))
ALL = ["C%02d" % i for i in range(1, 21)]

SC = "SC interleavings only (no C++11 weak-memory reasoning); Lean kernel + propext/Classical.choice/Quot.sound; hand-written model tied to the code by the differential/trace correspondence run on every invocation; harnesses, generators and check.py are trusted"

CHECKS = {
    "C15": dict(
        text="Lean 4 theorems over all offsets/lengths/intervals in the no-wrap domain (tiling, consecutive blocks, empty range, "
             "aligned enclosure, shift/mask variant = generic variant for every k) about an executable model of fs/range-split.h; "
             "the model is tied to the current source by running the compiled model and the real header on an exhaustive small box "
             "plus boundary-biased 64-bit inputs and diffing every member and every part; an independent tiling oracle on the "
             "implementation output supplies the failing input when the tie breaks",
        note="trusted: Lean kernel + 3 standard axioms; the no-wrap domain offset+length+interval < 2^64 (outside it only the "
             "model/code correspondence is checked); range_split_vi is modelled and differentially tested but its tiling is not a theorem; "
             "g++/ASan/UBSan; harness c15_rs.cpp and checks/c15.py",
        technique="Lean 4 proof over an executable model + exhaustive/boundary differential correspondence",
        design="§5 C15"),
    "C01": dict(
        text="Lean 4 theorems about the acceptor model of mutex::lock / try_lock / unlock on top of the scheduler events (any number of "
             "threads and mutexes, timeouts and interrupts at any point): lock()/try_lock() return 0 exactly when the caller is the owner and a "
             "failed lock leaves the caller out of the wait queue; the owner word changes only by a successful CAS from free or by the unlock "
             "hand-off on behalf of the current owner, to the head of the wait queue, whose wake-up must be the next event; by an inductive "
             "invariant over all accepted traces a thread is in at most one wait queue exactly while it sleeps there, and a free mutex has no "
             "thread parked inside lock() on it (never left stuck). Tied to the code by generated multi-thread programs run on the real "
             "runtime on a virtual clock with the acceptor validating every owner CAS, hand-off, park, wake-up and return value and the real "
             "owner word compared at every quiescence point; an independent occupancy / stuck-on-free-mutex oracle supplies failing programs Across vCPUs (harness mv_sync, real races on 2..4 OS-thread vCPUs): stamped logs of lock/unlock cycles, semaphore signal/wait incl. plain-OS-thread signallers and semaphores destroyed and overwritten as soon as wait() returns, and a mutex+condition-variable bounded buffer are validated by Lean acceptors (rwspec / semlog / ringlog, with theorems over all accepted histories); the PHOTON_VERIF build also reports whether the primitive's spinlock is held wherever the models treat a region as one atomic step",
        note="trusted: Lean kernel + 3 standard axioms; the internal-event acceptor runs on ONE vCPU (the segments between context switches are atomic); "
             "across vCPUs the claim rests on run-time validation of real races (PARTIAL: a violation needing a rare interleaving is found only with "
             "some probability - e.g. unlocking without the spinlock is reported through the spinlock-held hook as a broken modelling assumption, not by a failing run); spinlock / ticket / queued spinlock exclusion between OS threads is not yet claimed; recursive mutex depth "
             "is exercised by the harness, its counter has no theorem",
        technique="Lean 4 inductive invariant over an acceptor of hook/API event traces + deterministic simulation of the real runtime",
        design="§5 C01"),
    "C02": dict(
        text="Lean 4 theorems about the acceptor model of semaphore::signal / wait_interruptible / try_resume / try_subtract (any number of "
             "threads and semaphores, both resume modes): by induction over every accepted trace, tokens taken by successful subtractions + "
             "count = initial + signalled; a wait returns 0 exactly when its own last subtraction succeeded and a failed wait has taken "
             "nothing and is out of the queue; the count changes only by signal (+n) and by a subtraction with n <= count; a resume pass hands "
             "out no more than the count it started with and only to queued waiters with their registered demand; a quiescence point is "
             "accepted only if no parked waiter's demand is covered by the count (head waiter in order, any waiter out of order). Tied to the "
             "code by generated programs run on the real runtime on a virtual clock with every count change, pass, wake-up and return "
             "validated and the real count compared at every quiescence point; an independent token-ledger / parked-waiter oracle supplies "
             "failing programs Across vCPUs (harness mv_sync, real races on 2..4 OS-thread vCPUs): stamped logs of lock/unlock cycles, semaphore signal/wait incl. plain-OS-thread signallers and semaphores destroyed and overwritten as soon as wait() returns, and a mutex+condition-variable bounded buffer are validated by Lean acceptors (rwspec / semlog / ringlog, with theorems over all accepted histories); the PHOTON_VERIF build also reports whether the primitive's spinlock is held wherever the models treat a region as one atomic step",
        note="trusted: Lean kernel + 3 standard axioms; the internal-event acceptor runs on ONE vCPU; signal() from plain OS threads, waits on other "
             "vCPUs and destroy-immediately-after-wait are exercised by real multi-vCPU races only (PARTIAL: sampled interleavings; the destroyed "
             "semaphore is watched through a byte pattern, not ASan); no-lost-wake-up is a guard of the acceptor at "
             "quiescence points (a theorem about accepted traces), its truth for the code is what the trace validation establishes; uint64 "
             "overflow of the count excluded",
        technique="Lean 4 inductive invariant over an acceptor of hook/API event traces + deterministic simulation of the real runtime",
        design="§5 C02"),
    "C03": dict(
        text="Lean 4 theorems about the acceptor model of condition_variable::wait / notify_one / notify_all (cvar_do_wait via "
             "thread_usleep_defer, waitq::resume_one): once a wait has enqueued its thread the only event accepted next is the unlock of that "
             "mutex on the waiter's behalf, who must still own it (release-and-wait is one step; the waiter is already in the queue); a "
             "notifier only ever wakes the head of the queue; notify_one returns 1 and wakes exactly one waiter iff one was present, "
             "notify_all wakes exactly those present; wait() returns with the lock held and its result is the translation of how the waiter "
             "was woken (0 iff notified, -1/ETIMEDOUT iff the sleep timed out - by C04 only at or after the deadline). Tied to the code by "
             "generated programs on the real runtime on a virtual clock with every event validated; an independent API-level oracle (lock held "
             "at enqueue and at return, notify counts, 0 only if notified) supplies failing programs Across vCPUs (harness mv_sync, real races on 2..4 OS-thread vCPUs): stamped logs of lock/unlock cycles, semaphore signal/wait incl. plain-OS-thread signallers and semaphores destroyed and overwritten as soon as wait() returns, and a mutex+condition-variable bounded buffer are validated by Lean acceptors (rwspec / semlog / ringlog, with theorems over all accepted histories); the PHOTON_VERIF build also reports whether the primitive's spinlock is held wherever the models treat a region as one atomic step",
        note="trusted: Lean kernel + 3 standard axioms; the internal-event acceptor runs on ONE vCPU; the mutex variant is followed through its "
             "hook events, the spinlock variant of wait() is exercised by the harness only; cross-vCPU notification is exercised by a bounded "
             "buffer on real vCPUs (PARTIAL: sampled interleavings; a lost notification shows as a stall)",
        technique="Lean 4 theorems over an acceptor of hook/API event traces + deterministic simulation of the real runtime",
        design="§5 C03"),
    "C04": dict(
        text="Lean 4 theorems about an acceptor model of prepare_usleep / resume_threads / prelocked_thread_interrupt / thread_interrupt / "
             "thread_yield / set_error_number (one event per hook point or API return, any number of threads): in every reachable state a "
             "sleep that returns -1 reports the errno of an interrupt that reached the thread after that sleep began (never stale, never "
             "invented), likewise for yield; a delivery consumes the reason and only an interrupt event can set one; a timeout wake-up "
             "happens only at or after the deadline; a 0 return means the requested time elapsed; no sleeper is past its deadline at a "
             "quiescence point; a thread shut down before the call returns within 10 ms. The model is tied to the code by running generated "
             "multi-thread programs on the real runtime on a virtual clock (single vCPU, deterministic) and having the acceptor validate "
             "every hook event and every return value; independent API-level oracles (elapsed time, interrupt window, wake-up round) supply "
             "failing programs",
        note="trusted: Lean kernel + 3 standard axioms; single vCPU (cross-vCPU interrupts / standby queue are modelled as the same events "
             "but not exercised yet); the coarse clock (rdtsc gating, update_now) is replaced by the virtual clock; the binary heap of the "
             "sleep queue is exercised through the runtime, its order invariant is not yet a theorem; scheduler fairness (a READY thread "
             "is eventually run) is assumed",
        technique="Lean 4 invariants over an acceptor of hook/API event traces + deterministic simulation of the real runtime on a virtual clock",
        design="§5.0, §5 C04"),
    "C05": dict(
        text="Lean 4 theorems about a thread-lifecycle automaton that the event log of real multi-vCPU runs (in the order of a global atomic "
             "stamp) must be accepted by: by induction over all accepted histories the entry function of every thread is entered at most once; "
             "at the end every created thread has run to completion (none lost); a thread is resumed only while it is outside (between the "
             "announcement of a blocking / migrating call and its return) and every announcement and the return of the entry function happen on "
             "the vCPU of its last resumption, so it exists on one vCPU at a time; thread_join returns only after the entry function returned, "
             "with its value, once; vCPU thread counts return to their initial value. Tied to the code by generated programs on 1..4 real vCPUs "
             "(OS threads) with and without work stealing: threads created by vCPU mains or by other threads, joinable or detached, stealable or "
             "not, yielding, sleeping, migrating themselves, joining; an in-harness atomic flag independently detects simultaneous execution, a "
             "watchdog detects lost threads. Findings F18 (idle stealers deadlock) and F19/F20 (run-queue lock without a store-load barrier) shown by the check and repaired; F22 recorded as known",
        note="trusted: Lean kernel + 3 standard axioms; PARTIAL: runs are real races on real time (not every interleaving; a violation that needs a "
             "rare interleaving is found only with some probability, the quick tier runs 400 programs, thorough 3000); the release of thread "
             "stacks (pooled / default allocator) is not observed - libphoton is not ASan-instrumented in this harness; thread pools, "
             "thread_create11/go and migration of OTHER threads are not exercised; a crash of a program with work stealing is attributed to the "
             "recorded rare residual crash F22 (about 1 of 20 000 programs) unless more than max(2, 2%) of a run's work-stealing programs crash; "
             "a hang is reported at once",
        technique="Lean 4 invariants over a lifecycle automaton + run-time trace validation of the real multi-vCPU runtime",
        design="§5 C05"),
    "C06": dict(
        text="Lean 4 theorems about photon::rwlock modelled on top of the mutex and condition-variable layers (its internal mutex and "
             "condition variable are followed event by event; wait inside rwlock::lock owes the deferred unlock of the internal mutex): by "
             "induction over all accepted traces, while a writer holds the lock nobody else holds it in any mode; a lock is granted only when "
             "compatible with the current holders; a lock() that fails changes no holder set and leaves the caller out of the wait queue; a "
             "quiescence point is accepted only if no free rwlock has parked waiters. Tied to the code by generated programs on the real "
             "runtime on a virtual clock, grants and the real `state` word compared with the model's holder sets at every quiescence point; "
             "an independent occupancy oracle supplies failing programs. For photon::qrwlock (and photon::rwlock a second time) an API-level "
             "specification automaton with theorems over all accepted histories: writers exclusive (inductive invariant), grants compatible, a "
             "failed lock changes no holder and fails only for a reason (try_lock: an incompatible holder; lock: its timeout expired), and at a "
             "quiescence point a free lock has nobody blocked in lock() (after the last holder unlocks the waiters are admitted); tied to the "
             "code by generated programs with timed locks, try_lock, yields, sleeps and CPU-bound stretches of virtual time",
        note="trusted: Lean kernel + 3 standard axioms; single vCPU: qrwlock's lock-free fast path and its spinlock are NOT exercised across "
             "vCPUs (on one vCPU every lock operation is atomic between two blocking points, which is what makes the API-level automaton a "
             "sound oracle); thread_interrupt of a qrwlock waiter is not generated; fairness among waiters (readers queue behind a waiting "
             "writer in rwlock; no starvation prevention in qrwlock) is exercised, not specified; a reader blocked while only readers hold a "
             "qrwlock (after a barging reader) is not counted - the statement speaks about the moment the last holder unlocks",
        technique="Lean 4 inductive invariants over an acceptor of hook/API event traces and over an API-level specification automaton + "
                  "deterministic simulation of the real runtime",
        design="§5 C06"),
    "C07": dict(
        text="Lean 4 refinement theorem for the ring queues' sequential semantics: with head/tail claim counters and slots addressed by "
             "counter mod capacity, for every capacity and every sequence of push/pop operations (any number of laps around the ring) the "
             "results equal those of a FIFO list bounded by the capacity and the ring content is that list - push appends and fails exactly "
             "when capacity elements are queued, pop removes the oldest and fails exactly when empty, the queue never holds more than its "
             "capacity (one-step refinement + induction over the operation list). The model (incl. push_batch/pop_batch) is tied to the code "
             "by single-threaded op sequences on the real Flex MPMC, batch-MPMC and SPSC queues (capacity requests 0..9) compared op by op. "
             "For concurrent use a Lean acceptor validates what consumers received in real runs: every element was sent, is received at most "
             "once, comes later in its producer's order than what that consumer already has from that producer, and in the end all were "
             "received - on 1..4 producer and consumer OS threads with push/pop and send/recv, and on RingChannel with consumers blocked in "
             "recv() on their own vCPUs and paced producers, where the per-element latency exposes a lost notification",
        note="trusted: Lean kernel + 3 standard axioms; PARTIAL: there is NO theorem over the interleavings of the atomic steps of concurrent "
             "producers/consumers (turn marks, CAS loops, the batch queue's publication frontiers, the Dekker fence of RingChannel): for these "
             "the claim rests on run-time validation of real races by the acceptor (found only with some probability); read_available() of the "
             "MPMC queue counts claimed tickets and may exceed the capacity under blocking send() by design - the capacity clause is checked for "
             "push/pop only; a lost RingChannel notification is detected as a latency >= 50 ms (the 100 ms periodic re-check hides it otherwise); "
             "SendBackoff (producer blocked on a full channel) is exercised but its latency is not measured",
        technique="Lean 4 refinement proof over an executable model + op-sequence correspondence + run-time trace validation of concurrent runs",
        design="§5 C07"),
    "C08": dict(
        text="Lean 4 theorems about a task automaton that the stamped event log of real WorkPool runs must be accepted by: by induction over all "
             "accepted histories every task body is entered at most once and every async task object is deleted at most once; a task runs only "
             "if it was submitted and not after the pool was destroyed; call() returns only after its task finished; an async task object is "
             "deleted only after it ran; when the destructor returns (and at the end) every accepted task has finished and every async task "
             "object has been deleted exactly once. Tied to the code by generated programs on the real WorkPool (1..4 worker OS threads, thread "
             "mode -1 / 0 / pooled, ring sizes 1..65536 incl. bursts larger than the ring) with photon-thread and plain-OS-thread submitters, "
             "tasks that return, yield or sleep, and the pool destroyed right after the last submitter finished; an independent counting oracle "
             "supplies failing programs",
        note="trusted: Lean kernel + 3 standard axioms; PARTIAL: runs are real races on real time (a violation needing a rare interleaving is "
             "found only with some probability; quick = 400 programs, thorough = 3000); use-after-free / double delete of task objects is observed "
             "through the destructor counter, not through ASan (libphoton is not instrumented here); join_current_vcpu_into_workpool and "
             "WorkPool::thread_migrate are not exercised",
        technique="Lean 4 invariants over a task automaton + run-time trace validation of the real multi-vCPU runtime",
        design="§5 C08"),
    "C09": dict(
        text="Lean 4 theorems about a specification automaton for photon::channel that every single-vCPU history of API calls and returns "
             "must be accepted by (a bounded FIFO for capacity > 0, a rendezvous for capacity 0): for every accepted history of a buffered "
             "channel the values received so far followed by the buffer are exactly the values whose send returned true, in order (each "
             "received exactly once, in sending order, nothing else received, never more than capacity buffered); for an unbuffered channel no "
             "value is received twice and every value reported sent has been received (or sits in the hand-off slot after a try_send); a send "
             "returns false only after close() or its timeout; a quiescence point is accepted only if no sender/receiver is blocked while a "
             "partner, free slot or item exists. The tie to the code: generated programs run on the real channel<int> on a virtual clock, every "
             "call/return with its value fed to the automaton; an independent multiset/order oracle supplies failing programs. Two genuine "
             "defects of the unbuffered channel are recorded as known findings (F2, F14) with a Lean witness theorem for F2. Across vCPUs: buffered "
             "channels with 1..3 senders and 1..2 receivers, each on its own vCPU with infinite timeouts, are run for 40 000..150 000 elements; "
             "what the receivers got must be accepted by a Lean acceptor for which it is proved that no element is received twice and, at the "
             "end, as many distinct elements were received as sends reported true; a run in which nobody makes progress is a stuck waiter "
             "(finding F3: waiter registered after the failed push/pop - shown by this check and repaired)",
        note="trusted: Lean kernel + 3 standard axioms; the specification automaton is sound on ONE vCPU (operations take effect atomically "
             "right before they return); across vCPUs only the buffered channel is exercised, as real races on real time validated by the "
             "weaker receiver-side acceptor (PARTIAL: a violation needing a rare interleaving is found only with some probability; F3 stalled "
             "every run within 10^5 elements); the unbuffered channel and timeouts/close mid-stream across vCPUs are not exercised; the "
             "lock-free ring under the buffered channel is C07's subject; tags handed to send are distinct; select() is not covered",
        technique="Lean 4 invariants over a specification automaton (refinement at API level) + deterministic simulation of the real runtime",
        design="§5 C09"),
    "C10": dict(
        text="Lean 4 theorems about (A) a specification automaton for connected socket streams that every single-vCPU history of ISocketStream "
             "calls and returns (read/readv/write/writev = full-count kinds, recv/send = at-most kinds, with count, errno, the stream offset and "
             "the byte-for-byte verdict of what a read returned), timeout settings, shutdowns, closes, clock ticks and quiescence points must be "
             "accepted by: by induction over all accepted histories the deliveries of every stream are consecutive pieces of the writer's byte "
             "sequence ending at the read position (in order, exactly once, nothing skipped); an accepted read delivers exactly the next bytes and "
             "never more than was written; write()/read() return the full count unless the stream ended (then exactly the remaining bytes); "
             "recv()/send() move at least one byte unless end of stream; a failure is ETIMEDOUT only at or after the call's deadline or another "
             "error only with the peer shut/closed; a quiescence point is accepted only if no call is blocked past its deadline and no blocked "
             "reader has its bytes / end of stream available nor is a writer blocked together with its stream's reader (lost readiness event); "
             "(B) doio_loop with BufStep/BufStepV as a pure function: every transfer is asked for exactly the not yet transferred suffix of the "
             "flat byte sequence for any segmentation incl. zero-length iovecs, a view never starts with an empty element after a transfer, result "
             "bounds, short result only at end of stream. Tied to the code by (A) generated programs on real photon streams over real Unix-domain "
             "and loopback-TCP sockets (plain and ET) with the real epoll and epoll-ng engines under a virtual clock - paces forcing EAGAIN on "
             "either side, both directions of a descriptor at once, up to 22 connections on one engine, timeouts shorter than the peer's pauses, "
             "shutdown at arbitrary offsets - and (B) the real doio_loop template on scripted transfer results compared request by request",
        note="trusted: Lean kernel + 3 standard axioms; the KERNEL (socket buffers, epoll, loopback TCP) is real and trusted, not modelled - the "
             "automaton specifies the stream at the API; one vCPU; virtual time advances only when the kernel has nothing under way (for TCP the "
             "harness waits up to 0.5 s of real time while queues/ioctl show data, window updates or FINs in flight), so 'timeout while data is in "
             "flight' means in flight in the peer's pauses, not inside the kernel; a spurious wake-up of the wrong thread is invisible at the API "
             "(the woken call retries and blocks again) and is NOT checked - only lost events (stuck at quiescence), wrong results and overdue "
             "calls are; the interest bookkeeping of io/epoll.cpp (_inflight_events, one-shot re-arming) has no model of its own: it is covered "
             "through its externally visible effect only; after a failed full-count call the stream position is unknown and the stream is "
             "excluded from the data clauses; io_uring and select engines, TLS, zero-copy send, sendfile, connect/accept timeouts are not covered",
        technique="Lean 4 invariants over a specification automaton + pure transfer-loop model; deterministic simulation of the real runtime over real "
                  "kernel sockets + functional correspondence of the transfer loop",
        design="§5 C10"),
    "C11": dict(
        text="Lean 4 theorems about a specification automaton for the RPC stub that every single-vCPU history of do_call calls/returns, "
             "request writes (with the allocated tag), header reads, body reads (with the caller-owned buffer they go into), reader "
             "interrupts and queue counts must be accepted by. For every reachable state (invariant by induction over all accepted "
             "histories): a call that reports success has had exactly one response collected into its own buffer, that response's header "
             "carried the tag the call's request was sent with, the byte count is the body's and the bytes the caller sees are that "
             "response's; a response is delivered to at most one call; a body read starts only into the buffer of a call still in progress "
             "and the call cannot return (nor the reader leave) until that read has ended; the reader wakes only a caller whose response has "
             "been collected; the return of a (failing) call changes no other call's record and a failing reader may drop only a header no "
             "waiting call is addressed by; at quiescence with outstanding calls somebody is reading, no bytes lie unread, and the engine's "
             "queue holds exactly the outstanding calls; it is empty in the end. Tied to the code by generated programs on the real "
             "StubImpl+OooEngine over a scripted in-memory stream (permuted, fragmented, delayed across individual deadlines, unanswered, "
             "duplicate, unknown-tag responses, stream errors, failing/slow writes); an independent payload/canary oracle supplies failing "
             "programs. Finding F4 (use after return on a follower's timeout) was shown by the check and repaired in /repo",
        note="trusted: Lean kernel + 3 standard axioms; single vCPU (the API requires it); the harness calls Stub::do_call (the raw iovector "
             "call under the typed call<> templates; serialization is C12's subject) over its own IStream - kernel sockets, TLS and the "
             "Skeleton (server side) are not covered; writes to the OooArgs context on the caller's stack are observed only through their "
             "externally visible effects (interrupts, buffer writes, hangs), not byte by byte; ooo_issue_operation / ooo_wait_completion "
             "used separately (result collected before wait) and user-defined tags are not exercised",
        technique="Lean 4 invariants over a specification automaton (refinement at API level) + deterministic simulation of the real runtime",
        design="§5 C11"),
    "C12": dict(
        text="Lean 4 theorems about the flat-byte model of DeserializerIOV::deserialize for an arbitrary message schema (body size, and per "
             "variable-length field where its length is stored, whether it is claimed as a contiguous buffer or an iovec view, and its pass): "
             "(1) for every byte string and every length values a sender may have written: if the message is accepted, the input minus its body "
             "is exactly the first-pass fields, then the second-pass fields, then unclaimed slack, and every field of the result is one of those "
             "pieces - nothing outside the input is part of a field; a claimed length larger than what is left, an input shorter than the body, "
             "or a failing checksum reject the message; (2) lossless round trip: for every schema and field contents (any lengths incl. 0) the "
             "wire `first-pass fields ++ second-pass fields ++ body` that stores those lengths (and verifies, for a checked message) "
             "deserializes to exactly those fields in declaration order; (3) a sorted-map slice taken from the wire anchors to a contiguous "
             "piece of the base buffer or to the empty string. Tied to the code by the real SerializerIOV/DeserializerIOV under ASan on four "
             "message types covering every field kind: every serialized message re-fragmented 3 ways must round-trip (oracle), 4-6 hostile "
             "variants each are deserialized, every byte of every accepted field read, every sorted-map entry anchored / value-deserialized / "
             "looked up, and the result diffed with the compiled model (incl. a Lean CRC32C). Findings F5, F6 shown by the check and repaired",
        note="trusted: Lean kernel + 3 standard axioms; fragmentation independence of the primitives is C14's theorem set (the model is at "
             "flat-byte level); `a checked message whose bytes were altered is rejected` is stated as: rejected unless the CRC32C of the altered "
             "bytes verifies (a 32-bit checksum cannot reject every alteration), exercised with bit flips; fixed_buffer<T> (length other than "
             "sizeof(T) on the wire), user-defined hashers and messages above the IOVector element capacity are not exercised; UBSan's alignment "
             "and pointer-overflow checks are off in this harness (packed array<T> elements; end() of a null array) - they are not memory accesses; "
             "nested values of a sorted map are deserialized from private copies in the harness (deserialization rewrites pointer fields in place, "
             "hostile slices may overlap)",
        technique="Lean 4 proof over an executable model + differential correspondence under sanitizers on intact, re-fragmented and hostile inputs",
        design="§5 C12"),
    "C13": dict(
        text="Lean 4 specification of HTTP/1.1 message framing as a function of the whole byte string (start line, header multimap in the "
             "library's case-insensitive order, framing decision, body) with theorems about the coding: for every sequence of non-empty chunks "
             "(any sizes, any bytes incl. CR LF inside the data) what the library's chunked writer emits decodes to exactly the concatenation of "
             "the chunks (hex size lines of any length proved to round-trip); for every input, malformed or not, the chunked decoder is total "
             "(no endless loop) and returns no more bytes than the input holds; a Content-Length body is exactly the next n bytes (all that "
             "follows if the input ends), a close-delimited body everything that follows; the incremental terminator search of "
             "Message::append_bytes (each new fragment searched together with the 3 bytes before it) reports, for EVERY fragmentation of the "
             "received bytes, the end of the header exactly where the first CRLF CRLF of the concatenation ends (look-back lemma + induction "
             "over the fragment list; the driver runs it on the very fragments the harness delivers and the offsets are compared). For the "
             "rest, because the specification is a function of the concatenated bytes, independence from fragmentation is what the "
             "correspondence establishes: the real incremental parser "
             "(Message::append_bytes/receive_header), header index and the three body readers are run under ASan on generated valid requests and "
             "responses under whole / one-byte-per-recv / around-the-terminator / random fragmentations and read() sizes 1..100000 and must "
             "equal the compiled specification and the generator's intent; bodies written by the library's chunked and fixed-length writers "
             "are read back; malformed variants must neither crash nor exceed a step bound. Finding F16 shown by the check and repaired",
        note="trusted: Lean kernel + 3 standard axioms; apart from the header-terminator search, fragmentation independence of the "
             "implementation (the chunked reader's 4 KB line buffer with memmove) is NOT a theorem about the C++ algorithm but the observed "
             "agreement with a specification that cannot depend on fragmentation; malformed input is checked only for memory safety (ASan, receive buffer poisoned with non-zero bytes) and "
             "termination, its parse result is not compared; duplicate header names, Content-Range framing, trailers/chunk extensions, "
             "responses to HEAD with a chunked coding, URL parsing, client/server glue are not covered",
        technique="Lean 4 proof over an executable specification + differential correspondence under sanitizers across fragmentations",
        design="§5 C13"),
    "C14": dict(
        text="Lean 4 theorems, for every vector shape (any number of elements, zero-length elements anywhere), every byte count and "
             "every destination shape, that each modelled operation equals its effect on the flat address sequence: sum, shrink_to, "
             "extract_front/back (discard, copy-out layout, into a view with n slots incl. the specified -1 branch with nothing lost), "
             "contiguous extract (view and owning, incl. copy-when-straddling), slice, and the memcpy/pipe core (_copy_pipe_iov: count = "
             "min(size,|dst|,|src|), reads exactly the first n source bytes, writes exactly the first n destination bytes). The "
             "element-by-element model is tied to the code by op-sequence programs run on the real iovector_view/IOVector under "
             "ASan/UBSan (iovector.cpp compiled into the harness) and diffed at element level with the compiled model; an independent "
             "flat-byte-string oracle supplies failing inputs",
        note="trusted: Lean kernel + 3 standard axioms; shrink_less_than and truncate-with-growth, push/pop and the IOAlloc allocator "
             "are exercised/modelled as code but have no flat-spec theorem; destination and source of memcpy/pipe do not alias in "
             "generated programs (memcpy with overlap is undefined); capacity asserts are off in the -DNDEBUG build, shapes are "
             "generated within capacity 28",
        technique="Lean 4 proof over an executable model + op-sequence differential correspondence under sanitizers",
        design="§5 C14"),
    "C16": dict(
        text="Lean 4 theorems for every alignment, file content, offset before end-of-file and length: a read through the alignment adaptor "
             "returns exactly the plain file's bytes and count (whatever the memory-alignment mode); every read and write request the adaptor "
             "issues (the bounce-buffer read, the read-modify-write of the first and last block, the write) has offset and length that are "
             "multiples of the alignment; a read from a fixed-size linear composite and from a stripe composite equals the read from the flat "
             "file of the concatenated / striped layout clipped at the composite's size, for every unit/stripe size, sub-file count, offset and "
             "length - the parts are those of the C15 model of range_split and C15_tiling supplies the tiling. Writes: for every alignment, file "
             "content, offset, non-empty data and whatever the bounce buffer contains, the alignment adaptor's pwrite (read-modify-write of the "
             "first and last block, one aligned write, truncation back) leaves exactly the file the plain pwrite leaves and reports the full "
             "count; a write through the fixed-size linear composite and through the stripe composite equals the write into the flat "
             "concatenated / striped view clipped at the composite's size, and the sub-files keep their size. The whole model (incl. the "
             "variable-size composite and the vectored variants) is executable and tied to the code by op sequences run on "
             "the real adaptors over in-memory recording sub-files under ASan/UBSan, compared with the compiled model on return value, data, "
             "content of every sub-file and the exact underlay request log; an independent flat-file oracle (incl. buffer-address alignment) "
             "supplies failing inputs",
        note="trusted: Lean kernel + 3 standard axioms; the vectored variants (preadv/pwritev) and the variable-size linear composite have no "
             "closed-form theorem - for them the claim rests on the differential check and the flat-file oracle over generated op sequences; an "
             "empty write is specified as 'file unchanged' by the model only; offsets are far below 2^63 (plain Nat arithmetic; "
             "wrap-around of the splitters is C15); align_memory is exercised with alignment >= 8 only (AlignedAlloc uses posix_memalign); "
             "requests that start at or after end-of-file are outside the statement and are only compared model-vs-code",
        technique="Lean 4 proof over an executable model + op-sequence differential correspondence under sanitizers",
        design="§5 C16"),
    "C17": dict(
        text="Lean 4 theorems: (1) RangeModule (the filled-range map of the full-file cache store) is a set of byte positions - for every "
             "interval list, addRange is union with [l,r), removeRange is difference, and queryRefillRange is sound: `(0,0)` only if every "
             "requested byte is covered, otherwise a region inside the request outside of which every requested byte is covered; (2) for the "
             "abstract cache store (filled-range map over a media file, refilled from an immutable source) every read returns exactly the "
             "source's bytes and count, clipped at the source size, for every offset/length and every refill policy that covers the queried "
             "region, and by induction the same after every history of reads, whole-file evictions and range evictions (the media stays "
             "coherent with the source on filled bytes); (3) an acceptor for real runs: a cached read that does not fail returns the "
             "source's count and bytes, and may fail only if a source read was made to fail while it was in flight. Tied to the code by op "
             "sequences on the real RangeModule (interval list and answers compared) and by the real full-file cached file system over "
             "local files on a virtual clock: 2..5 concurrent vectored readers around page / refill-unit / end-of-file boundaries, "
             "whole-file evictions while reads are in flight, timer-driven pool activity, injected short/failed source reads; every byte "
             "compared with the source function",
        note="trusted: Lean kernel + 3 standard axioms; the step from the abstract store to store.cpp (range lock, async refill through the "
             "thread pool, re-read of the remainder, fiemap vs in-memory range map, pool LRU / quota / reuse scan) is covered only by the "
             "simulation runs on ONE vCPU, not by a theorem; re-use of the cache directory by a new pool is exercised (reopen; media on tmpfs = "
             "no fiemap, or under the scratch directory); eviction by quota/capacity, range "
             "punching (ICacheStore::evict(offset, len); its entry point is not exported from libphoton.so) and the OCF / memory / persistent "
             "cache variants are not exercised; the model's removeRange walks the whole list (the C++ stops early on the sorted map) - equal on "
             "sorted maps, which the correspondence compares",
        technique="Lean 4 proof over executable models + op-sequence correspondence + deterministic simulation of the real cached file system",
        design="§5 C17"),
    "C18": dict(
        text="Lean 4 theorem by induction over every history of lock / try-lock-and-wait / unlock (handle or range) / adjust operations, any "
             "threads, any ranges (zero-length, adjacent, nested, saturating at the top of the 64-bit space): the index stays sorted by the "
             "set order, hence held ranges are pairwise disjoint; handles are unique; every parked waiter waits on an element that is still "
             "held, and an unlock wakes all waiters of what it erases; a reported conflict is a real overlap; the scan used for lower_bound "
             "is justified by a partition lemma. The model is tied to the code by op-sequence programs (generated against the model, run on "
             "the real RangeLock with photon threads that really park) compared line by line incl. who is woken and the whole index; an "
             "independent disjointness/wake-up oracle on the implementation output supplies failing inputs",
        note="trusted: Lean kernel + 3 standard axioms; single vCPU in the harness (every RangeLock operation runs under its spinlock, so "
             "a call is one atomic step; the atomic release-and-wait of the condition variable is property C03); ranges are denoted with the "
             "implementation's saturating end in the theorem (known finding F11: byte 2^64-1); two empty ranges at the same point are not "
             "generated (their std::set order is a libstdc++ artefact); known finding F12 (empty held range delays a covering request)",
        technique="Lean 4 inductive invariant over operation histories + op-sequence differential correspondence with real parked threads",
        design="§5 C18"),
    "C19": dict(
        text="Lean 4 theorems about a specification automaton for ObjectCache<K,V*> that every single-vCPU history of acquire/release "
             "calls and returns, constructor begin/end and destructor calls must be accepted by: a destructor call is accepted only for the "
             "key's live object with no reference held and - unless a recycling release is in progress - only after the lifespan since the "
             "last release has passed; a constructor never starts while another one runs for the key or while the key has a live object; a "
             "successful acquire returns the key's live object (acquirers share it); a recycling release returns only when no other holder "
             "remains; by induction over all accepted histories a key with any held reference has a live object and no constructor running. "
             "Tied to the code by generated programs on the real cache with its expiry timer driven by the virtual clock; an independent "
             "reference-count oracle supplies failing programs Across vCPUs (harness mv_obj, real races on 2..4 OS-thread vCPUs with the expiry timer on the creating vCPU): a stamped log of constructor begin/end, acquired, releasing and destroyed events is validated by a Lean acceptor for which it is proved that an accepted destruction is of the key's live object with no reference held, a constructor never starts while another runs for the key, acquire returns the key's newest live object, and - by induction over every accepted history - every held reference is to a live object; destroyed objects stay recognisable",
        note="trusted: Lean kernel + 3 standard axioms; the specification automaton with lifespans and cooldowns runs on ONE vCPU (virtual clock); across vCPUs real races are sampled (PARTIAL) and lifespan / cooldown timing is not checked there; ObjectCache<int,Obj*> only - ObjectCacheV2 and the intrusive-list "
             "variant are not covered; the size limit (num_limit) is not exercised; a program-level deadlock (a holder re-acquiring a key "
             "while another thread's recycling release waits for it) is not counted as a violation; the failure-cooldown clause is a theorem "
             "(null without trying the constructor only within the cooldown of a real failure) exercised with cooldowns 0..1e9",
        technique="Lean 4 invariants over a specification automaton (refinement at API level) + deterministic simulation of the real runtime",
        design="§5 C19"),
    "C20": dict(
        text="Lean 4 theorems for every path string and base: whatever PathCat forwards is base++path and its component walk never "
             "goes above the base (no escape); every path whose prefixes all stay inside and that fits the buffer is forwarded (legal "
             "accepted); the forwarded path's lexical resolution keeps the base's directory stack as its bottom; rejected = escaping or "
             "over-long. The model of Path::iterator / level_valid / PathCat is tied to the code by running all 34 path operands of the "
             "real SubFileSystem over a recording filesystem on every string over {/ . a} up to length 10 (88 573) and other families, "
             "and diffing with the compiled model; an independent lexical oracle supplies failing inputs",
        note="trusted: Lean kernel + 3 standard axioms; paths are C strings without NUL and without spaces in the harness protocol; "
             "symlink()'s first argument is link content, not a path operand (outside); libphoton built from the working tree",
        technique="Lean 4 proof over an executable model + exhaustive differential correspondence through every operation",
        design="§5 C20"),
}

NA_REASON = "not claimed yet in this round: model/theorems/harness for this property are still to be built (DESIGN.md §10 order); no check is registered rather than a weaker technique substituted"


def main():
    checks = []
    for pid in ALL:
        if pid not in CHECKS:
            continue
        c = CHECKS[pid]
        checks.append(dict(
            property_id=pid,
            quick_cmd="python3 check.py %s quick" % pid,
            thorough_cmd="python3 check.py %s thorough" % pid,
            evidence_file="evidence/%s.json" % pid,
            replay_cmd_template="python3 check.py %s quick --replay {path}" % pid,
            engine="lean4+diff",
            level_claimed=dict(category="proof", text=c["text"], design_ref=c["design"]),
            level_note=c["note"],
            technique=c["technique"]))
    m = dict(
        version=1,
        setup_cmd="python3 setup.py",
        hooks=dict(guard="PHOTON_VERIF", enable="-DPHOTON_VERIF added to CMAKE_CXX_FLAGS / to the harness compile line by the checks",
                   baseline_off_cmd="cmake --build /repo/_build -j16 && ctest --test-dir /repo/_build -j8 --timeout 900",
                   source_commits=["verification hooks (guard PHOTON_VERIF): common/verif-hook.h and hook points in thread.cpp/thread.h", "verification hooks (guard PHOTON_VERIF): SEM_PASS point at the start of semaphore::try_resume", "verification hooks (guard PHOTON_VERIF): GUARD points report whether the spinlock protecting a region of mutex / semaphore / qrwlock is held when the region is entered"], add_only=False),
        engines=[dict(name="lean4+diff", path="lean/ (lake project), harness/, checks/, check.py",
                      serves_properties=sorted(CHECKS),
                      kind_free_text="Lean 4 theorems about hand-written executable models; compiled model driver vs real C++ harness on the same inputs/traces")],
        checks=checks,
        notes="See DESIGN.md. Known findings: known_findings.json.",
        not_applicable=[dict(property_id=p, reason=NA_REASON) for p in ALL if p not in CHECKS])
    with open(os.path.join(HERE, "MANIFEST.json"), "w") as f:
        json.dump(m, f, indent=1)
    print("MANIFEST.json: %d checks, %d not claimed" % (len(checks), len(m["not_applicable"])))


if __name__ == "__main__":
    main()
