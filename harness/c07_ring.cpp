// H-fun harness for C07 (sequential semantics): op sequences on the real ring queues, single-threaded.
//   new <mpmc|batch|spsc> <c>      a Flex queue created with capacity request c (rounded up to a power of two, min 2)
//   push <x> | pop | pushb <x,y,..> | popb <n> | state
// output: ok|full  /  <x>|empty  /  n=<written>  /  <x,y,..>|-  /  full=<0|1> empty=<0|1> ravail=<n>
#include <photon/common/lockfree_queue.h>
#include <cstdio>
#include <iostream>
#include <sstream>
#include <string>
#include <vector>
using MP = FlexLockfreeMPMCRingQueue<uint64_t>;
using BA = FlexLockfreeBatchMPMCRingQueue<uint64_t>;
using SP = FlexLockfreeSPSCRingQueue<uint64_t>;
static MP* mp; static BA* ba; static SP* sp; static std::string kind;
static std::vector<uint64_t> nums(const std::string& s) { std::vector<uint64_t> v; if (s == "-") return v; std::istringstream is(s); std::string t; while (std::getline(is, t, ',')) v.push_back(strtoull(t.c_str(), 0, 10)); return v; }
int main() {
    std::string line;
    while (std::getline(std::cin, line)) {
        std::istringstream is(line); std::string op; is >> op;
        if (op == "new") { size_t c; is >> kind >> c; if (mp) { MP::destroy(mp); mp = nullptr; } if (ba) { BA::destroy(ba); ba = nullptr; } if (sp) { SP::destroy(sp); sp = nullptr; }
            if (kind == "mpmc") mp = MP::create(c); else if (kind == "batch") ba = BA::create(c); else sp = SP::create(c);
            printf("ok\n"); }
        else if (op == "push") { uint64_t x; is >> x; bool r = mp ? mp->push(x) : ba ? ba->push(x) : sp->push(x); printf("%s\n", r ? "ok" : "full"); }
        else if (op == "pop") { uint64_t x = 0; bool r = mp ? mp->pop(x) : ba ? ba->pop(x) : sp->pop(x); if (r) printf("%lu\n", (unsigned long)x); else printf("empty\n"); }
        else if (op == "pushb") { std::string a; is >> a; auto v = nums(a); size_t n = 0;
            if (ba) n = ba->push_batch(v.data(), v.size()); else if (sp) n = sp->push_batch(v.data(), v.size()); else { for (auto x : v) { if (!mp->push(x)) break; ++n; } }
            printf("n=%zu\n", n); }
        else if (op == "popb") { size_t n; is >> n; std::vector<uint64_t> v(n ? n : 1); size_t got = 0;
            if (ba) got = ba->pop_batch(v.data(), n); else if (sp) got = sp->pop_batch(v.data(), n); else { while (got < n && mp->pop(v[got])) ++got; }
            std::string o; for (size_t i = 0; i < got; ++i) { if (i) o += ","; o += std::to_string(v[i]); } printf("%s\n", got ? o.c_str() : "-"); }
        else if (op == "state") { bool f = mp ? mp->full() : ba ? ba->full() : sp->full(); bool e = mp ? mp->empty() : ba ? ba->empty() : sp->empty();
            size_t ra = mp ? mp->read_available() : ba ? ba->read_available() : sp->read_available();
            printf("full=%d empty=%d ravail=%zu\n", (int)f, (int)e, ra); }
        else printf("bad-op\n");
        fflush(stdout);
    }
    return 0;
}
