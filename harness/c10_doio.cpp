// H-fun harness for C10 part A: the real doio_loop with BufStep / BufStepV (net/basic_socket.h) on scripted transfer results.
//   buf <count> <r1,r2,..>        doio_loop(iocb, BufStep(buf, count));   result: number = bytes moved, 0 = EOF, e = failure (-1)
//   vec <l1,l2,..> <r1,r2,..>     doio_loop(iocb, BufStepV(view)) over an iovec array whose element i is at address (i+1)*1000000
// output: ret=<r> calls=<what every transfer was asked for>   (buf: offset+count; vec: addr+len,... | ...)
#include <photon/net/basic_socket.h>
#include <photon/common/iovector.h>
#include <iostream>
#include <sstream>
#include <vector>
#include <string>
#include <cstdio>
using namespace photon::net;

static std::vector<long> results(const std::string& s) { std::vector<long> v; std::istringstream is(s); std::string t; while (std::getline(is, t, ',')) if (!t.empty()) v.push_back(t == "e" ? -1 : atol(t.c_str())); return v; }

int main() {
    std::string line;
    while (std::getline(std::cin, line)) {
        std::istringstream is(line); std::string op, a, b; is >> op >> a >> b;
        auto rs = results(b); size_t k = 0; std::string log;
        if (op == "buf") {
            char* base = (char*)1000000; void* buf = base; size_t count = strtoul(a.c_str(), 0, 10);
            ssize_t r = doio_loop([&]() -> ssize_t {
                if (!log.empty()) log += ",";
                log += std::to_string((char*)buf - base) + "+" + std::to_string(count);
                return k < rs.size() ? rs[k++] : 0; }, BufStep(buf, count));
            printf("ret=%zd calls=%s\n", r, log.c_str());
        } else if (op == "vec") {
            std::vector<iovec> iov; { std::istringstream ls(a); std::string t; size_t i = 0; while (std::getline(ls, t, ',')) { iov.push_back({(void*)((i + 1) * 1000000), strtoul(t.c_str(), 0, 10)}); ++i; } }
            iovector_view view(iov.data(), (int)iov.size());
            ssize_t r = doio_loop([&]() -> ssize_t {
                if (!log.empty()) log += "|";
                for (int i = 0; i < view.iovcnt; ++i) { if (i) log += ","; log += std::to_string((size_t)view.iov[i].iov_base) + "+" + std::to_string(view.iov[i].iov_len); }
                return k < rs.size() ? rs[k++] : 0; }, BufStepV(view));
            printf("ret=%zd calls=%s\n", r, log.c_str());
        } else printf("bad-op\n");
        fflush(stdout);
    }
    return 0;
}
