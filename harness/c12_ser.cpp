// H-fun harness for C12: the real rpc::SerializerIOV / DeserializerIOV on three message types that together use every
// field kind (fixed fields, string, buffer, array, nested message, aligned buffer, iovec arrays, checksum, sorted_map).
//   schema                         -> one line per type: <T> B=<sizeof> fields=<kind:lenoff:aligned>,.. scalars=<off:size>,.. ptrs=<off>,.. crc=<off|->
//   ser <T> <scalars,..> <field hex>...        -> wire=<hex>        (iovec-array fields: pieces joined by '+')
//   des <T> <wire hex> <cuts>      -> null | ok f=<hex>;<hex>;.. s=<n>,<n>,.. [map=<key hex>:<null | a,c,b hex>|...]
//   crc <hex> <init>               -> <value>
// After a successful deserialize every byte of every field is read (ASan sees an out-of-bounds field), and for the
// sorted_map every index entry is anchored, its value deserialized, and find() is called.
#define private public
#include <photon/rpc/serialize.h>
#undef private
#include <photon/common/alog.h>
#include <photon/common/checksum/crc32c.h>
#include <cstdio>
#include <cstring>
#include <iostream>
#include <sstream>
#include <string>
#include <vector>
using namespace photon::rpc;
namespace pr = photon::rpc;

struct Inner : Message { int32_t a = 0; pr::string b; char c = 0; PROCESS_FIELDS(a, b, c); };
struct M1 : Message { uint64_t x = 0; pr::string s; Inner in; buffer b; array<uint32_t> arr; uint32_t y = 0; PROCESS_FIELDS(x, s, in, b, arr, y); };
struct M2 : CheckedMessage<> { uint64_t x = 0; aligned_buffer ab; pr::string s; iovec_array iv; aligned_iovec_array aiv; buffer b;
    PROCESS_FIELDS(x, ab, s, iv, aiv, b); };
struct M4 : Message { int32_t x = 0; sorted_map<pr::string, Inner> m; pr::string s; PROCESS_FIELDS(x, m, s); };

static std::vector<unsigned char> unhex(const std::string& s) {
    std::vector<unsigned char> v; if (s == "-") return v;
    for (size_t i = 0; i + 1 < s.size(); i += 2) v.push_back((unsigned char)strtoul(s.substr(i, 2).c_str(), 0, 16)); return v; }
static std::string hex(const void* q, size_t n) { auto p = (const unsigned char*)q; if (!n) return "-"; std::string r; char b[4]; for (size_t i = 0; i < n; ++i) { snprintf(b, sizeof b, "%02x", p[i]); r += b; } return r; }
static std::vector<std::string> split(const std::string& s, char c) { std::vector<std::string> v; std::istringstream is(s); std::string t; while (std::getline(is, t, c)) v.push_back(t); return v; }

template<class T, class F> static size_t off(const T& o, const F& f) { return (const char*)&f - (const char*)&o; }
static void schema() {
    // kinds: b = bytes claimed with a contiguous extract (length = _len), v = iovec array (claimed as a view, length = summed_size)
    { Inner o; printf("Inner B=%zu fields=b:%zu:0 scalars=%zu:4,%zu:1 ptrs=%zu crc=-\n", sizeof o, off(o, o.b._len), off(o, o.a), off(o, o.c), off(o, o.b._ptr)); }
    { M1 o; printf("M1 B=%zu fields=b:%zu:0,b:%zu:0,b:%zu:0,b:%zu:0 scalars=%zu:8,%zu:4,%zu:1,%zu:4 ptrs=%zu,%zu,%zu,%zu crc=-\n", sizeof o,
             off(o, o.s._len), off(o, o.in.b._len), off(o, o.b._len), off(o, o.arr._len), off(o, o.x), off(o, o.in.a), off(o, o.in.c), off(o, o.y),
             off(o, o.s._ptr), off(o, o.in.b._ptr), off(o, o.b._ptr), off(o, o.arr._ptr)); }
    { M2 o; printf("M2 B=%zu fields=b:%zu:1,b:%zu:0,v:%zu:0,v:%zu:1,b:%zu:0 scalars=%zu:8 ptrs=%zu,%zu,%zu,%zu,%zu,%zu,%zu crc=%zu\n", sizeof o,
             off(o, o.ab._len), off(o, o.s._len), off(o, o.iv.summed_size), off(o, o.aiv.summed_size), off(o, o.b._len), off(o, o.x),
             off(o, o.ab._ptr), off(o, o.s._ptr), off(o, o.iv._ptr), off(o, o.aiv._ptr), off(o, o.b._ptr), off(o, o.iv._len), off(o, o.aiv._len), off(o, o.m_checksum)); }
    { M4 o; printf("M4 B=%zu fields=b:%zu:0,b:%zu:0,b:%zu:0 scalars=%zu:4 ptrs=%zu,%zu,%zu crc=-\n", sizeof o,
             off(o, o.m.index._len), off(o, o.m.base_buffer._len), off(o, o.s._len), off(o, o.x), off(o, o.m.index._ptr), off(o, o.m.base_buffer._ptr), off(o, o.s._ptr)); }
}

// exact-size heap copies so that ASan sees every byte outside a field
struct Keep { std::vector<unsigned char*> blocks; ~Keep() { for (auto b : blocks) free(b); }
    unsigned char* dup(const std::vector<unsigned char>& d) { auto p = (unsigned char*)malloc(d.size() ? d.size() : 1); if (d.size()) memcpy(p, d.data(), d.size()); blocks.push_back(p); return p; } };

static void touch(const void* p, size_t n) { volatile unsigned char acc = 0; for (size_t i = 0; i < n; ++i) acc ^= ((const unsigned char*)p)[i]; (void)acc; }
static std::string show_buf(const buffer& b) { touch(b.addr(), b.size()); return hex(b.addr(), b.size()); }
static std::string show_iova(iovec_array& a) { std::string bytes; for (auto& v : a) { touch(v.iov_base, v.iov_len); bytes.append((const char*)v.iov_base, v.iov_len); } return hex(bytes.data(), bytes.size()); }
static std::string show_inner(Inner* t) { char b[64]; snprintf(b, sizeof b, "%u,%d,", (unsigned)t->a, (int)(unsigned char)t->c); return std::string(b) + show_buf(t->b); }

static std::string wire_of(SerializerIOV& s) { size_t n = s.iov.sum(); std::vector<unsigned char> w(n ? n : 1); s.iov.memcpy_to(w.data(), n); return hex(w.data(), n); }

static void do_ser(std::istringstream& is) {
    std::string T, sc; is >> T >> sc; auto S = split(sc, ','); std::vector<std::string> F; std::string t; while (is >> t) F.push_back(t);
    Keep k; SerializerIOV ser;
    auto B = [&](size_t i) { return unhex(i < F.size() ? F[i] : "-"); };
    auto N = [&](size_t i) { return i < S.size() ? strtoull(S[i].c_str(), 0, 10) : 0ULL; };
    if (T == "Inner") { Inner m; m.a = N(0); m.c = N(1); auto b = B(0); m.b.assign((const void*)k.dup(b), b.size()); ser.serialize(m); printf("wire=%s\n", wire_of(ser).c_str()); }
    else if (T == "M1") { M1 m; m.x = N(0); m.in.a = N(1); m.in.c = N(2); m.y = N(3);
        auto s = B(0), ib = B(1), b = B(2), a = B(3);
        m.s.assign((const void*)k.dup(s), s.size()); m.in.b.assign((const void*)k.dup(ib), ib.size()); m.b.assign(k.dup(b), b.size()); ((buffer&)m.arr).assign(k.dup(a), a.size());
        ser.serialize(m); printf("wire=%s\n", wire_of(ser).c_str()); }
    else if (T == "M2") { M2 m; m.x = N(0);
        auto ab = B(0), s = B(1), b = B(4); m.ab.assign(k.dup(ab), ab.size()); m.s.assign((const void*)k.dup(s), s.size()); m.b.assign(k.dup(b), b.size());
        std::vector<iovec> v1, v2;
        if (F.size() > 2 && F[2] != "-") for (auto& p : split(F[2], '+')) { auto d = unhex(p); v1.push_back({k.dup(d), d.size()}); }
        if (F.size() > 3 && F[3] != "-") for (auto& p : split(F[3], '+')) { auto d = unhex(p); v2.push_back({k.dup(d), d.size()}); }
        m.iv.assign(v1.data(), v1.size()); m.aiv.assign(v2.data(), v2.size());
        ser.serialize(m); printf("wire=%s\n", wire_of(ser).c_str()); }
    else if (T == "M4") { M4 m; m.x = N(0); auto s = B(0); m.s.assign((const void*)k.dup(s), s.size());
        // entries: key:a:c:b hex, separated by '/'
        sorted_map_factory<pr::string, Inner> f; std::vector<Inner> vals; std::vector<pr::string> keys;
        auto ents = F.size() > 1 && F[1] != "-" ? split(F[1], '/') : std::vector<std::string>();
        vals.reserve(ents.size()); keys.reserve(ents.size());
        for (auto& e : ents) { auto q = split(e, ':'); auto kb = unhex(q[0]); auto vb = unhex(q[3]);
            pr::string ks; ks.assign((const void*)k.dup(kb), kb.size()); keys.push_back(ks);
            Inner v; v.a = atoi(q[1].c_str()); v.c = atoi(q[2].c_str()); v.b.assign((const void*)k.dup(vb), vb.size()); vals.push_back(v);
            f.append(keys.back(), vals.back()); }
        f.assign_to(&m.m);
        ser.serialize(m); printf("wire=%s\n", wire_of(ser).c_str()); }
    else printf("bad-type\n");
}

static void do_des(std::istringstream& is) {
    std::string T, wh, cuts; is >> T >> wh >> cuts; auto w = unhex(wh);
    Keep k; IOVector in;
    std::vector<size_t> ls; if (cuts == "-") ls.push_back(w.size()); else for (auto& c : split(cuts, ',')) ls.push_back(strtoul(c.c_str(), 0, 10));
    size_t pos = 0;
    for (auto l : ls) { if (pos + l > w.size()) l = w.size() - pos; std::vector<unsigned char> piece(w.begin() + pos, w.begin() + pos + l); if (l) in.push_back(k.dup(piece), l); pos += l; }
    if (pos < w.size()) { std::vector<unsigned char> piece(w.begin() + pos, w.end()); in.push_back(k.dup(piece), piece.size()); }
    DeserializerIOV des;
    if (T == "Inner") { auto t = des.deserialize<Inner>(&in); if (!t) { printf("null\n"); return; } printf("ok f=%s s=%u,%d\n", show_buf(t->b).c_str(), (unsigned)t->a, (int)(unsigned char)t->c); }
    else if (T == "M1") { auto t = des.deserialize<M1>(&in); if (!t) { printf("null\n"); return; }
        printf("ok f=%s;%s;%s;%s s=%lu,%u,%d,%u\n", show_buf(t->s).c_str(), show_buf(t->in.b).c_str(), show_buf(t->b).c_str(), show_buf(t->arr).c_str(),
               (unsigned long)t->x, (unsigned)t->in.a, (int)(unsigned char)t->in.c, (unsigned)t->y); }
    else if (T == "M2") { auto t = des.deserialize<M2>(&in); if (!t) { printf("null\n"); return; }
        printf("ok f=%s;%s;%s;%s;%s s=%lu\n", show_buf(t->ab).c_str(), show_buf(t->s).c_str(), show_iova(t->iv).c_str(), show_iova(t->aiv).c_str(), show_buf(t->b).c_str(), (unsigned long)t->x); }
    else if (T == "M4") { auto t = des.deserialize<M4>(&in); if (!t) { printf("null\n"); return; }
        // the fields as claimed (nested value deserialization below rewrites pointer fields inside the base buffer in place)
        std::string f0 = show_buf(t->m.index), f1 = show_buf(t->m.base_buffer), f2 = show_buf(t->s);
        std::string map;
        size_t n = t->m.index.size();
        for (size_t i = 0; i < n; ++i) {
            auto& e = t->m.index[i];
            pr::string key = e.first | t->m.base_buffer, val = e.second | t->m.base_buffer;
            touch(key.addr(), key._len); touch(val.addr(), val._len);
            // deserialize a private copy: hostile slices may overlap, and deserialization rewrites pointer fields in place
            std::vector<unsigned char> vcopy((unsigned char*)val.addr(), (unsigned char*)val.addr() + val._len);
            IOVector vi; if (val._len) vi.push_back(k.dup(vcopy), val._len);
            DeserializerIOV d2; auto v = d2.deserialize<Inner>(&vi);
            if (i) map += "|";
            map += hex(key.addr(), key._len) + ":" + (v ? show_inner(v) : std::string("null"));
        }
        auto it = t->m.find(pr::string("k")); (void)it;      // binary search over the (possibly hostile) index: must stay in bounds
        for (auto i2 = t->m.begin(); i2 != t->m.end(); ++i2) { auto& pr2 = *i2; touch(pr2.first.addr(), pr2.first._len); }
        printf("ok f=%s;%s;%s s=%u map=%s\n", f0.c_str(), f1.c_str(), f2.c_str(), (unsigned)t->x, n ? map.c_str() : "-"); }
    else printf("bad-type\n");
}

int main() {
    set_log_output(log_output_null);
    std::string line;
    while (std::getline(std::cin, line)) {
        std::istringstream is(line); std::string op; is >> op;
        if (op == "schema") schema();
        else if (op == "ser") do_ser(is);
        else if (op == "des") do_des(is);
        else if (op == "crc") { std::string h; unsigned long init; is >> h >> init; auto d = unhex(h); printf("%u\n", crc32c_extend(d.data(), d.size(), (uint32_t)init)); }
        else printf("bad-op\n");
        fflush(stdout);
    }
    return 0;
}
