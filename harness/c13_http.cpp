// H-fun harness for C13: the real http::Request / http::Response header parser and body readers/writers over a
// scripted stream that delivers the message in the given fragments (one fragment per recv() at most).
//   req  <hex message> <cuts> <read sizes>          parse a request,  then read the body with the given read() sizes (cyclic)
//   resp <hex message> <cuts> <read sizes> [HEAD]   parse a response (optionally to a HEAD request)
//   wr chunked|len|none <piece sizes, '+' = writev of the next two> -> wire=<hex>   build a response with the library's writer
// output: rc=<receive_header rc> [start=<...> hdr=<k:v|...> body=<hex> end=<last read rc> recvs=<n> hend=<offset where the header was found to end>]
#define protected public
#define private public
#include <photon/net/http/message.h>
#include <photon/net/http/headers.h>
#undef protected
#undef private
#include <photon/net/socket.h>
#include <photon/common/alog.h>
#include <photon/common/iovector.h>
#include <cstdio>
#include <cstring>
#include <deque>
#include <unistd.h>
#include <iostream>
#include <sstream>
#include <string>
#include <vector>
using namespace photon;
using namespace photon::net;
using namespace photon::net::http;

static std::string unhex(const std::string& s) { std::string v; if (s == "-") return v;
    for (size_t i = 0; i + 1 < s.size(); i += 2) v.push_back((char)strtoul(s.substr(i, 2).c_str(), 0, 16)); return v; }
static std::string hex(const std::string& d) { if (d.empty()) return "-"; std::string r; char b[4]; for (unsigned char c : d) { snprintf(b, sizeof b, "%02x", c); r += b; } return r; }
static std::vector<size_t> nums(const std::string& s) { std::vector<size_t> v; if (s == "-") return v; std::istringstream is(s); std::string t; while (std::getline(is, t, ',')) v.push_back(strtoul(t.c_str(), 0, 10)); return v; }

static const long STEP_LIMIT = 100000;
struct FragStream : public ISocketStream {
    std::deque<std::string> frags; long recvs = 0; size_t delivered = 0; std::string written; bool closed = false;
    ssize_t recv(void* buf, size_t count, int = 0) override {
        if (++recvs > STEP_LIMIT) { printf("rc=LOOP\n"); fflush(stdout); _exit(3); }
        while (!frags.empty() && frags.front().empty()) frags.pop_front();
        if (frags.empty() || closed || count == 0) return 0;
        size_t n = std::min(count, frags.front().size());
        memcpy(buf, frags.front().data(), n); frags.front().erase(0, n); delivered += n;
        return n; }
    ssize_t recv(const struct iovec* iov, int cnt, int = 0) override { for (int i = 0; i < cnt; ++i) if (iov[i].iov_len) return recv(iov[i].iov_base, iov[i].iov_len); return 0; }
    ssize_t read(void* buf, size_t count) override { size_t got = 0; while (got < count) { ssize_t r = recv((char*)buf + got, count - got); if (r <= 0) break; got += r; } return got; }
    ssize_t readv(const struct iovec* iov, int cnt) override { ssize_t t = 0; for (int i = 0; i < cnt; ++i) { ssize_t r = read(iov[i].iov_base, iov[i].iov_len); t += r; if ((size_t)r < iov[i].iov_len) break; } return t; }
    ssize_t send(const void* buf, size_t count, int = 0) override { written.append((const char*)buf, count); return count; }
    ssize_t send(const struct iovec* iov, int cnt, int = 0) override { ssize_t t = 0; for (int i = 0; i < cnt; ++i) { written.append((const char*)iov[i].iov_base, iov[i].iov_len); t += iov[i].iov_len; } return t; }
    ssize_t write(const void* buf, size_t count) override { return send(buf, count); }
    ssize_t writev(const struct iovec* iov, int cnt) override { return send(iov, cnt); }
    ssize_t sendfile(int, off_t, size_t) override { return -1; }
    int close() override { closed = true; return 0; }
    uint64_t timeout() const override { return -1; } void timeout(uint64_t) override {}
    Object* get_underlay_object(uint64_t) override { return nullptr; }
    int setsockopt(int, int, const void*, socklen_t) override { return 0; } int getsockopt(int, int, void*, socklen_t*) override { return 0; }
    int getsockname(EndPoint&) override { return -1; } int getpeername(EndPoint&) override { return -1; }
    int getsockname(char*, size_t) override { return -1; } int getpeername(char*, size_t) override { return -1; }
};

static void load(FragStream& s, const std::string& msg, const std::string& cuts) {
    auto ls = nums(cuts); size_t pos = 0;
    for (auto l : ls) { if (pos >= msg.size()) break; if (l == 0) continue; l = std::min(l, msg.size() - pos); s.frags.push_back(msg.substr(pos, l)); pos += l; }
    if (pos < msg.size()) s.frags.push_back(msg.substr(pos));
}

static void read_body(Message& m, FragStream& s, const std::string& rs) {
    auto sizes = nums(rs); if (sizes.empty()) sizes.push_back(4096);
    std::string body; ssize_t last = 0; size_t i = 0;
    for (long step = 0; step < STEP_LIMIT; ++step) {
        size_t n = sizes[i++ % sizes.size()]; if (n == 0) n = 1;
        auto buf = (char*)malloc(n);               // exact size: ASan sees an overrun
        last = m.read(buf, n);
        if (last > 0) body.append(buf, last);
        free(buf);
        if (last <= 0) break;
        if (body.size() > (1u << 22)) { last = -99; break; }     // bytes from nowhere
    }
    printf(" body=%s end=%zd recvs=%ld", hex(body).c_str(), last, s.recvs);
}
static void print_headers(Message& m) {
    std::string h; bool first = true;
    for (auto it = m.headers.begin(); it != m.headers.end(); ++it) { if (!first) h += "|"; first = false; h += hex(std::string(it.first())) + ":" + hex(std::string(it.second())); }
    printf(" hdr=%s", first ? "-" : h.c_str());
}

int main() {
    set_log_output(log_output_null);
    std::string line;
    while (std::getline(std::cin, line)) {
        std::istringstream is(line); std::string op; is >> op;
        if (op == "req" || op == "resp") {
            std::string mh, cuts, rs, extra; is >> mh >> cuts >> rs >> extra;
            FragStream s; load(s, unhex(mh), cuts);
            const uint16_t cap = 32 * 1024;
            char* buf = (char*)malloc(cap); memset(buf, 0xAA, cap);     // no accidental NUL terminators behind the received bytes
            if (op == "req") {
                Request r(buf, cap); r.reset(&s, false);
                int rc = r.receive_header();
                size_t hend = rc == 0 ? s.delivered - r.partial_body().size() : 0;     // where the header was found to end, in bytes received
                printf("rc=%d", rc);
                if (rc == 0) { printf(" start=%s,%s,%s", hex(std::string(verbstr[r.verb()])).c_str(), hex(std::string(r.target())).c_str(), hex(std::string(r.version())).c_str()); print_headers(r); read_body(r, s, rs); printf(" hend=%zu", hend); }
                printf("\n");
            } else {
                Response r(buf, cap); r.reset(buf, cap, false, &s, false, extra == "HEAD" ? Verb::HEAD : Verb::GET);
                int rc = r.receive_header();
                size_t hend = rc == 0 ? s.delivered - r.partial_body().size() : 0;
                printf("rc=%d", rc);
                if (rc == 0) { printf(" start=%d,%s,%s", (int)r.status_code(), hex(std::string(r.status_message())).c_str(), hex(std::string(r.version())).c_str()); print_headers(r); read_body(r, s, rs); printf(" hend=%zu", hend); }
                printf("\n");
            }
            free(buf);
        } else if (op == "wr") {
            std::string mode, ps; is >> mode >> ps;
            FragStream s; const uint16_t cap = 32 * 1024; char* buf = (char*)malloc(cap);
            {
                Response r(buf, cap); r.reset(&s, false); r.set_result(200);
                size_t total = 0; { std::string acc; for (char c : ps + ",") { if (c == ',' || c == '+') { if (!acc.empty() && acc != "-") total += strtoul(acc.c_str(), 0, 10); acc.clear(); } else acc.push_back(c); } }
                if (mode == "chunked") r.headers.insert("Transfer-Encoding", "chunked"); else if (mode == "len") r.headers.content_length(total);
                r.keep_alive(mode != "none");
                unsigned char v = 1; size_t i = 0; bool bad = false;
                std::istringstream ts(ps == "-" ? "" : ps); std::string tk; std::vector<std::string> raw; while (std::getline(ts, tk, ',')) raw.push_back(tk);
                if (raw.empty()) { if (r.send() < 0) bad = true; }
                for (i = 0; i < raw.size() && !bad; ++i) {
                    // "a+b" = one writev of two pieces
                    auto plus = raw[i].find('+');
                    if (plus == std::string::npos) { size_t n = strtoul(raw[i].c_str(), 0, 10); std::string d; for (size_t j = 0; j < n; ++j) d.push_back((char)(v++ | 1));
                        auto p = (char*)malloc(n ? n : 1); memcpy(p, d.data(), n); if (r.write(p, n) != (ssize_t)n) bad = true; free(p); }
                    else { size_t a = strtoul(raw[i].substr(0, plus).c_str(), 0, 10), b = strtoul(raw[i].substr(plus + 1).c_str(), 0, 10);
                        std::string d1, d2; for (size_t j = 0; j < a; ++j) d1.push_back((char)(v++ | 1)); for (size_t j = 0; j < b; ++j) d2.push_back((char)(v++ | 1));
                        struct iovec iv[2] = {{(void*)d1.data(), a}, {(void*)d2.data(), b}}; if (r.writev(iv, 2) != (ssize_t)(a + b)) bad = true; }
                }
                if (!bad) r.m_body_stream.reset();      // closing a chunked writer emits the last chunk
                printf("%s wire=%s\n", bad ? "bad" : "ok", hex(s.written).c_str());
            }
            free(buf);
        } else printf("bad-op\n");
        fflush(stdout);
    }
    return 0;
}
