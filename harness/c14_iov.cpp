// H-fun harness for C14: real iovector_view / IOVector operations on registered buffers.
// Elements are printed as buf:off:len (pointers are translated back through the buffer registry).
#include <photon/common/iovector.h>
#include <photon/common/alog.h>
#include <cstdio>
#include <cstring>
#include <string>
#include <vector>
#include <map>
#include <iostream>
#include <sstream>

struct Buf { char* p; size_t n; };
static std::map<long, Buf> bufs;
struct V { iovec* arr = nullptr; int n = 0; iovector_view v;
    void set(const std::vector<iovec>& e) { free(arr); n = (int)e.size(); arr = (iovec*)malloc(n * sizeof(iovec)); // exact size: malloc(0) is a valid 0-byte block under ASan
        if (n) memcpy(arr, e.data(), n * sizeof(iovec)); v = iovector_view(arr, n); } };
static std::map<long, V> views;

static unsigned char content(long b, size_t o) { return (unsigned char)((b * 37 + o * 11 + 5) % 251); }

static std::string showE(const iovec& e) {
    for (auto& kv : bufs) {
        auto& b = kv.second;
        if ((char*)e.iov_base >= b.p && (char*)e.iov_base <= b.p + b.n) {
            char s[96]; snprintf(s, sizeof s, "%ld:%zu:%zu", kv.first, (size_t)((char*)e.iov_base - b.p), e.iov_len);
            return s;
        }
    }
    char s[96]; snprintf(s, sizeof s, "?:%p:%zu", e.iov_base, e.iov_len); return s;
}
static std::string showV(const iovec* iov, int n) {
    if (n <= 0) return "-";
    std::string r;
    for (int i = 0; i < n; ++i) { if (i) r += " "; r += showE(iov[i]); }
    return r;
}
static std::string showV(const iovector_view& v) { return showV(v.iov, v.iovcnt); }
static std::string hex(const unsigned char* p, size_t n) {
    if (n == 0) return "-";
    static const char* d = "0123456789abcdef"; std::string r;
    for (size_t i = 0; i < n; ++i) { r += d[p[i] >> 4]; r += d[p[i] & 15]; }
    return r;
}
static std::string flat(const iovector_view& v) {
    std::string r;
    for (int i = 0; i < v.iovcnt; ++i) r += (v.iov[i].iov_len ? hex((unsigned char*)v.iov[i].iov_base, v.iov[i].iov_len) : "");
    return r.empty() ? "-" : r;
}
static bool parseE(const std::string& t, iovec& e) {
    long b; size_t o, l;
    if (sscanf(t.c_str(), "%ld:%zu:%zu", &b, &o, &l) != 3) return false;
    auto it = bufs.find(b); if (it == bufs.end()) return false;
    e.iov_base = it->second.p + o; e.iov_len = l; return true;
}
// exact-size scratch buffer filled with 0xEE
struct Scratch { unsigned char* p; size_t n; Scratch(size_t n) : p((unsigned char*)malloc(n)), n(n) { memset(p, 0xEE, n); } ~Scratch() { free(p); } };

int main() {
    set_log_output(log_output_null);
    std::string line;
    while (std::getline(std::cin, line)) {
        std::istringstream is(line); std::vector<std::string> t; std::string w;
        while (is >> w) t.push_back(w);
        if (t.empty()) { puts("bad-op"); continue; }
        auto& op = t[0];
        if (op == "buf" && t.size() == 3) {
            long b = atol(t[1].c_str()); size_t n = strtoull(t[2].c_str(), 0, 10);
            Buf x{(char*)malloc(n), n};
            for (size_t i = 0; i < n; ++i) x.p[i] = (char)content(b, i);
            bufs[b] = x; puts("ok"); continue;
        }
        if (op == "new" && t.size() >= 3) {
            long id = atol(t[1].c_str()); V& x = views[id]; std::vector<iovec> es; bool ok = true;
            if (!(t.size() == 3 && t[2] == "-"))
                for (size_t i = 2; i < t.size(); ++i) { iovec e; if (!parseE(t[i], e)) { ok = false; break; } es.push_back(e); }
            if (!ok) { puts("bad-op"); continue; }
            x.set(es); puts("ok"); continue;
        }
        if (t.size() < 2) { puts("bad-op"); continue; }
        long id = atol(t[1].c_str());
        if (!views.count(id)) { puts("bad-op"); continue; }
        iovector_view& v = views[id].v;
        size_t n = t.size() > 2 ? strtoull(t[2].c_str(), 0, 10) : 0;
        size_t k = t.size() > 3 ? strtoull(t[3].c_str(), 0, 10) : 0;
        char out[64];
        std::string r;
        if (op == "show") r = showV(v);
        else if (op == "flat") r = flat(v);
        else if (op == "sum") r = std::to_string(v.sum());
        else if (op == "shrink_to") { auto x = v.shrink_to(n); r = std::to_string(x) + " | " + showV(v); }
        else if (op == "shrink_lt") { auto x = v.shrink_less_than(n); r = std::to_string(x) + " | " + showV(v); }
        else if (op == "xfront") { auto x = v.extract_front(n); r = std::to_string(x) + " | " + showV(v); }
        else if (op == "xback") { auto x = v.extract_back(n); r = std::to_string(x) + " | " + showV(v); }
        else if (op == "xfront_buf") { Scratch s(n); auto x = v.extract_front(n, s.p); r = std::to_string(x) + " | " + showV(v) + " | " + hex(s.p, n); }
        else if (op == "xback_buf") { Scratch s(n); auto x = v.extract_back(n, s.p); r = std::to_string(x) + " | " + showV(v) + " | " + hex(s.p, n); }
        else if (op == "xfc") { auto p = v.extract_front_continuous(n); iovec e{p, n}; r = (p ? showE(e) : std::string("null")) + " | " + showV(v); }
        else if (op == "xbc") { auto p = v.extract_back_continuous(n); iovec e{p, n}; r = (p ? showE(e) : std::string("null")) + " | " + showV(v); }
        else if (op == "oxfc" || op == "oxbc") {
            if (v.iovcnt > 27) { puts("skip"); continue; }
            IOVector io(v.iov, v.iovcnt);
            void* p = (op == "oxfc") ? io.extract_front_continuous(n) : io.extract_back_continuous(n);
            iovec e{p, n};
            std::string es = p ? showE(e) : "";
            if (!p) r = "null";
            else if (es[0] == '?') r = "copied " + hex((unsigned char*)p, n);
            else r = "direct " + es;
            // write the remaining elements back
            views[id].set(std::vector<iovec>(io.iovec(), io.iovec() + io.iovcnt()));
            r += " | " + showV(v);
        }
        else if (op == "memcpy_to_buf") { Scratch s(n); auto x = v.memcpy_to(s.p, n); r = std::to_string(x) + " | " + hex(s.p, n); }
        else if (op == "memcpy_from_buf") {
            Scratch s(n); for (size_t i = 0; i < n; ++i) s.p[i] = (unsigned char)((i * 7 + 3) % 256);
            auto x = v.memcpy_from(s.p, n); r = std::to_string(x) + " | " + flat(v);
        }
        else if (op == "pipe_to_buf") { Scratch s(n); auto x = v.pipe_to(s.p, n); r = std::to_string(x) + " | " + showV(v) + " | " + hex(s.p, n); }
        else if (op == "xfront_view" || op == "xback_view") {
            iovec* slots = (iovec*)malloc(k * sizeof(iovec));
            iovector_view o(slots, (int)k);
            ssize_t x = (op == "xfront_view") ? v.extract_front(n, &o) : v.extract_back(n, &o);
            snprintf(out, sizeof out, "%zd", x);
            r = std::string(out) + " | " + showV(v) + " | " + showV(o);
            free(slots);
        }
        else if (op == "memcpy_v" || op == "pipe_v") {
            if (!views.count((long)n)) { puts("bad-op"); continue; }
            iovector_view& sv = views[(long)n].v;
            if (op == "memcpy_v") { auto x = v.memcpy_from(&sv, k); r = std::to_string(x) + " | " + flat(v); }
            else { auto x = v.pipe_from(&sv, k); r = std::to_string(x) + " | " + showV(sv) + " | " + flat(v); }
        }
        else if (op == "slice" && t.size() == 5) {
            size_t off = k, slots_n = strtoull(t[4].c_str(), 0, 10);
            iovec* slots = (iovec*)malloc(slots_n * sizeof(iovec));
            iovector_view o(slots, (int)slots_n);
            ssize_t x = v.slice(n, (off_t)off, &o);
            if (x < 0) r = "-1";
            else { snprintf(out, sizeof out, "%zd", x); r = std::string(out) + " | " + showV(o); }
            free(slots);
        }
        else r = "bad-op";
        puts(r.c_str());
    }
    return 0;
}
