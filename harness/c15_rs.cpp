// H-fun harness for C15: runs the real fs/range-split.h / range-split-vi.h on op lines.
#include <photon/fs/range-split.h>
#include <photon/fs/range-split-vi.h>
#include <cstdio>
#include <cstring>
#include <string>
#include <vector>
#include <sstream>
#include <iostream>
using namespace photon::fs;
static const uint64_t GUARD = 10000;

static std::string show(const sub_range& s) {
    char b[96]; snprintf(b, sizeof b, "%lu:%lu:%lu", s.i, s.offset, s.length); return b;
}
template<class RS>
static std::string run(RS& rs) {
    std::string out = "parts ";
    {   // all_parts, guarded
        uint64_t n = 0; std::string acc; bool many = false;
        for (auto& x : rs.all_parts()) {
            if (++n > GUARD) { many = true; break; }
            acc += " " + show(x);
        }
        out += many ? std::string("toomany") : (std::to_string(n) + acc);
    }
    out += " | sn " + show(rs.small_note) + " pre " + show(rs.preface) + " first " + show(rs.first) +
           " post " + show(rs.postface);
    char b[256];
    snprintf(b, sizeof b, " | a %lu %lu %lu %lu %lu %lu | ap ", rs.abegin, rs.aend, rs.apbegin,
             rs.apend, rs.begin_remainder, rs.end_remainder);
    out += b;
    {
        uint64_t n = 0; std::string acc; bool many = false;
        for (auto& x : rs.aligned_parts()) {
            if (++n > GUARD) { many = true; break; }
            acc += " " + show(x);
        }
        out += many ? std::string("toomany") : (std::to_string(n) + acc);
    }
    snprintf(b, sizeof b, " | abo %lu aeo %lu", rs.aligned_begin_offset(), rs.aligned_end_offset());
    out += b;
    return out;
}
int main() {
    std::string line;
    while (std::getline(std::cin, line)) {
        std::istringstream is(line); std::string kind; is >> kind;
        uint64_t o, l;
        if (kind == "fixed") { uint64_t iv; is >> o >> l >> iv; range_split rs(o, l, iv); puts(run(rs).c_str()); }
        else if (kind == "pow2") { uint64_t k; is >> o >> l >> k; range_split_power2 rs(o, l, 1ULL << k); puts(run(rs).c_str()); }
        else if (kind == "vi") { is >> o >> l; std::vector<uint64_t> kp; uint64_t x; while (is >> x) kp.push_back(x);
            size_t n = kp.size(); kp.push_back(0); kp.push_back(0); // sentinels: the iterators' constructors read get_length(n-1) (value unused)
            range_split_vi rs(o, l, kp.data(), n); puts(run(rs).c_str()); }
        else puts("bad-op");
    }
    return 0;
}
