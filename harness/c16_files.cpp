// H-fun harness for C16: the real alignment adaptor and the linear / stripe composers over in-memory recording files.
//   new aligned <A> <align_memory 0|1> <hex>          new linear <U> <hex>...      new vlinear <hex>...     new stripe <S> <hex>...
//   pread <off> <len> | pwrite <off> <hex> | preadv <off> <len> <cuts> | pwritev <off> <hex> <cuts>
// (cuts: comma separated lengths of the iovec elements, 0 allowed; "-" = one element)
// output per op:  r=<ret> data=<hex> files=<hex>|<hex>... log=<k f off len;...> mem=<ok|BAD>
#include <photon/fs/filesystem.h>
#include <photon/fs/virtual-file.h>
#include <photon/fs/aligned-file.h>
#include <photon/fs/xfile.h>
#include <photon/common/alog.h>
#include <sys/stat.h>
#include <sys/uio.h>
#include <cstdio>
#include <cstring>
#include <iostream>
#include <sstream>
#include <string>
#include <vector>
using namespace photon::fs;

static std::string logs;
static bool mem_bad = false;
static uint32_t need_align = 0;     // when set: every buffer handed to the underlay must be aligned to it
static void chk(const void* p, size_t len) { if (need_align && len && ((uintptr_t)p % need_align)) mem_bad = true; }

struct MemFile : public VirtualFile {
    int id; std::vector<unsigned char> d; bool fixed = false;
    void note(char k, off_t off, size_t len) { char b[96]; snprintf(b, sizeof b, "%c:%d:%ld:%zu;", k, id, (long)off, len); logs += b; }
    ssize_t do_read(void* buf, size_t count, off_t offset) {
        if (offset < 0) return -1; if ((size_t)offset >= d.size()) return 0;
        size_t n = std::min(count, d.size() - (size_t)offset); if (n) memcpy(buf, d.data() + offset, n); return n; }
    ssize_t do_write(const void* buf, size_t count, off_t offset) {
        if (offset < 0) return -1;
        if (fixed && (size_t)offset + count > d.size()) { if ((size_t)offset >= d.size()) return 0; count = d.size() - offset; }
        if ((size_t)offset + count > d.size()) d.resize(offset + count, 0);
        if (count) memcpy(d.data() + offset, buf, count); return count; }
    ssize_t pread(void* buf, size_t count, off_t offset) override { note('r', offset, count); chk(buf, count); return do_read(buf, count, offset); }
    ssize_t pwrite(const void* buf, size_t count, off_t offset) override { note('w', offset, count); chk(buf, count); return do_write(buf, count, offset); }
    ssize_t preadv(const struct iovec* iov, int cnt, off_t offset) override {
        size_t total = 0; for (int i = 0; i < cnt; ++i) { total += iov[i].iov_len; chk(iov[i].iov_base, iov[i].iov_len); }
        note('r', offset, total);
        ssize_t done = 0;
        for (int i = 0; i < cnt; ++i) { ssize_t r = do_read(iov[i].iov_base, iov[i].iov_len, offset + done); if (r < 0) return -1; done += r; if ((size_t)r < iov[i].iov_len) break; }
        return done; }
    ssize_t pwritev(const struct iovec* iov, int cnt, off_t offset) override {
        size_t total = 0; for (int i = 0; i < cnt; ++i) { total += iov[i].iov_len; chk(iov[i].iov_base, iov[i].iov_len); }
        note('w', offset, total);
        ssize_t done = 0;
        for (int i = 0; i < cnt; ++i) { ssize_t r = do_write(iov[i].iov_base, iov[i].iov_len, offset + done); if (r < 0) return -1; done += r; if ((size_t)r < iov[i].iov_len) break; }
        return done; }
    int fstat(struct stat* st) override { memset(st, 0, sizeof(*st)); st->st_size = d.size(); return 0; }
    int ftruncate(off_t len) override { note('t', len, 0); d.resize(len, 0); return 0; }
    int close() override { return 0; } int fsync() override { return 0; } int fdatasync() override { return 0; }
    int fchmod(mode_t) override { return 0; } int fchown(uid_t, gid_t) override { return 0; }
    IFileSystem* filesystem() override { return nullptr; }
};

static std::vector<unsigned char> unhex(const std::string& s) {
    std::vector<unsigned char> v; if (s == "-") return v;
    for (size_t i = 0; i + 1 < s.size(); i += 2) v.push_back((unsigned char)strtoul(s.substr(i, 2).c_str(), 0, 16)); return v; }
static std::string hex(const unsigned char* p, size_t n) { if (!n) return "-"; std::string r; char b[4]; for (size_t i = 0; i < n; ++i) { snprintf(b, sizeof b, "%02x", p[i]); r += b; } return r; }

static std::vector<MemFile*> subs; static IFile* top = nullptr;
static std::string files_hex() { std::string r; for (size_t i = 0; i < subs.size(); ++i) { if (i) r += "|"; r += hex(subs[i]->d.data(), subs[i]->d.size()); } return r; }
static uint32_t cur_A = 1;
// user buffer of n bytes: aligned to the adaptor's alignment ('a') or deliberately misaligned ('u'); exact size for ASan
struct UBuf { unsigned char* raw; unsigned char* p;
    UBuf(size_t n, bool aligned) { size_t a = cur_A < sizeof(void*) ? sizeof(void*) : cur_A; size_t sz = n + (aligned ? 0 : 1); if (posix_memalign((void**)&raw, a, sz ? sz : 1)) abort(); p = aligned ? raw : raw + 1; }
    ~UBuf() { free(raw); } };
// iovec elements carved out of separately malloc'ed blocks (exact sizes, so that ASan sees every overrun)
struct Pieces { std::vector<iovec> v; std::vector<unsigned char*> blocks; bool aligned = false;
    ~Pieces() { for (auto b : blocks) free(b); }
    void build(size_t len, const std::string& cuts, const unsigned char* src) {
        std::vector<size_t> ls; if (cuts == "-") ls.push_back(len); else { std::istringstream is(cuts); std::string t; while (std::getline(is, t, ',')) ls.push_back(strtoul(t.c_str(), 0, 10)); }
        size_t pos = 0;
        for (auto l : ls) { size_t a = cur_A < sizeof(void*) ? sizeof(void*) : cur_A; unsigned char* raw; size_t sz = l + (aligned ? 0 : 1); if (posix_memalign((void**)&raw, a, sz ? sz : 1)) abort(); blocks.push_back(raw);
            auto b = aligned ? raw : raw + 1; if (src && l) memcpy(b, src + pos, l); else if (l) memset(b, 0xEE, l); v.push_back({b, l}); pos += l; } }
    std::string gather(size_t n) { std::vector<unsigned char> o; for (auto& e : v) for (size_t i = 0; i < e.iov_len && o.size() < n; ++i) o.push_back(((unsigned char*)e.iov_base)[i]); return hex(o.data(), o.size()); } };

int main() {
    set_log_output(log_output_null);
    std::string line;
    while (std::getline(std::cin, line)) {
        std::istringstream is(line); std::string op; is >> op;
        logs.clear(); mem_bad = false;
        if (op == "new") {
            if (top) { delete top; top = nullptr; } for (auto m : subs) delete m; subs.clear(); need_align = 0;
            std::string kind; is >> kind; uint64_t p = 0; int am = 0;
            if (kind == "aligned") is >> p >> am; else if (kind != "vlinear") is >> p;
            std::string h; while (is >> h) { auto m = new MemFile; m->id = subs.size(); m->d = unhex(h); m->fixed = kind != "aligned"; subs.push_back(m); }
            std::vector<IFile*> fs(subs.begin(), subs.end());
            cur_A = 1;
            if (kind == "aligned") { top = new_aligned_file_adaptor(subs[0], p, am, false); if (am) need_align = p; cur_A = p; }
            else if (kind == "linear") top = new_fixed_size_linear_file(p, fs.data(), fs.size());
            else if (kind == "vlinear") top = new_linear_file(fs.data(), fs.size());
            else if (kind == "stripe") top = new_stripe_file(p, fs.data(), fs.size());
            printf("%s\n", top ? "ok" : "null"); fflush(stdout); continue;
        }
        if (!top) { printf("nofile\n"); fflush(stdout); continue; }
        long off; is >> off; ssize_t r = -2; std::string data = "-";
        std::string fl;
        if (op == "pread") { size_t len; is >> len >> fl; UBuf b(len, fl == "a"); if (len) memset(b.p, 0xEE, len);
            r = top->pread(b.p, len, off); if (r > 0) data = hex(b.p, r); }
        else if (op == "pwrite") { std::string h; is >> h >> fl; auto d = unhex(h); UBuf b(d.size(), fl == "a"); if (d.size()) memcpy(b.p, d.data(), d.size());
            r = top->pwrite(b.p, d.size(), off); }
        else if (op == "preadv") { size_t len; std::string cuts; is >> len >> cuts >> fl; Pieces p; p.aligned = fl == "a"; p.build(len, cuts, nullptr);
            r = top->preadv(p.v.data(), p.v.size(), off); if (r > 0) data = p.gather(r); }
        else if (op == "pwritev") { std::string h, cuts; is >> h >> cuts >> fl; auto d = unhex(h); Pieces p; p.aligned = fl == "a"; p.build(d.size(), cuts, d.data());
            r = top->pwritev(p.v.data(), p.v.size(), off); }
        printf("r=%zd data=%s files=%s log=%s mem=%s\n", r, data.c_str(), files_hex().c_str(), logs.empty() ? "-" : logs.c_str(), mem_bad ? "BAD" : "ok");
        fflush(stdout);
    }
    return 0;
}
