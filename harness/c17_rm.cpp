// H-fun harness for C17 part 1: the real RangeModule (fs/cache/full_file_cache/range_module.h)
//   add <l> <r> | remove <l> <r> | removefrom <o> | clear | query <l> <r>      -> q=<l>:<r> iv=<lo>:<hi>,...
#include <limits>
#define private public
#include "fs/cache/full_file_cache/range_module.h"
#undef private
#include <cstdio>
#include <iostream>
#include <sstream>
#include <string>
int main() {
    photon::fs::RangeModule rm; std::string line;
    while (std::getline(std::cin, line)) {
        std::istringstream is(line); std::string op; is >> op; long l = 0, r = 0; std::pair<off_t, off_t> q{0, 0};
        if (op == "add") { is >> l >> r; rm.addRange(l, r); }
        else if (op == "remove") { is >> l >> r; rm.removeRange(l, r); }
        else if (op == "removefrom") { is >> l; rm.removeFrom(l); }
        else if (op == "clear") rm.clear();
        else if (op == "query") { is >> l >> r; q = rm.queryRefillRange(l, r); }
        std::string iv; for (auto& kv : rm.intervals) { if (!iv.empty()) iv += ","; iv += std::to_string(kv.first) + ":" + std::to_string(kv.second); }
        printf("q=%ld:%ld iv=%s\n", (long)q.first, (long)q.second, iv.empty() ? "-" : iv.c_str());
        fflush(stdout);
    }
    return 0;
}
