// H-sim harness for C18: the real RangeLock driven by logical threads (photon threads, one vCPU).
#define protected public
#include <photon/common/range-lock.h>
#undef protected
#include <photon/photon.h>
#include <photon/thread/thread.h>
#include <photon/thread/thread11.h>
#include <photon/common/alog.h>
#include <cstdio>
#include <string>
#include <vector>
#include <map>
#include <iostream>
#include <sstream>
#include <algorithm>

struct Worker {
    photon::semaphore cmd{0};
    int op = 0;               // 1 lock(v2) 2 trylock(v1) 0 none  -1 quit
    uint64_t off = 0, len = 0;
    bool busy = false, woken = false, acquired = false;
    RangeLock::LockHandle* h = nullptr;
    uint64_t coff = 0, clen = 0;
    photon::join_handle* jh = nullptr;
};
static RangeLock* RL;
static std::map<int, Worker*> workers;
static std::map<void*, long> ids;     // set node -> id
static long next_id = 0;

static void* node_of(std::set<RangeLock::Range>::iterator it) { return *(void**)&it; }

static void worker_main(Worker* w) {
    while (true) {
        w->cmd.wait(1);
        if (w->op < 0) return;
        w->acquired = false; w->woken = false; w->h = nullptr;
        if (w->op == 1) {
            auto h = RL->try_lock_wait2(w->off, w->len);
            if (h) { w->acquired = true; w->h = h; } else w->woken = true;
        } else {
            w->coff = w->off; w->clen = w->len;
            int r = RL->try_lock_wait(w->coff, w->clen);
            if (r == 0) w->acquired = true; else w->woken = true;
        }
        w->busy = false;
    }
}
static void settle() { for (int i = 0; i < 12; ++i) photon::thread_yield(); }
static void assign_new_ids() {
    for (auto it = RL->m_index.begin(); it != RL->m_index.end(); ++it)
        if (!ids.count(node_of(it))) ids[node_of(it)] = next_id++;
}
static std::string show_index() {
    std::string r = " | index";
    // drop ids of erased nodes
    std::map<void*, long> live;
    for (auto it = RL->m_index.begin(); it != RL->m_index.end(); ++it) {
        auto f = ids.find(node_of(it));
        long id = f == ids.end() ? -1 : f->second;
        live[node_of(it)] = id;
        char b[96]; snprintf(b, sizeof b, " %ld:%lu:%lu", id, (unsigned long)it->offset, (unsigned long)it->length);
        r += b;
    }
    ids.swap(live);
    return r;
}
static void* node_by_id(long id) { for (auto& kv : ids) if (kv.second == id) return kv.first; return nullptr; }

int main() {
    set_log_output(log_output_null);
    photon::init(photon::INIT_EVENT_DEFAULT, photon::INIT_IO_NONE);
    RL = new RangeLock;
    std::string line;
    while (std::getline(std::cin, line)) {
        std::istringstream is(line); std::string op; is >> op;
        std::string out;
        // who is parked before the command (to report who got woken by it)
        auto parked_before = [&]() { std::vector<int> v; for (auto& kv : workers) if (kv.second->busy) v.push_back(kv.first); return v; }();
        if (op == "reset") {
            for (auto& kv : workers) { if (kv.second->busy) { /* leak a parked worker: it is woken when RL dies */ } }
            // unlock everything so parked workers finish, then quit them
            while (!RL->m_index.empty()) { auto it = RL->m_index.begin(); RL->unlock(RL->__reinterpret_cast<RangeLock::LockHandle*>(it)); settle(); }
            for (auto& kv : workers) { kv.second->op = -1; kv.second->cmd.signal(1); }
            settle();
            for (auto& kv : workers) { photon::thread_join(kv.second->jh); delete kv.second; }
            workers.clear(); ids.clear(); next_id = 0; delete RL; RL = new RangeLock;
            puts("ok"); continue;
        }
        if (op == "lock" || op == "trylock") {
            int t; uint64_t off, len; is >> t >> off >> len;
            auto& w = workers[t];
            if (!w) { w = new Worker; w->jh = photon::thread_enable_join(photon::thread_create11(worker_main, w)); settle(); }
            if (w->busy) { puts("bad-op busy"); continue; }
            w->op = (op == "lock") ? 1 : 2; w->off = off; w->len = len; w->busy = true; w->cmd.signal(1);
            settle();
            if (!w->busy && w->acquired) { assign_new_ids();
                long id = -1;
                if (w->h) id = ids[*(void**)&w->h];
                else { id = next_id - 1; }
                out = "acq " + std::to_string(id);
            } else if (w->busy) {
                // parked: find the conflicting element = the one whose cond has a waiter... report via model-independent means: the conflict range for v1
                if (op == "trylock") out = "parked " + std::to_string(w->coff) + " " + std::to_string(w->clen);
                else out = "parked";
            } else out = "failed-immediately";
        } else if (op == "unlock") {
            long id; is >> id; void* n = node_by_id(id);
            if (!n) { puts("bad-op no such handle"); continue; }
            RL->unlock((RangeLock::LockHandle*)n); settle(); out = "ok";
        } else if (op == "unlockr") {
            uint64_t off, len; is >> off >> len; RL->unlock(off, len); settle(); out = "ok";
        } else if (op == "adjust") {
            long id; uint64_t off, len; is >> id >> off >> len; void* n = node_by_id(id);
            if (!n) { puts("bad-op no such handle"); continue; }
            int r = RL->adjust_range((RangeLock::LockHandle*)n, off, len); settle(); out = std::to_string(r);
        } else { puts("bad-op"); continue; }
        std::string wk;
        for (int t : parked_before) if (!workers[t]->busy) wk += " " + std::to_string(t);
        out += " | woken" + wk + show_index();
        puts(out.c_str());
    }
    return 0;
}
