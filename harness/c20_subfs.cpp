// H-fun harness for C20: every path-taking operation of a real SubFileSystem over a recording fs.
// line:  cat <base> p:<path>   ->  "reject all" | "fwd <q> all" | "... except <op>=<what>,..."
#include <photon/fs/filesystem.h>
#include <photon/fs/subfs.h>
#include <photon/common/alog.h>
#include <sys/stat.h>
#include <sys/statfs.h>
#include <sys/statvfs.h>
#include <sys/time.h>
#include <utime.h>
#include <cstdio>
#include <cstring>
#include <string>
#include <vector>
#include <map>
#include <iostream>
#include <sstream>
using namespace photon::fs;

static std::vector<std::string> seen;     // what the underlying fs received ("<null>" for nullptr)
static void rec(const char* p) { seen.push_back(p ? std::string("fwd ") + p : std::string("reject")); }

struct RecFS : public IFileSystem, public IFileSystemXAttr {
    IFile* open(const char* p, int) override { rec(p); return nullptr; }
    IFile* open(const char* p, int, mode_t) override { rec(p); return nullptr; }
    IFile* creat(const char* p, mode_t) override { rec(p); return nullptr; }
    int mkdir(const char* p, mode_t) override { rec(p); return 0; }
    int rmdir(const char* p) override { rec(p); return 0; }
    int symlink(const char* o, const char* n) override { rec(n); (void)o; return 0; }
    ssize_t readlink(const char* p, char*, size_t) override { rec(p); return 0; }
    int link(const char* o, const char* n) override { rec(o); rec(n); return 0; }
    int rename(const char* o, const char* n) override { rec(o); rec(n); return 0; }
    int unlink(const char* p) override { rec(p); return 0; }
    int chmod(const char* p, mode_t) override { rec(p); return 0; }
    int chown(const char* p, uid_t, gid_t) override { rec(p); return 0; }
    int lchown(const char* p, uid_t, gid_t) override { rec(p); return 0; }
    int statfs(const char* p, struct statfs*) override { rec(p); return 0; }
    int statvfs(const char* p, struct statvfs*) override { rec(p); return 0; }
    int stat(const char* p, struct stat* st) override { rec(p); if (st) { memset(st, 0, sizeof *st); st->st_mode = S_IFDIR | 0755; } return 0; }
    int lstat(const char* p, struct stat*) override { rec(p); return 0; }
    int access(const char* p, int) override { rec(p); return 0; }
    int truncate(const char* p, off_t) override { rec(p); return 0; }
    int utime(const char* p, const struct utimbuf*) override { rec(p); return 0; }
    int utimes(const char* p, const struct timeval[2]) override { rec(p); return 0; }
    int lutimes(const char* p, const struct timeval[2]) override { rec(p); return 0; }
    int mknod(const char* p, mode_t, dev_t) override { rec(p); return 0; }
    int syncfs() override { return 0; }
    DIR* opendir(const char* p) override { rec(p); return nullptr; }
    ssize_t getxattr(const char* p, const char*, void*, size_t) override { rec(p); return 0; }
    ssize_t lgetxattr(const char* p, const char*, void*, size_t) override { rec(p); return 0; }
    ssize_t listxattr(const char* p, char*, size_t) override { rec(p); return 0; }
    ssize_t llistxattr(const char* p, char*, size_t) override { rec(p); return 0; }
    int setxattr(const char* p, const char*, const void*, size_t, int) override { rec(p); return 0; }
    int lsetxattr(const char* p, const char*, const void*, size_t, int) override { rec(p); return 0; }
    int removexattr(const char* p, const char*) override { rec(p); return 0; }
    int lremovexattr(const char* p, const char*) override { rec(p); return 0; }
};

int main() {
    set_log_output(log_output_null);
    RecFS rfs;
    std::map<std::string, IFileSystem*> subs;
    std::string line;
    const char* OTHER = "zz_other";   // the second operand when testing one operand of a two-path op
    while (std::getline(std::cin, line)) {
        std::istringstream is(line); std::string kind, base, pp; is >> kind >> base >> pp;
        if (kind != "cat" || pp.compare(0, 2, "p:") != 0) { puts("bad-op"); continue; }
        std::string path = pp.substr(2);
        auto& sfs = subs[base];
        if (!sfs) { sfs = new_subfs(&rfs, base.c_str(), false); if (!sfs) { puts("init-failed"); continue; } }
        auto xfs = dynamic_cast<IFileSystemXAttr*>(sfs);
        const char* p = path.c_str();
        struct stat st; struct statfs sf; struct statvfs sv; char buf[16]; struct timeval tv[2] = {};
        // (op name, result) — for two-path ops each operand position separately
        std::vector<std::pair<std::string, std::string>> res;
        auto one = [&](const char* name, size_t idx = 0) { res.push_back({name, idx < seen.size() ? seen[idx] : "none"}); seen.clear(); };
        seen.clear();
        sfs->open(p, 0); one("open2");
        sfs->open(p, 0, 0644); one("open3");
        sfs->creat(p, 0644); one("creat");
        sfs->mkdir(p, 0755); one("mkdir");
        sfs->rmdir(p); one("rmdir");
        sfs->symlink("content", p); one("symlink.new");
        sfs->readlink(p, buf, sizeof buf); one("readlink");
        sfs->link(p, OTHER); one("link.old", 0);
        sfs->link(OTHER, p); one("link.new", 1);
        sfs->rename(p, OTHER); one("rename.old", 0);
        sfs->rename(OTHER, p); one("rename.new", 1);
        sfs->unlink(p); one("unlink");
        sfs->chmod(p, 0644); one("chmod");
        sfs->chown(p, 0, 0); one("chown");
        sfs->lchown(p, 0, 0); one("lchown");
        sfs->statfs(p, &sf); one("statfs");
        sfs->statvfs(p, &sv); one("statvfs");
        sfs->stat(p, &st); one("stat");
        sfs->lstat(p, &st); one("lstat");
        sfs->access(p, 0); one("access");
        sfs->truncate(p, 0); one("truncate");
        sfs->utime(p, nullptr); one("utime");
        sfs->utimes(p, tv); one("utimes");
        sfs->lutimes(p, tv); one("lutimes");
        sfs->mknod(p, 0644, 0); one("mknod");
        sfs->opendir(p); one("opendir");
        if (xfs) {
            xfs->getxattr(p, "n", buf, 1); one("getxattr");
            xfs->lgetxattr(p, "n", buf, 1); one("lgetxattr");
            xfs->listxattr(p, buf, 1); one("listxattr");
            xfs->llistxattr(p, buf, 1); one("llistxattr");
            xfs->setxattr(p, "n", buf, 1, 0); one("setxattr");
            xfs->lsetxattr(p, "n", buf, 1, 0); one("lsetxattr");
            xfs->removexattr(p, "n"); one("removexattr");
            xfs->lremovexattr(p, "n"); one("lremovexattr");
        }
        std::string ref = res[0].second, exc;
        for (auto& r : res) if (r.second != ref) exc += (exc.empty() ? "" : ",") + r.first + "=" + r.second;
        printf("%s %s\n", ref.c_str(), exc.empty() ? "all" : ("except " + exc).c_str());
    }
    return 0;
}
