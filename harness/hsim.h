// H-sim: single-vCPU deterministic simulation of the real photon runtime on a virtual clock.
//  * clock_gettime is interposed (this executable's definition wins over libc inside libphoton.so)
//  * a harness MasterEventEngine (VEngine) is installed: the idler calls wait_and_fire_events exactly when
//    every photon thread is blocked (quiescence); there the harness fires scripted external events or
//    advances virtual time to the next deadline
//  * every PHOTON_VERIF hook point and every API call/return of the script interpreter is logged as one line
#pragma once
#include <photon/thread/thread.h>
#include <photon/thread/thread11.h>
#include <photon/io/fd-events.h>
#include <photon/common/alog.h>
#include <photon/common/verif-hook.h>
#include <cstdio>
#include <cstdarg>
#include <cerrno>
#include <cstring>
#include <ctime>
#include <string>
#include <vector>
#include <map>
#include <functional>
#include <unistd.h>

namespace hsim {

static uint64_t vnow = 1000000;          // virtual microseconds
static const uint64_t NO_DEADLINE = 10ULL * 1024 * 1024;

// ---------------------------------------------------------------- naming
static std::map<const void*, std::string> names;    // threads, objects, wait queues
static int anon_q = 0;
static std::string name_of(const void* p) {
    if (!p) return "-";
    auto it = names.find(p);
    if (it != names.end()) return it->second;
    return names[p] = "q" + std::to_string(anon_q++);
}
static void set_name(const void* p, const std::string& n) { names[p] = n; }
static std::string next_thread_name;        // name for the thread the next CREATE hook reports
static std::string cur() { return photon::CURRENT ? name_of(photon::CURRENT) : std::string("-"); }

// ---------------------------------------------------------------- trace
static std::string trace;
static void emit(const char* fmt, ...) {
    char b[512];
    va_list ap; va_start(ap, fmt); vsnprintf(b, sizeof b, fmt, ap); va_end(ap);
    trace += b; trace += '\n';
}
static std::string dl(uint64_t ts) { return ts == (uint64_t)-1 ? std::string("inf") : std::to_string(ts); }

static bool log_heap = false;
static void on_hook(int point, const void* obj, uint64_t a, uint64_t b) {
    using namespace photon::verif;
    if (photon::CURRENT && !names.count(photon::CURRENT)) names[photon::CURRENT] = "idle";   // the only thread created before the hook is installed
    if (point == CREATE && !next_thread_name.empty()) { set_name(obj, next_thread_name); next_thread_name.clear(); }
    auto o = [&]() { return name_of(obj).c_str(); };
    switch (point) {
    case SLEEP:        emit("h SLEEP %s %s %s", o(), name_of((const void*)a).c_str(), dl(b).c_str()); break;
    case WAKE_TIMEOUT: emit("h WAKE_TIMEOUT %s %lu", o(), (unsigned long)a); break;
    case WAKE_INTR:    emit("h WAKE_INTR %s %ld %d by %s", o(), (long)(int64_t)a, (int)b, cur().c_str()); break;
    case INTR_NOSLEEP: emit("h INTR_NOSLEEP %s %d %d %ld by %s", o(), (int)(a & 0xffff), (int)(a >> 16), (long)(int64_t)b, cur().c_str()); break;
    case STANDBY_DRAIN:emit("h STANDBY_DRAIN %s", o()); break;
    case RESUME:       emit("h RESUME %s %ld %ld", o(), (long)(int64_t)a, (long)(int64_t)b); break;
    case YIELD:        emit("h YIELD %s", o()); break;
    case YIELD_RET:    emit("h YIELD_RET %s %ld", o(), (long)(int64_t)a); break;
    case CREATE:       emit("h CREATE %s by %s", o(), cur().c_str()); break;
    case DIE:          emit("h DIE %s %d", o(), (int)b); break;
    case JOIN_RET:     emit("h JOIN_RET %s by %s", o(), cur().c_str()); break;
    case MUTEX_TRY:    emit("h MUTEX_TRY %s %d %s", o(), (int)a, name_of((const void*)b).c_str()); break;
    case MUTEX_UNLOCK: emit("h MUTEX_UNLOCK %s %s %s by %s", o(), name_of((const void*)a).c_str(), name_of((const void*)b).c_str(), cur().c_str()); break;
    case SEM_ADD:      emit("h SEM_ADD %s %lu %lu by %s", o(), (unsigned long)a, (unsigned long)b, cur().c_str()); break;
    case SEM_SUB:      emit("h SEM_SUB %s %lu %d by %s", o(), (unsigned long)a, (int)b, cur().c_str()); break;
    case SEM_PASS:     emit("h SEM_PASS %s %lu by %s", o(), (unsigned long)a, cur().c_str()); break;
    case GUARD:        if (!a) emit("guard-violation %s site=%lu", o(), (unsigned long)b); break;   // a region the models treat as atomic under its spinlock was entered without it
    case SEM_RESUME:   emit("h SEM_RESUME %s %lu %s", o(), (unsigned long)a, name_of((const void*)b).c_str()); break;
    case HEAP_PUSH: case HEAP_POP: case HEAP_POP_FRONT:
        if (log_heap) emit("h %s %s %s", point == HEAP_PUSH ? "HEAP_PUSH" : point == HEAP_POP ? "HEAP_POP" : "HEAP_POP_FRONT", o(), dl(a).c_str());
        break;
    case HEAP_ELEM:    if (log_heap) emit("h HEAP_ELEM %s %s %d %d", o(), dl(a).c_str(), (int)(int32_t)(b >> 32), (int)(b & 0xffffffff)); break;
    case HEAP_END:     if (log_heap) emit("h HEAP_END %lu", (unsigned long)a); break;
    default: break;
    }
}

// ---------------------------------------------------------------- external events & quiescence
struct External { uint64_t at; std::function<void()> fire; std::string text; };
static std::vector<External> externals;      // sorted by time
static size_t next_ext = 0;
static std::function<void()> on_quiescence;  // harness-specific predicates
static std::function<void()> on_stuck;       // nobody can ever run again
static bool finished = false;
static uint64_t max_vtime = 1000000 + 120ULL * 1000 * 1000;   // periodic timers never let the run become 'stuck': cap virtual time

struct VEngine : public photon::MasterEventEngine {
    int wait_for_fd(int, uint32_t, photon::Timeout) override { errno = ENOSYS; return -1; }
    ssize_t wait_and_fire_events(uint64_t timeout) override {
        if (timeout == 0 || finished) return 0;
        // quiescence: every photon thread is blocked
        // (idle rounds in which nothing was logged, e.g. a periodic timer firing, are collapsed into one)
        static size_t mark = 0, after = (size_t)-1;
        if (trace.size() == after) trace.resize(mark);
        mark = trace.size();
        emit("q %lu", (unsigned long)vnow);
        if (on_quiescence) on_quiescence();
        uint64_t next_deadline = timeout >= NO_DEADLINE ? (uint64_t)-1 : vnow + timeout;
        uint64_t next_external = next_ext < externals.size() ? std::max(externals[next_ext].at, vnow) : (uint64_t)-1;
        if ((next_deadline == (uint64_t)-1 && next_external == (uint64_t)-1) || vnow > max_vtime) {
            emit("stuck %lu", (unsigned long)vnow);
            if (on_stuck) on_stuck();
            return 0;
        }
        uint64_t t = std::min(next_deadline, next_external);
        if (t > vnow) { vnow = t; photon::now = vnow; emit("tick %lu", (unsigned long)vnow); }
        after = trace.size();
        while (next_ext < externals.size() && externals[next_ext].at <= vnow) {
            auto& e = externals[next_ext++];
            emit("x %s", e.text.c_str());
            e.fire();
        }
        return 0;
    }
    int cancel_wait() override { return 0; }
};

static void init() {
    set_log_output(log_output_null);
    photon::vcpu_init();
    photon::fd_events_init(new VEngine);
    photon::now = vnow;
    photon::verif::hook = &on_hook;
    set_name(photon::CURRENT, "T0");
}
static void flush_trace() { fwrite(trace.data(), 1, trace.size(), stdout); fflush(stdout); trace.clear(); }

}  // namespace hsim

extern "C" int clock_gettime(clockid_t, struct timespec* ts) {
    ts->tv_sec = hsim::vnow / 1000000; ts->tv_nsec = (hsim::vnow % 1000000) * 1000; return 0;
}
