// H-sim harness for C17 part 2: the real full-file cached file system (fs/cache) over a local-fs source and media
// directory, single vCPU, virtual clock; scripted readers, evictions and source faults.
//   cache <file size> <refill unit> <dir>
//   thread <T> read <off> <len> <cuts|-> ; sleep <us> ; yield ; evict ; reopen
//        reopen: when no read is in flight the cached fs and its pool are destroyed and a new pool is created over the same
//        media directory (reads issued meanwhile wait)
//   srcfail <k> <short|fail>        the k-th source read returns short / fails
//   run
// output: call/ret lines; `src <off> <len> <ret>` for every read of the source file; ret read: r=<count> data=<ok|BAD@pos|->
#include <photon/thread/thread.h>
#include <photon/common/io-alloc.h>
#include <photon/fs/localfs.h>
#include <photon/fs/aligned-file.h>
#include <photon/fs/forwardfs.h>
#include <photon/fs/cache/cache.h>
#include <photon/fs/cache/pool_store.h>
#include "hsim.h"
#include <iostream>
#include <sstream>
#include <set>
#include <sys/wait.h>
#include <sys/stat.h>
#include <fcntl.h>
#include <csignal>
#include "watchdog.h"
using namespace hsim;
using namespace photon::fs;

static inline unsigned char fbyte(uint64_t off) { uint64_t x = off * 0x9E3779B97F4A7C15ULL; x ^= x >> 29; return (unsigned char)(x * 31 + (off >> 12)); }
static size_t fsize = 0; static int nsrc = 0; static std::map<int, std::string> srcfail;

// the source file system, recording and optionally corrupting reads of the one file
struct SrcFile : public ForwardFile_Ownership {
    SrcFile(IFile* f) : ForwardFile_Ownership(f, true) {}
    // an injected short read must not leave the right bytes beyond the count it reports: the tail is poisoned
    static void poison(const struct iovec* iov, int cnt, size_t from) {
        size_t pos = 0;
        for (int i = 0; i < cnt; ++i) { auto* b = (unsigned char*)iov[i].iov_base; size_t l = iov[i].iov_len;
            for (size_t j = 0; j < l; ++j, ++pos) if (pos >= from) b[j] = 0xEE; }
    }
    ssize_t note(ssize_t r, off_t off, size_t len, const struct iovec* iov, int cnt) {
        int k = ++nsrc; auto it = srcfail.find(k);
        // key 0 = "the first source read that reaches end-of-file"
        if (it == srcfail.end() && r > 1 && (size_t)off + len >= fsize) { it = srcfail.find(0); if (it != srcfail.end() && it->second == "used") it = srcfail.end(); }
        bool inj = it != srcfail.end();
        if (inj) { if (it->second == "fail") { r = -1; errno = EIO; poison(iov, cnt, 0); } else if (r > 1) { r = r / 2; poison(iov, cnt, (size_t)r); }
                   if (it->first == 0) it->second = "used"; }
        emit("src %ld %zu %zd%s", (long)off, len, r, inj ? " injected" : "");
        return r; }
    ssize_t pread(void* buf, size_t count, off_t offset) override { auto r = m_file->pread(buf, count, offset); struct iovec v{buf, count}; return note(r, offset, count, &v, 1); }
    ssize_t preadv(const struct iovec* iov, int cnt, off_t offset) override { size_t n = 0; for (int i = 0; i < cnt; ++i) n += iov[i].iov_len; auto r = m_file->preadv(iov, cnt, offset); return note(r, offset, n, iov, cnt); }
    ssize_t preadv2(const struct iovec* iov, int cnt, off_t offset, int flags) override { size_t n = 0; for (int i = 0; i < cnt; ++i) n += iov[i].iov_len; auto r = m_file->preadv2(iov, cnt, offset, flags); return note(r, offset, n, iov, cnt); }
};
struct SrcFS : public ForwardFS_Ownership {
    SrcFS(IFileSystem* fs) : ForwardFS_Ownership(fs, true) {}
    IFile* open(const char* p, int flags) override { auto f = m_fs->open(p, flags); return f ? new SrcFile(f) : nullptr; }
    IFile* open(const char* p, int flags, mode_t mode) override { auto f = m_fs->open(p, flags, mode); return f ? new SrcFile(f) : nullptr; }
};

struct Script { std::string name; std::vector<std::vector<std::string>> ops; };
static std::map<std::string, Script> scripts; static std::vector<std::string> order;
static ICachedFileSystem* cfs; static photon::semaphore* done_sem; static int inflight = 0; static bool reopening = false;
static IFileSystem* g_src; static std::string g_media; static uint64_t g_refill;
static ICachedFileSystem* make_cfs() {
    auto mediaFs = new_localfs_adaptor(g_media.c_str(), ioengine_psync);
    auto alignFs = new_aligned_fs_adaptor(mediaFs, 4096, true, true);
    return new_full_file_cached_fs(g_src, alignFs, g_refill, 1, 1000 * 1000, 0, new AlignedAlloc(4096), 0);
}

static void exec_op(Script& me, const std::vector<std::string>& op) {
    auto& k = op[0];
    if (k == "read") {
        size_t off = strtoul(op[1].c_str(), 0, 10), len = strtoul(op[2].c_str(), 0, 10);
        while (reopening) photon::thread_usleep(100);
        emit("call %s read %zu %zu @%lu", me.name.c_str(), off, len, (unsigned long)vnow);
        auto file = cfs->open("/d/file", O_RDONLY, 0644);
        if (!file) { emit("ret %s read r=-9 data=-", me.name.c_str()); return; }
        std::vector<size_t> ls; if (op[3] == "-") ls.push_back(len); else { std::istringstream is(op[3]); std::string t; while (std::getline(is, t, ',')) ls.push_back(strtoul(t.c_str(), 0, 10)); }
        std::vector<unsigned char*> blocks; std::vector<iovec> iov; size_t tot = 0;
        for (auto l : ls) { auto b = (unsigned char*)malloc(l ? l : 1); memset(b, 0xEE, l ? l : 1); blocks.push_back(b); iov.push_back({b, l}); tot += l; }
        ++inflight;
        ssize_t r = file->preadv(iov.data(), iov.size(), off);
        --inflight;
        std::string data = "ok"; size_t pos = 0;
        if (r > 0) for (auto& v : iov) { for (size_t i = 0; i < v.iov_len && pos < (size_t)r; ++i, ++pos) if (((unsigned char*)v.iov_base)[i] != fbyte(off + pos)) { data = "BAD@" + std::to_string(off + pos); pos = r; break; } }
        emit("ret %s read r=%zd data=%s @%lu", me.name.c_str(), r, r > 0 ? data.c_str() : "-", (unsigned long)vnow);
        for (auto b : blocks) free(b);
        delete file;
    } else if (k == "sleep") photon::thread_usleep(strtoul(op[1].c_str(), 0, 10));
    else if (k == "yield") photon::thread_yield();
    else if (k == "reopen") {
        while (inflight > 0 || reopening) photon::thread_usleep(100);
        reopening = true; emit("reopen %s", me.name.c_str());
        delete cfs; cfs = make_cfs();
        reopening = false;
        if (!cfs) { emit("result nofs"); flush_trace(); _exit(0); }
    }
    else if (k == "evict") { emit("evict %s", me.name.c_str()); cfs->get_pool()->evict("/d/file"); }
}
static void* run_script(void* arg) { auto& s = *(Script*)arg; for (auto& op : s.ops) exec_op(s, op); emit("end %s", s.name.c_str()); done_sem->signal(1); return nullptr; }
// the program has N s in which the machine runs it (watchdog.h): spinning or blocked in the kernel after that = hung
static void on_verdict(const char* result) { trace += wd::g_diag; emit("%s", result); flush_trace(); _exit(0); }
static void on_segv(int sg) { emit("result crashed signal=%d", sg); flush_trace(); _exit(0); }

static int run_program(const std::vector<std::string>& lines) {
    wd::start(nullptr, on_verdict, 20, 1); signal(SIGSEGV, on_segv); signal(SIGABRT, on_segv);
    hsim::init(); photon::verif::hook = nullptr;
    uint64_t refill = 4096; std::string base = "/var/tmp/photon-verif/c17";
    for (auto& l : lines) {
        std::istringstream is(l); std::string w; is >> w;
        if (w == "cache") is >> fsize >> refill >> base;
        else if (w == "srcfail") { int k; std::string how; is >> k >> how; srcfail[k] = how; }
        else if (w == "thread") { Script s; is >> s.name; std::vector<std::string> op; std::string t;
            while (is >> t) { if (t == ";") { if (!op.empty()) s.ops.push_back(op); op.clear(); } else op.push_back(t); }
            if (!op.empty()) s.ops.push_back(op); scripts[s.name] = s; order.push_back(s.name); }
    }
    base += "/" + std::to_string(getpid());
    std::string src = base + "/src", media = base + "/media";
    if (system(("rm -rf " + base + " && mkdir -p " + src + "/d " + media).c_str())) {}
    { std::vector<unsigned char> d(fsize); for (size_t i = 0; i < fsize; i++) d[i] = fbyte(i); FILE* fp = fopen((src + "/d/file").c_str(), "wb"); if (fsize) fwrite(d.data(), 1, fsize, fp); fclose(fp); }
    g_src = new SrcFS(new_localfs_adaptor(src.c_str(), ioengine_psync)); g_media = media; g_refill = refill;
    cfs = make_cfs();
    emit("init size=%zu refill=%lu", fsize, (unsigned long)refill);
    if (!cfs) { emit("result nofs"); flush_trace(); _exit(0); }
    done_sem = new photon::semaphore(0);
    on_stuck = [] { emit("result stuck"); flush_trace(); _exit(0); };
    for (auto& n : order) photon::thread_create(&run_script, &scripts[n]);
    done_sem->wait(order.size());
    finished = true;
    emit("result done");
    flush_trace();
    if (system(("rm -rf " + base).c_str())) {}
    _exit(0);
}
int main() {
    std::string line; std::vector<std::string> prog;
    while (std::getline(std::cin, line)) {
        if (line == "run") {
            fflush(stdout);
            pid_t pid = fork();
            if (pid == 0) { run_program(prog); _exit(0); }
            int st = 0; waitpid(pid, &st, 0);
            if (WIFSIGNALED(st)) printf("result crashed signal=%d\n", WTERMSIG(st));
            else if (WEXITSTATUS(st) != 0) printf("result crashed exit=%d\n", WEXITSTATUS(st));
            printf("endprog\n"); fflush(stdout);
            prog.clear();
        } else prog.push_back(line);
    }
    return 0;
}
