// H-sim harness for C09: the real photon::channel<int> driven by scripted photon threads on one vCPU (virtual clock).
//   chan <capacity>
//   thread <T> send <v> <to> ; trysend <v> ; recv <to> ; tryrecv ; close ; sleep <us> ; yield ; ...
//   run
#include <photon/thread/thread.h>
#include <photon/thread/go.h>
#include "hsim.h"
#include <iostream>
#include <sstream>
#include <sys/wait.h>
#include <csignal>
#include "watchdog.h"
using namespace hsim;

struct Script { std::string name; std::vector<std::vector<std::string>> ops; photon::thread* th = nullptr; };
static std::map<std::string, Script> scripts;
static std::vector<std::string> order;
static photon::channel<int>* ch;
static photon::semaphore* done_sem;
static photon::Timeout TO(const std::string& s) { return s == "inf" ? photon::Timeout() : photon::Timeout(strtoull(s.c_str(), 0, 10)); }

static void exec_op(Script& me, const std::vector<std::string>& op) {
    auto& k = op[0];
    std::string a; for (size_t i = 1; i < op.size(); ++i) a += " " + op[i];
    emit("call %s %s%s @%lu", me.name.c_str(), k.c_str(), a.c_str(), (unsigned long)vnow);
    long ok = 0; long val = 0;
    if (k == "send") ok = ch->send(atoi(op[1].c_str()), TO(op[2]));
    else if (k == "trysend") ok = ch->try_send(atoi(op[1].c_str()));
    else if (k == "recv") { int v = 0; ok = ch->recv(v, TO(op[1])); val = v; }
    else if (k == "tryrecv") { int v = 0; ok = ch->try_recv(v); val = v; }
    else if (k == "close") { ch->close(); ok = 1; }
    else if (k == "sleep") { photon::thread_usleep(TO(op[1])); ok = 1; }
    else if (k == "yield") { photon::thread_yield(); ok = 1; }
    emit("ret %s %s %ld %ld @%lu", me.name.c_str(), k.c_str(), ok, val, (unsigned long)vnow);
}
static void* run_script(void* arg) {
    auto& s = *(Script*)arg;
    for (auto& op : s.ops) exec_op(s, op);
    emit("end %s", s.name.c_str());
    s.th = nullptr;
    done_sem->signal(1);
    return nullptr;
}
// the program has N s in which the machine runs it (watchdog.h): spinning or blocked in the kernel after that = hung
static void on_verdict(const char* result) { trace += wd::g_diag; emit("%s", result); flush_trace(); _exit(0); }

static int run_program(const std::vector<std::string>& lines) {
    wd::start(nullptr, on_verdict, 10, 1);
    init();
    photon::verif::hook = nullptr;       // only API events matter for the channel automaton
    int cap = 0;
    for (auto& l : lines) {
        std::istringstream is(l); std::string w; is >> w;
        if (w == "chan") is >> cap;
        else if (w == "thread") { Script s; is >> s.name; std::vector<std::string> op; std::string t;
            while (is >> t) { if (t == ";") { if (!op.empty()) s.ops.push_back(op); op.clear(); } else op.push_back(t); }
            if (!op.empty()) s.ops.push_back(op);
            scripts[s.name] = s; order.push_back(s.name); }
    }
    ch = new photon::channel<int>(cap);
    emit("init %d", cap);
    done_sem = new photon::semaphore(0);
    on_stuck = [] { emit("result stuck"); flush_trace(); _exit(0); };
    for (auto& n : order) { auto& s = scripts[n]; s.th = photon::thread_create(&run_script, &s); }
    done_sem->wait(order.size());
    finished = true;
    emit("result done");
    flush_trace();
    _exit(0);
}
int main() {
    std::string line; std::vector<std::string> prog;
    while (std::getline(std::cin, line)) {
        if (line == "run") {
            fflush(stdout);
            pid_t pid = fork();
            if (pid == 0) { run_program(prog); _exit(0); }
            int st = 0; waitpid(pid, &st, 0);
            if (WIFSIGNALED(st)) printf("result crashed signal=%d\n", WTERMSIG(st));
            else if (WEXITSTATUS(st) != 0) printf("result crashed exit=%d\n", WEXITSTATUS(st));
            printf("endprog\n"); fflush(stdout);
            prog.clear();
        } else prog.push_back(line);
    }
    return 0;
}
