// H-sim harness for C19: the real ObjectCache<int, Obj*> driven by scripted photon threads on one vCPU (virtual clock).
//   cache <lifespan_us> <timer_cycle_us>
//   thread <T> acquire <k> <ok|fail|slow<us>|slowfail<us>> <failure cooldown us> ; release <k> <0|1 recycle> ; sleep <us> ; yield
//   run
#include <photon/thread/thread.h>
#include <photon/common/expirecontainer.h>
#include "hsim.h"
#include <iostream>
#include <sstream>
#include <sys/wait.h>
#include <csignal>
#include "watchdog.h"
using namespace hsim;

struct Obj { int key; long id; Obj(int k, long i) : key(k), id(i) {} ~Obj() { emit("dtor %d %ld @%lu", key, id, (unsigned long)vnow); } };
static long next_obj = 100;
struct Script { std::string name; std::vector<std::vector<std::string>> ops; std::map<int, int> held; };
static std::map<std::string, Script> scripts;
static std::vector<std::string> order;
static ObjectCache<int, Obj*>* oc;
static photon::semaphore* done_sem;

static void exec_op(Script& me, const std::vector<std::string>& op) {
    auto& k = op[0];
    if (k == "release" && me.held[atoi(op[1].c_str())] <= 0) return;     // program discipline
    if (k == "release" && op[2] == "1" && me.held[atoi(op[1].c_str())] > 1) { exec_op(me, {"release", op[1], "0"}); return; }   // would wait for itself
    std::string a; for (size_t i = 1; i < op.size(); ++i) a += " " + op[i];
    emit("call %s %s%s @%lu", me.name.c_str(), k.c_str(), a.c_str(), (unsigned long)vnow);
    long r = 0;
    if (k == "acquire") {
        int key = atoi(op[1].c_str()); std::string how = op[2];
        auto p = oc->acquire(key, [&]() -> Obj* {
            emit("ctor_begin %d %s @%lu", key, me.name.c_str(), (unsigned long)vnow);
            bool fail = how == "fail" || how.compare(0, 8, "slowfail") == 0;
            if (how.compare(0, 4, "slow") == 0) photon::thread_usleep(strtoull(how.c_str() + (fail ? 8 : 4), 0, 10));
            Obj* o = fail ? nullptr : new Obj(key, next_obj++);
            emit("ctor_end %d %ld @%lu", key, o ? o->id : -1L, (unsigned long)vnow);
            return o;
        }, op.size() > 3 ? strtoull(op[3].c_str(), 0, 10) : 0);
        r = p ? p->id : -1;
        if (p) me.held[key]++;
    } else if (k == "release") { int key = atoi(op[1].c_str()); me.held[key]--; oc->release(key, op[2] == "1", true); }
    else if (k == "sleep") photon::thread_usleep(strtoull(op[1].c_str(), 0, 10));
    else if (k == "yield") photon::thread_yield();
    emit("ret %s %s %ld @%lu", me.name.c_str(), k.c_str(), r, (unsigned long)vnow);
}
static void* run_script(void* arg) {
    auto& s = *(Script*)arg;
    for (auto& op : s.ops) exec_op(s, op);
    // release whatever is still held so that the cache can be torn down
    for (auto& kv : s.held) while (kv.second > 0) { exec_op(s, {"release", std::to_string(kv.first), "0"}); }
    emit("end %s", s.name.c_str());
    done_sem->signal(1);
    return nullptr;
}
// the program has N s in which the machine runs it (watchdog.h): spinning or blocked in the kernel after that = hung
static void on_verdict(const char* result) { trace += wd::g_diag; emit("%s", result); flush_trace(); _exit(0); }

static int run_program(const std::vector<std::string>& lines) {
    wd::start(nullptr, on_verdict, 10, 1);
    init();
    photon::verif::hook = nullptr;
    uint64_t lifespan = 1000, cycle = 100;
    for (auto& l : lines) {
        std::istringstream is(l); std::string w; is >> w;
        if (w == "cache") is >> lifespan >> cycle;
        else if (w == "thread") { Script s; is >> s.name; std::vector<std::string> op; std::string t;
            while (is >> t) { if (t == ";") { if (!op.empty()) s.ops.push_back(op); op.clear(); } else op.push_back(t); }
            if (!op.empty()) s.ops.push_back(op);
            scripts[s.name] = s; order.push_back(s.name); }
    }
    oc = new ObjectCache<int, Obj*>(lifespan, cycle);
    emit("init %lu", (unsigned long)lifespan);
    done_sem = new photon::semaphore(0);
    on_stuck = [] { emit("result stuck"); flush_trace(); _exit(0); };
    for (auto& n : order) photon::thread_create(&run_script, &scripts[n]);
    done_sem->wait(order.size());
    // let the expiry timer collect what is left, then stop
    photon::thread_usleep(lifespan * 3 + cycle * 3);
    finished = true;
    emit("result done");
    flush_trace();
    _exit(0);
}
int main() {
    std::string line; std::vector<std::string> prog;
    while (std::getline(std::cin, line)) {
        if (line == "run") {
            fflush(stdout);
            pid_t pid = fork();
            if (pid == 0) { run_program(prog); _exit(0); }
            int st = 0; waitpid(pid, &st, 0);
            if (WIFSIGNALED(st)) printf("result crashed signal=%d\n", WTERMSIG(st));
            else if (WEXITSTATUS(st) != 0) printf("result crashed exit=%d\n", WEXITSTATUS(st));
            printf("endprog\n"); fflush(stdout);
            prog.clear();
        } else prog.push_back(line);
    }
    return 0;
}
