// H-sim harness for C11: the real rpc::StubImpl (and its OooEngine) over a scripted in-memory IStream; K concurrent callers
// on one vCPU, virtual clock. The "server" is the script: it decides when which response bytes appear on the wire.
//   resp <R> for <k> size <n>        response to the request with payload id k (tag taken from the request as written)
//   resp <R> rogue <tag> size <n>    response with a tag nobody issued
//   thread <T> call <k> <timeout|inf> <bufcap> ; sleep <us> ; yield ; ...
//   at <t> deliver <R> <off> <len>   bytes [off, off+len) of response R (40-byte header + body) arrive
//   at <t> rerror                    the stream breaks (reads fail with ECONNRESET)
//   at <t> eof                       the peer closes: reads return the bytes received so far (short count), then 0
//   wfail <i>                        the i-th writev fails;   wslow <i> <us>  the i-th writev takes <us>
//   run
#include <photon/thread/thread.h>
#define protected public      // Stub::do_call (the raw iovector call under the typed call<> templates)
#include <photon/rpc/rpc.h>
#undef protected
#include <photon/common/iovector.h>
#include <photon/common/stream.h>
#include <photon/common/utility.h>
#include "hsim.h"
#include <iostream>
#include <sstream>
#include <deque>
#include <set>
#include <sys/wait.h>
#include <sys/uio.h>
#include <csignal>
#include "watchdog.h"
using namespace hsim;
using namespace photon;

struct Resp { std::string name; int id; long for_k; uint64_t tag; bool tag_known; uint32_t size; bool skipped = false; };
static std::map<std::string, Resp> resps;
static std::map<long, uint64_t> tag_of_k;            // request payload id -> tag seen on the wire
static std::map<const void*, long> buf_owner;        // response buffer base -> call k
static std::map<long, std::pair<char*, size_t>> bufs;
static std::set<long> returned;
static uint8_t body_byte(int rid, size_t j) { return (uint8_t)(rid * 131 + j * 7 + 1); }

struct MemStream : public IStream {
    std::deque<std::pair<uint8_t, int>> wire;      // inbound bytes, each with the response it belongs to
    photon::condition_variable cv;
    uint64_t m_timeout = -1;
    bool closed = false, rerr = false;
    int nwrites = 0, in_fill = 0;
    uint64_t last_hdr_tag = 0;
    std::set<int> wfail; std::map<int, uint64_t> wslow;
    int close() override { closed = true; cv.notify_all(); return 0; }
    int shutdown(ShutdownHow) override { if (!closed) emit("shutdown %s", cur().c_str()); closed = true; cv.notify_all(); return 0; }
    uint64_t timeout() const override { return m_timeout; }
    void timeout(uint64_t t) override { m_timeout = t; }
    ssize_t fill(const struct iovec* iov, int cnt, int* rid) {
        size_t total = 0; for (int i = 0; i < cnt; ++i) total += iov[i].iov_len;
        photon::Timeout tmo(m_timeout);
        size_t got = 0; int vi = 0; size_t vo = 0;
        *rid = -1;
        ++in_fill; DEFER(--in_fill);
        while (got < total) {
            if (closed) return got;
            if (rerr) { errno = ECONNRESET; return -1; }
            if (wire.empty()) {
                int r = cv.wait_no_lock(tmo);
                if (r < 0) { if (errno != ETIMEDOUT) continue; return -1; }
                continue;
            }
            while (vi < cnt && vo == iov[vi].iov_len) { ++vi; vo = 0; }
            auto b = wire.front(); wire.pop_front();
            if (*rid < 0) *rid = b.second;
            ((uint8_t*)iov[vi].iov_base)[vo++] = b.first; ++got;
        }
        return got;
    }
    ssize_t read(void* buf, size_t count) override {       // StubImpl reads the header with read()
        struct iovec v{buf, count}; int rid;
        ssize_t r = fill(&v, 1, &rid); int e = errno;
        uint64_t tag = 0; if (r == (ssize_t)sizeof(rpc::Header)) tag = ((rpc::Header*)buf)->tag;
        last_hdr_tag = tag;
        long shown = r;      // 40 = a well-formed header; -2 = 40 bytes that are not a header (the stub must reject them)
        if (r == (ssize_t)sizeof(rpc::Header) && (((rpc::Header*)buf)->magic != rpc::Header::MAGIC || ((rpc::Header*)buf)->version != rpc::Header::VERSION)) shown = -2;
        emit("rh %s %d %lu %ld %d @%lu", cur().c_str(), rid, (unsigned long)tag, shown, r < 0 ? e : 0, (unsigned long)vnow);
        errno = e; return r;
    }
    ssize_t readv(const struct iovec* iov, int cnt) override {  // ... and the body with readv()
        long owner = -1;
        for (int i = 0; i < cnt && owner < 0; ++i)
            for (auto& b : bufs)
                if ((char*)iov[i].iov_base >= b.second.first && (char*)iov[i].iov_base < b.second.first + std::max<size_t>(b.second.second, 1)) owner = b.first;
        size_t total = 0; for (int i = 0; i < cnt; ++i) total += iov[i].iov_len;
        if (total == 0 && owner < 0)    // an empty body touches no buffer: attribute it to the call the header was addressed to
            for (auto& kt : tag_of_k) if (kt.second == last_hdr_tag && !returned.count(kt.first)) owner = kt.first;
        emit("rbb %s %ld %lu dead=%d @%lu", cur().c_str(), owner, (unsigned long)total, (int)returned.count(owner), (unsigned long)vnow);
        int rid;
        ssize_t r = fill(iov, cnt, &rid); int e = errno;
        emit("rb %s %d %ld %ld %d dead=%d @%lu", cur().c_str(), rid, owner, (long)r, r < 0 ? e : 0, (int)returned.count(owner), (unsigned long)vnow);
        errno = e; return r;
    }
    ssize_t write(const void* buf, size_t count) override { struct iovec v{(void*)buf, count}; return writev(&v, 1); }
    ssize_t writev(const struct iovec* iov, int cnt) override {
        int idx = ++nwrites;
        std::string all; for (int i = 0; i < cnt; ++i) all.append((const char*)iov[i].iov_base, iov[i].iov_len);
        uint64_t tag = 0; long k = -1;
        if (all.size() >= sizeof(rpc::Header)) {
            tag = ((rpc::Header*)all.data())->tag;
            if (all.size() >= sizeof(rpc::Header) + 8) k = *(int64_t*)(all.data() + sizeof(rpc::Header));
        }
        if (wslow.count(idx)) photon::thread_usleep(wslow[idx]);
        ssize_t r = all.size();
        if (closed || wfail.count(idx)) { errno = EPIPE; r = -1; }
        else tag_of_k[k] = tag;
        emit("w %s %lu %ld %ld @%lu", cur().c_str(), (unsigned long)tag, k, (long)r, (unsigned long)vnow);
        return r;
    }
};

struct Script { std::string name; std::vector<std::vector<std::string>> ops; };
static std::map<std::string, Script> scripts;
static std::vector<std::string> order;
static MemStream* stream;
static rpc::Stub* stub;
static photon::semaphore* done_sem;
static photon::Timeout TO(const std::string& s) { return s == "inf" ? photon::Timeout() : photon::Timeout(strtoull(s.c_str(), 0, 10)); }

static void do_call(Script& me, long k, const std::string& to, size_t cap) {
    IOVector req, resp;
    char payload[16]; memset(payload, 0x5a, sizeof payload); *(int64_t*)payload = k;
    req.push_back(payload, sizeof payload);
    char* buf = (char*)malloc(cap ? cap : 1); memset(buf, 0xEE, cap ? cap : 1);
    bufs[k] = {buf, cap};
    if (cap) resp.push_back(buf, cap);
    else resp.push_back(buf, 0);
    emit("call %s %ld %s %lu @%lu", me.name.c_str(), k, to.c_str(), (unsigned long)cap, (unsigned long)vnow);
    errno = 0;
    int r = stub->do_call(rpc::FunctionID(1, 2), &req, &resp, TO(to));
    int e = errno;
    // which response is in the buffer?
    std::string content = "untouched";
    bool untouched = true; for (size_t j = 0; j < cap; ++j) if ((uint8_t)buf[j] != 0xEE) untouched = false;
    if (r >= 0) {
        content = r == 0 ? "empty" : "garbage";
        for (auto& x : resps) {
            bool eq = r > 0 && (size_t)r <= cap;
            for (int j = 0; eq && j < r; ++j) if ((uint8_t)buf[j] != body_byte(x.second.id, j)) eq = false;
            if (eq) content = std::to_string(x.second.id);
        }
    } else if (!untouched) content = "dirty";
    emit("ret %s %ld %d %d %s @%lu", me.name.c_str(), k, r, r < 0 ? e : 0, content.c_str(), (unsigned long)vnow);
    memset(buf, 0xCB, cap ? cap : 1);      // canary: nobody may touch the buffer from now on
    returned.insert(k);
}
static void exec_op(Script& me, const std::vector<std::string>& op) {
    auto& k = op[0];
    if (k == "call") do_call(me, atol(op[1].c_str()), op[2], strtoul(op[3].c_str(), 0, 10));
    else if (k == "sleep") photon::thread_usleep(TO(op[1]));
    else if (k == "yield") photon::thread_yield();
}
static void* run_script(void* arg) {
    auto& s = *(Script*)arg;
    for (auto& op : s.ops) exec_op(s, op);
    emit("end %s", s.name.c_str());
    done_sem->signal(1);
    return nullptr;
}
static void check_canaries() {
    for (long k : returned) {
        auto& b = bufs[k]; bool ok = true;
        for (size_t j = 0; j < std::max<size_t>(b.second, 1); ++j) if ((uint8_t)b.first[j] != 0xCB) ok = false;
        if (!ok) emit("canary %ld modified", k);
    }
}
// the program has N s in which the machine runs it (watchdog.h): spinning or blocked in the kernel after that = hung
static void on_verdict(const char* result) { trace += wd::g_diag; emit("%s", result); flush_trace(); _exit(0); }
static void rpc_hook(int point, const void* obj, uint64_t a, uint64_t b) {
    using namespace photon::verif;
    if (photon::CURRENT && !names.count(photon::CURRENT)) names[photon::CURRENT] = "idle";
    if (point == CREATE && !next_thread_name.empty()) { set_name(obj, next_thread_name); next_thread_name.clear(); }
    if (point == WAKE_INTR && (int64_t)a > 0) emit("intr %s %ld by %s", name_of(obj).c_str(), (long)(int64_t)a, cur().c_str());
    if (point == INTR_NOSLEEP) emit("intr %s %ld by %s", name_of(obj).c_str(), (long)(int64_t)b, cur().c_str());
}

static int run_program(const std::vector<std::string>& lines) {
    wd::start(nullptr, on_verdict, 10, 1);
    hsim::init();
    photon::verif::hook = &rpc_hook;
    stream = new MemStream;
    int nresp = 0;
    for (auto& l : lines) {
        std::istringstream is(l); std::string w; is >> w;
        if (w == "resp") { Resp r; std::string kind, sz; is >> r.name >> kind; r.id = ++nresp; r.for_k = -1; r.tag = 0; r.tag_known = false;
            if (kind == "for") is >> r.for_k; else { is >> r.tag; r.tag_known = true; }
            is >> sz >> r.size; resps[r.name] = r;
            emit("resp %d %s %ld %u", r.id, kind.c_str(), kind == "for" ? r.for_k : (long)r.tag, r.size); }
        else if (w == "thread") { Script s; is >> s.name; std::vector<std::string> op; std::string t;
            while (is >> t) { if (t == ";") { if (!op.empty()) s.ops.push_back(op); op.clear(); } else op.push_back(t); }
            if (!op.empty()) s.ops.push_back(op);
            scripts[s.name] = s; order.push_back(s.name); }
        else if (w == "wfail") { int i; is >> i; stream->wfail.insert(i); }
        else if (w == "wslow") { int i; uint64_t us; is >> i >> us; stream->wslow[i] = us; }
        else if (w == "at") { uint64_t t; std::string what; is >> t >> what;
            External e; e.at = 1000000 + t;
            if (what == "deliver") { std::string rn; size_t off, len; is >> rn >> off >> len;
                e.text = "deliver " + rn + " " + std::to_string(off) + " " + std::to_string(len);
                e.fire = [rn, off, len] {
                    auto& r = resps[rn];
                    if (r.skipped) return;      // the request was not on the wire when the response was due: the server never answers it
                    if (!r.tag_known) { auto it = tag_of_k.find(r.for_k); if (it == tag_of_k.end()) { r.skipped = true; emit("skip %s", rn.c_str()); return; } r.tag = it->second; r.tag_known = true; }
                    rpc::Header h; h.size = r.size; h.function = rpc::FunctionID(1, 2); h.tag = r.tag;
                    std::string all((const char*)&h, sizeof h);
                    for (size_t j = 0; j < r.size; ++j) all.push_back((char)body_byte(r.id, j));
                    for (size_t j = off; j < off + len && j < all.size(); ++j) stream->wire.push_back({(uint8_t)all[j], r.id});
                    emit("wire %d %lu %lu tag=%lu", r.id, (unsigned long)off, (unsigned long)len, (unsigned long)r.tag);
                    stream->cv.notify_all();
                };
            } else if (what == "eof") { e.text = "eof"; e.fire = [] { stream->closed = true; emit("eof"); stream->cv.notify_all(); };
            } else if (what == "rerror") { e.text = "rerror"; e.fire = [] { stream->rerr = true; emit("rerror"); stream->cv.notify_all(); }; }
            externals.push_back(e); }
    }
    std::stable_sort(externals.begin(), externals.end(), [](const External& a, const External& b) { return a.at < b.at; });
    stub = rpc::new_rpc_stub(stream, false);
    done_sem = new photon::semaphore(0);
    on_quiescence = [] { check_canaries(); emit("qs avail=%lu qcount=%d closed=%d reading=%d", (unsigned long)stream->wire.size(), stub->get_queue_count(), (int)(stream->closed || stream->rerr), stream->in_fill); };
    on_stuck = [] { emit("result stuck"); flush_trace(); _exit(0); };
    for (auto& n : order) { next_thread_name = n; photon::thread_create(&run_script, &scripts[n]); }
    done_sem->wait(order.size());
    finished = true;
    check_canaries();
    emit("final qcount=%d", stub->get_queue_count());
    emit("result done");
    flush_trace();
    _exit(0);
}
int main() {
    std::string line; std::vector<std::string> prog;
    while (std::getline(std::cin, line)) {
        if (line == "run") {
            fflush(stdout);
            pid_t pid = fork();
            if (pid == 0) { run_program(prog); _exit(0); }
            int st = 0; waitpid(pid, &st, 0);
            if (WIFSIGNALED(st)) printf("result crashed signal=%d\n", WTERMSIG(st));
            else if (WEXITSTATUS(st) != 0) printf("result crashed exit=%d\n", WEXITSTATUS(st));
            printf("endprog\n"); fflush(stdout);
            prog.clear();
        } else prog.push_back(line);
    }
    return 0;
}
