// H-sim harness for C06 (API level): photon::qrwlock or photon::rwlock driven by scripted photon threads on one vCPU (virtual clock).
//   lock <qrw|rw>
//   thread <T> r <to> ; w <to> ; tr ; tw ; u ; sleep <us> ; yield ; spin <us>
//        r/w: lock(RLOCK/WLOCK, timeout us | inf); tr/tw: try_lock; u: unlock (only issued while the thread holds the lock);
//        spin: the thread keeps the CPU for <us> of virtual time (the clock advances, nobody else runs, timers are not examined)
//   run
// trace: call <T> <r|w|tr|tw> <to> @t | ret <T> <op> <0|-1> <errno> @t | unlock <T> @t | overlap <T> (in-harness occupancy
//        counters saw a writer together with another holder) | q / tick / result
#include <photon/thread/thread.h>
#include "hsim.h"
#include <iostream>
#include <sstream>
#include <sys/wait.h>
#include <csignal>
#include "watchdog.h"
using namespace hsim;

struct Script { std::string name; std::vector<std::vector<std::string>> ops; int held = 0; /* 0 none, 1 read, 2 write */ };
static std::map<std::string, Script> scripts; static std::vector<std::string> order;
static photon::qrwlock* q; static photon::rwlock* rw; static photon::semaphore* done_sem;
static int nreaders = 0, nwriters = 0;
static photon::Timeout TO(const std::string& s) { return s == "inf" ? photon::Timeout() : photon::Timeout(strtoull(s.c_str(), 0, 10)); }

static void exec_op(Script& me, const std::vector<std::string>& op) {
    auto& k = op[0];
    if (k == "sleep") { photon::thread_usleep(strtoull(op[1].c_str(), 0, 10)); return; }
    if (k == "yield") { photon::thread_yield(); return; }
    if (k == "spin") { vnow += strtoull(op[1].c_str(), 0, 10); photon::now = vnow; emit("tick %lu", (unsigned long)vnow); return; }
    if (k == "u") {
        if (!me.held) return;
        emit("unlock %s @%lu", me.name.c_str(), (unsigned long)vnow);
        if (me.held == 1) --nreaders; else --nwriters;
        me.held = 0;
        if (q) q->unlock(); else rw->unlock();
        return;
    }
    if (me.held) return;      // no recursive locking in these scripts
    bool wr = k == "w" || k == "tw", tr = k[0] == 't';
    std::string to = tr ? "0" : op[1];
    std::string kk = (tr && !q) ? (wr ? "w" : "r") : k;       // photon::rwlock has no try_lock: a lock with a zero timeout
    emit("call %s %s %s @%lu", me.name.c_str(), kk.c_str(), to.c_str(), (unsigned long)vnow);
    int mode = wr ? photon::WLOCK : photon::RLOCK; errno = 0;
    int ret = q ? (tr ? q->try_lock(mode) : q->lock(mode, TO(to))) : rw->lock(mode, tr ? photon::Timeout(0) : TO(to));
    int en = ret < 0 ? errno : 0;
    emit("ret %s %s %d %d @%lu", me.name.c_str(), kk.c_str(), ret, en, (unsigned long)vnow);
    if (ret == 0) {
        me.held = wr ? 2 : 1;
        if (wr) ++nwriters; else ++nreaders;
        if (nwriters > 1 || (nwriters && nreaders)) emit("overlap %s writers=%d readers=%d", me.name.c_str(), nwriters, nreaders);
    }
}
static void* run_script(void* arg) {
    auto& s = *(Script*)arg;
    for (auto& op : s.ops) exec_op(s, op);
    if (s.held) exec_op(s, {"u"});
    emit("end %s", s.name.c_str());
    done_sem->signal(1);
    return nullptr;
}
// the program has N s in which the machine runs it (watchdog.h): spinning or blocked in the kernel after that = hung
static void on_verdict(const char* result) { trace += wd::g_diag; emit("%s", result); flush_trace(); _exit(0); }

static int run_program(const std::vector<std::string>& lines) {
    wd::start(nullptr, on_verdict, 10, 1);
    init();
    photon::verif::hook = [](int p, const void*, uint64_t a, uint64_t b) { if (p == photon::verif::GUARD && !a) emit("guard-violation lock site=%lu", (unsigned long)b); };
    std::string kind = "qrw";
    for (auto& l : lines) {
        std::istringstream is(l); std::string w; is >> w;
        if (w == "lock") is >> kind;
        else if (w == "thread") { Script s; is >> s.name; std::vector<std::string> op; std::string t;
            while (is >> t) { if (t == ";") { if (!op.empty()) s.ops.push_back(op); op.clear(); } else op.push_back(t); }
            if (!op.empty()) s.ops.push_back(op);
            scripts[s.name] = s; order.push_back(s.name); }
    }
    if (kind == "qrw") q = new photon::qrwlock; else rw = new photon::rwlock;
    emit("init %s", kind.c_str());
    done_sem = new photon::semaphore(0);
    on_stuck = [] { emit("result stuck"); flush_trace(); _exit(0); };
    for (auto& n : order) { next_thread_name = n; auto th = photon::thread_create(&run_script, &scripts[n]); set_name(th, n); }
    done_sem->wait(order.size());
    finished = true;
    emit("result done");
    flush_trace();
    _exit(0);
}
int main() {
    std::string line; std::vector<std::string> prog;
    while (std::getline(std::cin, line)) {
        if (line == "run") {
            fflush(stdout);
            pid_t pid = fork();
            if (pid == 0) { run_program(prog); _exit(0); }
            int st = 0; waitpid(pid, &st, 0);
            if (WIFSIGNALED(st)) printf("result crashed signal=%d\n", WTERMSIG(st));
            else if (WEXITSTATUS(st) != 0) printf("result crashed exit=%d\n", WEXITSTATUS(st));
            printf("endprog\n"); fflush(stdout);
            prog.clear();
        } else prog.push_back(line);
    }
    return 0;
}
