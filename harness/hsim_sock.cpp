// H-sim harness for C10: real photon socket streams over REAL kernel sockets and the REAL event engine, one vCPU, virtual
// clock. The harness engine delegates wait_for_fd to the real engine (epoll / epoll-ng) and polls it (timeout 0) whenever the
// vCPU goes idle; only when the kernel has nothing to report does it declare a quiescence point and jump virtual time.
//   engine <epoll|epollng> <plain|et>
//   conn <id> <tcp|unix> <sndbuf> <rcvbuf>          endpoints <id>a (client side) and <id>b (accepted side)
//   thread <T> op ; op ; ...
//      write <ep> <n> | writev <ep> <l1,l2,..> | send <ep> <n> (one send()) | sendall <ep> <n> [chunk] (send() until n bytes)
//      read <ep> <n> | readv <ep> <l1,..> | recv <ep> <n> | recvv <ep> <l1,..> | recvall <ep> <n> [chunk]
//      timeout <ep> <us|inf> | shutdown <ep> (write side) | close <ep> | sleep <us> | yield
//   run
// trace: call <T> <kind> <ep> <req> @t | ret <T> <kind> <ep> r=<r> e=<errno> off=<stream offset> data=<ok|BAD@k|na> @t |
//        set <T> timeout <ep> <us> | shutdown <T> <ep> | close <T> <ep> | q/tick (quiescence, virtual time) | result ...
#include <photon/thread/thread.h>
#include <photon/net/socket.h>
#include <photon/io/fd-events.h>
#include "hsim.h"
#include <iostream>
#include <sstream>
#include <sys/wait.h>
#include <sys/socket.h>
#include <sys/ioctl.h>
#include <poll.h>
#include <linux/sockios.h>
#include <csignal>
#include "watchdog.h"
using namespace hsim;
using namespace photon::net;

static inline unsigned char sbyte(int dir, uint64_t off) { uint64_t x = (off + 1) * 0x9E3779B97F4A7C15ULL + dir * 0xD1B54A32D192ED03ULL; x ^= x >> 31; return (unsigned char)(x * 0x7F + (off >> 9)); }

struct End { ISocketStream* s = nullptr; int dir; std::string peer; uint64_t wpos = 0, rpos = 0; bool wtaint = false, rtaint = false; bool tcp = false;
             int reading = 0, writing = 0; bool shut = false, eof_seen = false; int fd() { return s ? (int)(uint64_t)s->get_underlay_object() : -1; } };
static std::map<std::string, End> ends;      // "0a" ...
static int ndirs = 0; static bool any_tcp = false; static long grace_ms = 0;
// Loopback TCP moves data, window updates and FINs asynchronously (softirq, delayed ACKs): before the harness may call a state
// quiescent it must let the kernel finish what is under way. True while some blocked reader's peer still has unacknowledged
// bytes queued (or a FIN under way), or some blocked writer's peer has an empty receive queue (its window is about to open).
static bool tcp_pending() {
    for (auto& kv : ends) { End& e = kv.second; if (!e.tcp || !e.s) continue; End& p = ends[e.peer];
        if (e.reading) { int q = 0; if (p.s && ioctl(p.fd(), SIOCOUTQ, &q) == 0 && q > 0) return true; if ((p.shut || !p.s) && !e.eof_seen) return true; }
        if (e.writing) { int q = 1; if (p.s && ioctl(p.fd(), FIONREAD, &q) == 0 && q == 0) return true; } }
    return false;
}

struct SockEngine : public VEngine {
    photon::MasterEventEngine* inner = nullptr;
    int wait_for_fd(int fd, uint32_t i, photon::Timeout t) override {
        int r = inner->wait_for_fd(fd, i, t);
        if (r == 0 && (i & (photon::EVENT_READ | photon::EVENT_WRITE))) {      // told "ready": is this descriptor, in this direction, really ready?
            int sv = errno;
            pollfd p{fd, (short)(((i & photon::EVENT_READ) ? (POLLIN | POLLRDHUP) : 0) | ((i & photon::EVENT_WRITE) ? POLLOUT : 0)), 0};
            if (::poll(&p, 1, 0) == 0) emit("spurious %s fd=%d interest=%u @%lu", cur().c_str(), fd, i, (unsigned long)vnow);
            errno = sv;
        }
        return r;
    }
    // epoll-ng reaps its sub-pollers in one call and fires what it reaped in the next (the idler's loop calls again): do the same
    ssize_t poll(uint64_t t) { ssize_t n = inner->wait_and_fire_events(t); if (n == 0) n = inner->wait_and_fire_events(0); return n; }
    ssize_t wait_and_fire_events(uint64_t timeout) override {
        if (finished) return 0;
        ssize_t n = poll(0);                                 // what the kernel has to report right now
        if (n > 0 || timeout == 0) return n;
        for (int i = 0; any_tcp && i < 500 && tcp_pending(); ++i) { ++grace_ms; n = poll(1000); if (n > 0) return n; }   // up to 0.5 s of real time
        return VEngine::wait_and_fire_events(timeout);
    }
    int cancel_wait() override { return inner->cancel_wait(); }
};

struct Script { std::string name; std::vector<std::vector<std::string>> ops; };
static std::map<std::string, Script> scripts; static std::vector<std::string> order;
static photon::semaphore* done_sem;

static std::vector<size_t> lens(const std::string& s) { std::vector<size_t> v; std::istringstream is(s); std::string t; while (std::getline(is, t, ',')) v.push_back(strtoul(t.c_str(), 0, 10)); return v; }

struct Bufs { std::vector<unsigned char*> blocks; std::vector<iovec> iov; size_t total = 0;
    Bufs(const std::vector<size_t>& ls) { for (auto l : ls) { auto b = (unsigned char*)malloc(l ? l : 1); blocks.push_back(b); iov.push_back({b, l}); total += l; } }
    ~Bufs() { for (auto b : blocks) free(b); }
    void fill(int dir, uint64_t pos) { for (auto& v : iov) for (size_t i = 0; i < v.iov_len; ++i) ((unsigned char*)v.iov_base)[i] = sbyte(dir, pos++); }
    void poison() { for (auto& v : iov) memset(v.iov_base, 0xEE, v.iov_len ? v.iov_len : 1); }
    std::string check(int dir, uint64_t pos, ssize_t r) { size_t k = 0; for (auto& v : iov) for (size_t i = 0; i < v.iov_len && k < (size_t)r; ++i, ++k) if (((unsigned char*)v.iov_base)[i] != sbyte(dir, pos + k)) return "BAD@" + std::to_string(k); return "ok"; }
};

static void do_write(Script& me, End& e, const std::string& ep, const std::string& kind, const std::vector<size_t>& ls) {
    Bufs b(ls); b.fill(e.dir, e.wpos);
    emit("call %s %s %s %zu @%lu", me.name.c_str(), kind.c_str(), ep.c_str(), b.total, (unsigned long)vnow);
    ++e.writing;
    ssize_t r; errno = 0;
    if (kind == "write") r = e.s->write(b.iov[0].iov_base, b.iov[0].iov_len);
    else if (kind == "writev") r = e.s->writev(b.iov.data(), b.iov.size());
    else if (kind == "send") r = e.s->send(b.iov[0].iov_base, b.iov[0].iov_len);
    else r = e.s->send(b.iov.data(), (int)b.iov.size());
    int en = r < 0 ? errno : 0;
    --e.writing;
    emit("ret %s %s %s r=%zd e=%d off=%lu data=%s @%lu", me.name.c_str(), kind.c_str(), ep.c_str(), r, en, (unsigned long)e.wpos, e.wtaint ? "na" : "ok", (unsigned long)vnow);
    if (r > 0) e.wpos += r;
    if (r < 0 && (kind == "write" || kind == "writev")) e.wtaint = true;     // an unknown part of the request may have been transferred
}
static ssize_t do_read(Script& me, End& e, const std::string& ep, const std::string& kind, const std::vector<size_t>& ls) {
    Bufs b(ls); b.poison();
    End& w = ends[e.peer];
    emit("call %s %s %s %zu @%lu", me.name.c_str(), kind.c_str(), ep.c_str(), b.total, (unsigned long)vnow);
    ++e.reading;
    ssize_t r; errno = 0;
    if (kind == "read") r = e.s->read(b.iov[0].iov_base, b.iov[0].iov_len);
    else if (kind == "readv") r = e.s->readv(b.iov.data(), b.iov.size());
    else if (kind == "recv") r = e.s->recv(b.iov[0].iov_base, b.iov[0].iov_len);
    else r = e.s->recv(b.iov.data(), (int)b.iov.size());
    int en = r < 0 ? errno : 0;
    --e.reading; if (r == 0 && b.total > 0) e.eof_seen = true;
    bool na = e.rtaint || w.wtaint;
    std::string d = r > 0 ? (na ? "na" : b.check(w.dir, e.rpos, r)) : "-";
    emit("ret %s %s %s r=%zd e=%d off=%lu data=%s @%lu", me.name.c_str(), kind.c_str(), ep.c_str(), r, en, (unsigned long)e.rpos, d.c_str(), (unsigned long)vnow);
    if (r > 0) e.rpos += r;
    if (r < 0 && (kind == "read" || kind == "readv")) e.rtaint = true;       // bytes already moved by the failed call are gone
    return r;
}

static void exec_op(Script& me, const std::vector<std::string>& op) {
    auto& k = op[0];
    if (k == "sleep") {      // nobody interrupts the scripts' sleeps: a sleep that ends early was woken by somebody else's readiness event
        if (photon::thread_usleep(strtoull(op[1].c_str(), 0, 10)) != 0) emit("spurious %s sleep errno=%d @%lu", me.name.c_str(), errno, (unsigned long)vnow);
        return; }
    if (k == "yield") { photon::thread_yield(); return; }
    auto it = ends.find(op[1]); if (it == ends.end()) return;
    End& e = it->second; const std::string& ep = op[1];
    if (!e.s) return;        // closed earlier by the script
    if (k == "write" || k == "send") do_write(me, e, ep, k, {strtoul(op[2].c_str(), 0, 10)});
    else if (k == "writev" || k == "sendv") do_write(me, e, ep, k, lens(op[2]));
    else if (k == "sendall") { size_t n = strtoul(op[2].c_str(), 0, 10), chunk = op.size() > 3 ? strtoul(op[3].c_str(), 0, 10) : n; size_t done = 0;
        while (done < n) { auto before = e.wpos; do_write(me, e, ep, "send", {std::min(chunk, n - done)}); if (e.wpos == before) break; done += e.wpos - before; } }
    else if (k == "read" || k == "recv") do_read(me, e, ep, k, {strtoul(op[2].c_str(), 0, 10)});
    else if (k == "readv" || k == "recvv") do_read(me, e, ep, k, lens(op[2]));
    else if (k == "recvall") { size_t n = strtoul(op[2].c_str(), 0, 10), chunk = op.size() > 3 ? strtoul(op[3].c_str(), 0, 10) : n; size_t done = 0;
        while (done < n) { ssize_t r = do_read(me, e, ep, "recv", {std::min(chunk, n - done)}); if (r <= 0) break; done += r; } }
    else if (k == "timeout") { uint64_t t = op[2] == "inf" ? -1ULL : strtoull(op[2].c_str(), 0, 10); e.s->timeout(t); emit("set %s timeout %s %s", me.name.c_str(), ep.c_str(), op[2].c_str()); }
    else if (k == "shutdown") { emit("shutdown %s %s @%lu", me.name.c_str(), ep.c_str(), (unsigned long)vnow); e.s->shutdown(ShutdownHow::Write); e.shut = true; }
    else if (k == "close") { emit("close %s %s @%lu", me.name.c_str(), ep.c_str(), (unsigned long)vnow); delete e.s; e.s = nullptr; }
}
static void* run_script(void* arg) { auto& s = *(Script*)arg; for (auto& op : s.ops) exec_op(s, op); emit("end %s", s.name.c_str()); done_sem->signal(1); return nullptr; }
// the program has N s in which the machine runs it (watchdog.h): spinning or blocked in the kernel after that = hung
static void on_verdict(const char* result) { trace += wd::g_diag; emit("%s", result); flush_trace(); _exit(0); }
static void on_segv(int sg) { emit("result crashed signal=%d", sg); flush_trace(); _exit(0); }

struct ConnSpec { std::string id, kind; int snd, rcv; };
static ISocketStream* accepted = nullptr;

static int run_program(const std::vector<std::string>& lines) {
    wd::start(nullptr, on_verdict, 60, 1); signal(SIGSEGV, on_segv); signal(SIGABRT, on_segv); signal(SIGPIPE, SIG_IGN);
    std::string eng = "epoll", sk = "plain"; std::vector<ConnSpec> conns;
    for (auto& l : lines) {
        std::istringstream is(l); std::string w; is >> w;
        if (w == "engine") is >> eng >> sk;
        else if (w == "conn") { ConnSpec c; is >> c.id >> c.kind >> c.snd >> c.rcv; conns.push_back(c); }
        else if (w == "thread") { Script s; is >> s.name; std::vector<std::string> op; std::string t;
            while (is >> t) { if (t == ";") { if (!op.empty()) s.ops.push_back(op); op.clear(); } else op.push_back(t); }
            if (!op.empty()) s.ops.push_back(op); scripts[s.name] = s; order.push_back(s.name); }
    }
    set_log_output(log_output_null);
    photon::vcpu_init();
    auto se = new SockEngine;
    se->inner = eng == "epollng" ? photon::new_epoll_ng_master_engine() : photon::new_epoll_master_engine();
    if (!se->inner) { printf("result noengine\n"); fflush(stdout); _exit(0); }
    photon::fd_events_init(se);
    photon::now = vnow; photon::verif::hook = nullptr; set_name(photon::CURRENT, "T0");
    bool et = sk == "et";
    if (et) et_poller_init();
    // connections, made through the library's own client/server objects (connect/accept go through the engine as well)
    std::string base = "/var/tmp/photon-verif/c10"; if (system(("mkdir -p " + base).c_str())) {}
    for (auto& c : conns) {
        bool tcp = c.kind == "tcp" || et;
        ISocketServer* srv = tcp ? (et ? new_et_tcp_socket_server() : new_tcp_socket_server()) : new_uds_server(true);
        ISocketClient* cli = tcp ? (et ? new_et_tcp_socket_client() : new_tcp_socket_client()) : new_uds_client();
        std::string path = base + "/" + std::to_string(getpid()) + "-" + c.id + ".sock";
        int rc = tcp ? srv->bind(EndPoint(IPAddr("127.0.0.1"), 0)) : srv->bind(path.c_str(), path.size());
        if (rc < 0 || srv->listen(16) < 0) { printf("result nobind %d\n", errno); fflush(stdout); _exit(0); }
        accepted = nullptr;
        auto th = photon::thread_enable_join(photon::thread_create11([srv] { accepted = srv->accept(); }));
        ISocketStream* a = tcp ? cli->connect(srv->getsockname()) : cli->connect(path.c_str(), path.size());
        photon::thread_join(th);
        if (!a || !accepted) { printf("result noconnect %d\n", errno); fflush(stdout); _exit(0); }
        for (auto s : {a, accepted}) { if (c.snd) s->setsockopt(SOL_SOCKET, SO_SNDBUF, &c.snd, sizeof(int)); if (c.rcv) s->setsockopt(SOL_SOCKET, SO_RCVBUF, &c.rcv, sizeof(int)); }
        End ea; ea.s = a; ea.dir = ndirs++; ea.tcp = tcp; ea.peer = c.id + "b"; End eb; eb.s = accepted; eb.dir = ndirs++; eb.tcp = tcp; eb.peer = c.id + "a";
        ends[c.id + "a"] = ea; ends[c.id + "b"] = eb;
        any_tcp |= tcp;
        delete cli; delete srv;       // the listening socket is not needed any more
        emit("conn %s %s", c.id.c_str(), tcp ? "tcp" : "unix");
    }
    trace.clear(); for (auto& c : conns) emit("conn %s", c.id.c_str());
    emit("init %s %s @%lu", eng.c_str(), sk.c_str(), (unsigned long)vnow);
    done_sem = new photon::semaphore(0);
    on_stuck = [] { emit("result stuck"); flush_trace(); _exit(0); };
    if (et) max_vtime = vnow + 30ULL * 1000 * 1000;
    for (auto& n : order) { next_thread_name = n; auto th = photon::thread_create(&run_script, &scripts[n], 256 * 1024); set_name(th, n); }
    if (et) {   // the ET poller's event loop wakes every millisecond of virtual time for ever: bound the wait for the scripts
        int left = order.size();
        while (left > 0 && vnow < max_vtime) { if (done_sem->wait(1, 1000 * 1000) == 0) --left; }
        if (left > 0) { emit("result stuck"); flush_trace(); _exit(0); }
    } else done_sem->wait(order.size());
    finished = true;
    emit("grace_ms %ld", grace_ms);
    emit("result done");
    flush_trace();
    _exit(0);
}
int main() {
    std::string line; std::vector<std::string> prog;
    while (std::getline(std::cin, line)) {
        if (line == "run") {
            fflush(stdout);
            pid_t pid = fork();
            if (pid == 0) { run_program(prog); _exit(0); }
            int st = 0; waitpid(pid, &st, 0);
            if (WIFSIGNALED(st)) printf("result crashed signal=%d\n", WTERMSIG(st));
            else if (WEXITSTATUS(st) != 0) printf("result crashed exit=%d\n", WEXITSTATUS(st));
            printf("endprog\n"); fflush(stdout);
            prog.clear();
        } else prog.push_back(line);
    }
    return 0;
}
