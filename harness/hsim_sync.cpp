// H-sim harness for the scheduler contract and the synchronisation primitives (C01-C04, C06).
// Reads programs from stdin, runs each in a forked child on the real runtime (virtual clock), prints the trace.
//
//   obj mutex <name> <retries> | obj rmutex <name> <retries> | obj sem <name> <count> <inorder 0|1> | obj cv <name> | obj rw <name> | obj spin <name>
//   thread <T> <op> ; <op> ; ...        (created by T0 at start, in this order)
//   dthread <T> <op> ; ...              (created by a `create <T>` op)
//   at <vtime> intr <T> <errno>         (external event fired by the idler at quiescence)
//   run
// ops: sleep <us|inf> | yield | intr <T> <e> | shutdown <T> | lock <m> <to> | trylock <m> | unlock <m>
//      wait <s> <n> <to> | waiti <s> <n> <to> | signal <s> <n> | cvwait <cv> <m|spin> <to> | notify <cv> | notifyall <cv>
//      rlock <rw> <to> | wlock <rw> <to> | rwunlock <rw> | create <T> | join <T> | slock <spin> | sunlock <spin>
#define protected public
#include <photon/thread/thread.h>
#undef protected
#include "hsim.h"
#include <iostream>
#include <sstream>
#include <sys/wait.h>
#include <csignal>
#include "watchdog.h"
using namespace hsim;

struct Obj { std::string kind; void* p; };
static std::map<std::string, Obj> objs;
struct Script { std::string name; std::vector<std::vector<std::string>> ops; bool deferred; photon::thread* th = nullptr; photon::join_handle* jh = nullptr;
    std::map<std::string, int> held; };   // mutexes / rwlocks this script holds (depth)
static std::map<std::string, Script> scripts;
static std::vector<std::string> order;
static photon::semaphore* done_sem;

static photon::Timeout TO(const std::string& s) { return s == "inf" ? photon::Timeout() : photon::Timeout(strtoull(s.c_str(), 0, 10)); }
static void* run_script(void* arg);

static std::string join_args(const std::vector<std::string>& op) { std::string r; for (auto& x : op) { r += " "; r += x; } return r; }

static void exec_op(Script& me, const std::vector<std::string>& op) {
    auto& k = op[0];
    // program discipline: unlock only what is held, interrupt only live threads
    if ((k == "unlock" || k == "rwunlock") && me.held[op[1]] <= 0) return;
    if ((k == "intr" || k == "shutdown") && !scripts.at(op[1]).th) return;
    if (k == "cvwait" && me.held[op[2]] <= 0) return;
    if ((k == "lock" || k == "trylock") && (objs.at(op[1]).kind == "mutex" || objs.at(op[1]).kind == "cmutex") && me.held[op[1]] > 0) return;   // no self-deadlock on a plain mutex
    emit("call %s%s @%lu", me.name.c_str(), join_args(op).c_str(), (unsigned long)vnow);
    long ret = 0; int en = 0; errno = 0;
    auto O = [&](int i) -> Obj& { return objs.at(op[i]); };
    if (k == "sleep") { ret = photon::thread_usleep(TO(op[1])); en = ret < 0 ? errno : 0; }
    else if (k == "sleepd") { ret = photon::thread_usleep_defer(TO(op[1]), [](void*) {}, nullptr); en = ret < 0 ? errno : 0; }   // public deferred sleep
    else if (k == "yield") { ret = photon::thread_yield(); }
    else if (k == "intr") { photon::thread_interrupt(scripts.at(op[1]).th, atoi(op[2].c_str())); }
    else if (k == "shutdown") { photon::thread_shutdown(scripts.at(op[1]).th); }
    else if (k == "lock") { auto& o = O(1);
        ret = o.kind == "rmutex" ? ((photon::recursive_mutex*)o.p)->lock(TO(op[2])) : ((photon::mutex*)o.p)->lock(TO(op[2])); en = ret < 0 ? errno : 0; }
    else if (k == "trylock") { auto& o = O(1);
        ret = o.kind == "rmutex" ? ((photon::recursive_mutex*)o.p)->try_lock() : ((photon::mutex*)o.p)->try_lock(); }
    else if (k == "unlock") { auto& o = O(1);
        if (o.kind == "rmutex") ((photon::recursive_mutex*)o.p)->unlock(); else ((photon::mutex*)o.p)->unlock(); }
    else if (k == "wait") { ret = ((photon::semaphore*)O(1).p)->wait(strtoull(op[2].c_str(), 0, 10), TO(op[3])); en = ret < 0 ? errno : 0; }
    else if (k == "waiti") { ret = ((photon::semaphore*)O(1).p)->wait_interruptible(strtoull(op[2].c_str(), 0, 10), TO(op[3])); en = ret < 0 ? errno : 0; }
    else if (k == "signal") { ret = ((photon::semaphore*)O(1).p)->signal(strtoull(op[2].c_str(), 0, 10)); }
    else if (k == "cvwait") { auto& l = O(2);
        ret = l.kind == "spin" ? ((photon::condition_variable*)O(1).p)->wait((photon::spinlock*)l.p, TO(op[3]))
                               : ((photon::condition_variable*)O(1).p)->wait((photon::mutex*)l.p, TO(op[3]));
        en = ret < 0 ? errno : 0; }
    else if (k == "notify") { ret = (long)(bool)((photon::condition_variable*)O(1).p)->notify_one(); }
    else if (k == "notifyall") { ret = ((photon::condition_variable*)O(1).p)->notify_all(); }
    else if (k == "rlock") { ret = ((photon::rwlock*)O(1).p)->lock(photon::RLOCK, TO(op[2])); en = ret < 0 ? errno : 0; }
    else if (k == "wlock") { ret = ((photon::rwlock*)O(1).p)->lock(photon::WLOCK, TO(op[2])); en = ret < 0 ? errno : 0; }
    else if (k == "rwunlock") { ret = ((photon::rwlock*)O(1).p)->unlock(); }
    else if (k == "slock") { ret = ((photon::spinlock*)O(1).p)->lock(); }
    else if (k == "sunlock") { ((photon::spinlock*)O(1).p)->unlock(); }
    else if (k == "create") { auto& s = scripts.at(op[1]);
        next_thread_name = s.name; s.th = photon::thread_create(&run_script, &s); set_name(s.th, s.name); s.jh = photon::thread_enable_join(s.th); }
    else if (k == "join") { auto& s = scripts.at(op[1]); if (s.jh) { photon::thread_join(s.jh); s.jh = nullptr; s.th = nullptr; } }
    else { ret = -99; }
    if ((k == "lock" || k == "trylock" || k == "rlock" || k == "wlock" || k == "slock") && ret == 0) me.held[op[1]]++;
    if (k == "unlock" || k == "rwunlock" || k == "sunlock") me.held[op[1]]--;
    emit("ret %s %s %ld %d @%lu", me.name.c_str(), k.c_str(), ret, en, (unsigned long)vnow);
}
static void* run_script(void* arg) {
    auto& s = *(Script*)arg;
    emit("begin %s", s.name.c_str());
    for (auto& op : s.ops) exec_op(s, op);
    emit("end %s", s.name.c_str());
    if (!s.jh) s.th = nullptr;      // a non-joinable thread must not be touched after it ends
    done_sem->signal(1);
    return nullptr;
}

static void report_state(const char* tag) {
    // real object state for the quiescence predicates (compared with the model by the checker)
    for (auto& kv : objs) {
        auto& o = kv.second;
        if (o.kind == "mutex" || o.kind == "rmutex" || o.kind == "cmutex") { auto m = (photon::mutex*)o.p; emit("%s mutex %s owner=%s", tag, kv.first.c_str(), name_of(m->owner.load()).c_str()); }
        else if (o.kind == "sem") { auto s = (photon::semaphore*)o.p; emit("%s sem %s count=%lu", tag, kv.first.c_str(), (unsigned long)s->count()); }
        else if (o.kind == "rw") { auto r = (photon::rwlock*)o.p; emit("%s rw %s state=%ld", tag, kv.first.c_str(), (long)r->state); }
    }
}

// the program has N s in which the machine runs it (watchdog.h): spinning or blocked in the kernel after that = hung
static void on_verdict(const char* result) { trace += wd::g_diag; emit("%s", result); flush_trace(); _exit(0); }
static int run_program(const std::vector<std::string>& lines) {
    wd::start(nullptr, on_verdict, 10, 1);
    init();
    int nthreads = 0;
    for (auto& l : lines) {
        std::istringstream is(l); std::string w; is >> w;
        if (w == "obj") { std::string kind, name; is >> kind >> name; Obj o{kind, nullptr};
            if (kind == "mutex") { int r; is >> r; o.p = new photon::mutex((uint16_t)r); }
            else if (kind == "cmutex") { int r; is >> r; o.p = new photon::mutex((uint16_t)r, true); }
            else if (kind == "rmutex") { int r; is >> r; o.p = new photon::recursive_mutex((uint16_t)r); }
            else if (kind == "sem") { uint64_t c; int ino; is >> c >> ino; o.p = new photon::semaphore(c, ino != 0); }
            else if (kind == "cv") o.p = new photon::condition_variable;
            else if (kind == "rw") o.p = new photon::rwlock;
            else if (kind == "spin") o.p = new photon::spinlock;
            objs[name] = o; set_name(o.p, name);
            if (kind == "rw") { auto r = (photon::rwlock*)o.p; set_name(&r->cvar, name + ".cv"); set_name(&r->mtx, name + ".mtx"); }
        } else if (w == "thread" || w == "dthread") { Script s; is >> s.name; s.deferred = (w == "dthread");
            std::vector<std::string> op; std::string t;
            while (is >> t) { if (t == ";") { if (!op.empty()) s.ops.push_back(op); op.clear(); } else op.push_back(t); }
            if (!op.empty()) s.ops.push_back(op);
            scripts[s.name] = s; order.push_back(s.name); nthreads++;
        } else if (w == "at") { uint64_t t; std::string what, T; int e; is >> t >> what >> T >> e;
            externals.push_back({1000000 + t, [T, e]() { auto th = scripts.at(T).th; if (th) photon::thread_interrupt(th, e); }, "intr " + T + " " + std::to_string(e)});
        } else if (w == "heap") { log_heap = true; }
    }
    std::stable_sort(externals.begin(), externals.end(), [](const External& a, const External& b) { return a.at < b.at; });
    done_sem = new photon::semaphore(0); set_name(done_sem, "_done");
    emit("obj sem _done 0 1");
    on_quiescence = [] { report_state("qs"); };
    on_stuck = [] { report_state("fs"); emit("result stuck"); flush_trace(); _exit(0); };
    int started = 0;
    for (auto& n : order) { auto& s = scripts[n]; if (s.deferred) continue; next_thread_name = s.name; s.th = photon::thread_create(&run_script, &s); set_name(s.th, s.name); started++; }
    emit("started %d", started);
    // T0 waits for every script (deferred ones only if they get created: they signal too)
    int total = 0; for (auto& n : order) total++;
    int need = started;
    // deferred threads that are never created never signal: wait only for what was started, then give the rest a chance
    emit("call T0 wait _done %d inf @%lu", need, (unsigned long)vnow);
    done_sem->wait(need);
    emit("ret T0 wait 0 0 @%lu", (unsigned long)vnow);
    // let created-but-unfinished deferred threads finish
    for (int i = 0; i < 3; ++i) photon::thread_yield();
    (void)total;
    finished = true;
    report_state("fs");
    emit("result done");
    flush_trace();
    _exit(0);
}

int main() {
    std::string line; std::vector<std::string> prog;
    while (std::getline(std::cin, line)) {
        if (line == "run") {
            fflush(stdout);
            pid_t pid = fork();
            if (pid == 0) { run_program(prog); _exit(0); }
            int st = 0; waitpid(pid, &st, 0);
            if (WIFSIGNALED(st)) printf("result crashed signal=%d\n", WTERMSIG(st));
            else if (WEXITSTATUS(st) != 0) printf("result crashed exit=%d\n", WEXITSTATUS(st));
            printf("endprog\n"); fflush(stdout);
            prog.clear();
        } else prog.push_back(line);
    }
    return 0;
}
