// Concurrent harness for C09: the real buffered photon::channel with senders and receivers on their own vCPUs
// (OS threads running photon), infinite timeouts, real races.
//   chan <capacity> <P senders> <C receivers> <items per sender> <gap_us> <close|stop>
//        close: when everything sent has been received the channel is closed (receivers end by recv() == false);
//        stop: the receivers are ended by one STOP element each instead, the channel is never closed
//   run
// output: produced <p> <n> (number of sends that returned true) | got <receiver> <sender> <seq> (each receiver's own
//   order) | result done  -- or, when nobody made progress for 3 s although the threads are not finished:
//   stalled sent=<n> received=<n> size=<n> | result hung
#include <photon/thread/thread.h>
#include <photon/thread/go.h>
#include <photon/photon.h>
#include <photon/common/alog.h>
#include <atomic>
#include <chrono>
#include <thread>
#include <vector>
#include <string>
#include <sstream>
#include <iostream>
#include <cstdio>
#include <csignal>
#include <unistd.h>
#include <sys/wait.h>
#include <cstring>
#include "watchdog.h"

static const uint64_t STOP = ~0ULL;
static uint64_t item(int p, uint64_t seq) { return ((uint64_t)p << 40) | seq; }
static std::atomic<uint64_t> *g_sent_probe = nullptr, *g_recvd_probe = nullptr;
// hang / slow verdicts: watchdog.h (no progress in 2 windows of 10 s in which the machine ran every thread = hung - the in-program watchdog cannot
// run if its own vCPU is stuck; no verdict after 300 s = the machine is too loaded to judge: result slow, inconclusive, not a violation)
static long wd_progress() { return (long)(g_sent_probe ? g_sent_probe->load() + g_recvd_probe->load() : 0); }
static void on_verdict(const char* result) {
    wd::print_diag();
    if (!strcmp(result, "result hung")) printf("stalled no progress for 20 s of real time in which every thread ran or slept voluntarily (progress=%ld)\n", wd_progress());
    printf("%s\n", result); fflush(stdout); _exit(0);
}
static void on_segv(int s) { printf("result crashed signal=%d\n", s); fflush(stdout); _exit(0); }

static int run_program(const std::vector<std::string>& lines) {
    signal(SIGSEGV, on_segv); signal(SIGABRT, on_segv); wd::start(wd_progress, on_verdict);
    set_log_output(log_output_null);
    size_t cap = 1; int P = 1, Cn = 1; uint64_t M = 1000, gap = 0; std::string endmode = "close";
    for (auto& l : lines) { std::istringstream is(l); std::string w; is >> w; if (w == "chan") { is >> cap >> P >> Cn >> M >> gap >> endmode; printf("%s\n", l.c_str()); } }
    photon::init(photon::INIT_EVENT_EPOLL, photon::INIT_IO_NONE);
    auto ch = new photon::channel<uint64_t>(cap);
    std::vector<std::vector<uint64_t>> got(Cn);
    std::vector<uint64_t> sent_ok(P, 0);
    std::atomic<uint64_t> sent{0}, recvd{0}; std::atomic<int> sdone{0}, rdone{0}; g_sent_probe = &sent; g_recvd_probe = &recvd;
    std::vector<std::thread> ts;
    for (int c = 0; c < Cn; ++c) ts.emplace_back([&, c] {
        photon::init(photon::INIT_EVENT_EPOLL, photon::INIT_IO_NONE);
        uint64_t x;
        while (ch->recv(x)) { if (x == STOP) break; got[c].push_back(x); recvd++; }      // false only after close() with a drained buffer
        rdone++;
        photon::fini();
    });
    for (int p = 0; p < P; ++p) ts.emplace_back([&, p] {
        photon::init(photon::INIT_EVENT_EPOLL, photon::INIT_IO_NONE);
        for (uint64_t i = 0; i < M; ++i) { if (gap && i % 64 == 0) photon::thread_usleep(gap); if (!ch->send(item(p, i))) break; sent_ok[p]++; sent++; }
        sdone++;
        photon::fini();
    });
    // watchdog on this (main) vCPU: progress of either side, or everything finished
    uint64_t ls = ~0ULL, lr = ~0ULL; int stalled = 0; bool closed = false;
    for (;;) {
        photon::thread_usleep(100 * 1000);
        if (sdone.load() == P && !closed && recvd.load() == sent.load()) { closed = true; if (endmode == "close") ch->close(); else for (int c = 0; c < Cn; ++c) ch->send(STOP); }
        if (rdone.load() == Cn) break;
        uint64_t s = sent.load(), r = recvd.load();
        if (s == ls && r == lr) stalled++; else stalled = 0;
        ls = s; lr = r;
        if (stalled >= 30 && !wd::confirm_stall(3)) stalled = 0;      // progress resumed, or the machine did not run some thread: not the channel's stall
        if (stalled >= 30) {
            for (int p = 0; p < P; ++p) printf("produced %d %lu\n", p, (unsigned long)sent_ok[p]);
            printf("stalled sent=%lu received=%lu size=%zu capacity=%zu senders_done=%d receivers_done=%d closed=%d\n", (unsigned long)s, (unsigned long)r, ch->size(), cap, sdone.load(), rdone.load(), (int)ch->is_closed());
            printf("result hung\n"); fflush(stdout); _exit(0);
        }
    }
    for (auto& t : ts) t.join();
    for (int p = 0; p < P; ++p) printf("produced %d %lu\n", p, (unsigned long)sent_ok[p]);
    for (int c = 0; c < Cn; ++c) for (auto x : got[c]) printf("got %d %lu %lu\n", c, (unsigned long)(x >> 40), (unsigned long)(x & ((1ULL << 40) - 1)));
    printf("result done\n"); fflush(stdout);
    _exit(0);
}
int main() {
    std::string line; std::vector<std::string> prog;
    while (std::getline(std::cin, line)) {
        if (line == "run") {
            fflush(stdout);
            pid_t pid = fork();
            if (pid == 0) { run_program(prog); _exit(0); }
            int st = 0; waitpid(pid, &st, 0);
            if (WIFSIGNALED(st)) printf("result crashed signal=%d\n", WTERMSIG(st));
            else if (WEXITSTATUS(st) != 0) printf("result crashed exit=%d\n", WEXITSTATUS(st));
            printf("endprog\n"); fflush(stdout);
            prog.clear();
        } else prog.push_back(line);
    }
    return 0;
}
