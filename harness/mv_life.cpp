// Multi-vCPU lifecycle harness for C05: real photon vCPUs on OS threads (real time, real races), scripted photon threads.
//   vcpus <N> <ws 0|1>                      N vCPUs; ws=1: active+passive work stealing on every vCPU
//   thread <name> <vcpu|-> <joinable> <stealable> <retval> ops...
//        vcpu "-": created by another thread (op `c`), otherwise created by that vCPU's main thread at start
//        ops: y | s<us> | m<vcpu> (migrate self) | j<name> (join) | c<name> (create) | k (interrupt the thread that is joining me)
//   run
// Every event is stamped with a global atomic sequence number; the log is printed in that order:
//   create <t> by <p> | begin <t> <v> | leave <t> <v> | enter <t> <v> | end <t> <v> <val> | joined <j> <t> <val> | count <v> <before> <after>
#include <photon/thread/thread.h>
#include <photon/io/fd-events.h>
#include <photon/photon.h>
#include <photon/common/alog.h>
#include <atomic>
#include <thread>
#include <vector>
#include <map>
#include <string>
#include <sstream>
#include <iostream>
#include <cstdio>
#include <cstring>
#include <csignal>
#include <unistd.h>
#include <sys/wait.h>
#include <execinfo.h>
#include <cstring>
#include "watchdog.h"
using namespace photon;

struct Rec { int kind; int t; int a; long b; };
static const int MAXLOG = 1 << 20;
static Rec* logbuf; static std::atomic<long> logpos{0};
static void ev(int kind, int t, int a = 0, long b = 0) { long i = logpos.fetch_add(1); if (i < MAXLOG) logbuf[i] = {kind, t, a, b}; }
enum { CREATE, BEGIN, LEAVE, ENTER, END, JOINED, OVERLAP, MIGFAIL };

struct T { std::string name; int id; int vcpu; bool joinable, stealable; long retval; std::vector<std::string> ops;
    std::atomic<thread*> th{nullptr}; std::atomic<join_handle*> jh{nullptr}; std::atomic<int> inside{0}; std::atomic<int> begun{0};
    std::atomic<thread*> joiner{nullptr}; };
static std::vector<T*> threads; static std::map<std::string, int> ids;
static std::vector<vcpu_base*> vcpus; static std::atomic<int> vready{0}, ended{0};
static std::atomic<int> accepting[64];
static int NV = 1, WS = 0, LAZY = -1;    // LAZY: a vCPU whose main blocks outside photon for a while and then calls vcpu_fini() right away
static int my_vcpu() { auto v = get_vcpu(); for (size_t i = 0; i < vcpus.size(); ++i) if (vcpus[i] == v) return i; return -1; }

static void* entry(void* arg);
static void spawn(T* t, int by) {
    ev(CREATE, t->id, by);
    uint64_t flags = (t->joinable ? THREAD_JOINABLE : 0) | (t->stealable ? THREAD_ENABLE_WORK_STEALING : 0);
    auto th = thread_create(&entry, t, 256 * 1024, 0, flags);
    t->th = th;
    if (t->joinable) t->jh = (join_handle*)th;      // a thread created with THREAD_JOINABLE is joined through its own handle
}
static void leave(T* t) { t->inside = 0; ev(LEAVE, t->id, my_vcpu()); }
static void enter(T* t) { if (t->inside.exchange(1) == 1) ev(OVERLAP, t->id, my_vcpu()); ev(ENTER, t->id, my_vcpu()); }
static void* entry(void* arg) {
    T* t = (T*)arg;
    if (t->begun.fetch_add(1) != 0) ev(OVERLAP, t->id, -2);
    if (t->inside.exchange(1) == 1) ev(OVERLAP, t->id, my_vcpu());
    ev(BEGIN, t->id, my_vcpu());
    for (auto& op : t->ops) {
        char k = op[0]; std::string a = op.substr(1);
        if (k == 'y') { leave(t); thread_yield(); enter(t); }
        else if (k == 's') { leave(t); thread_usleep(strtoul(a.c_str(), 0, 10)); enter(t); }
        else if (k == 'm') { int v = atoi(a.c_str()) % NV; if (!accepting[v].load()) continue; leave(t); int r = thread_migrate(CURRENT, vcpus[v]); enter(t); if (r != 0) ev(MIGFAIL, t->id, v); }
        else if (k == 'j') { auto o = threads[ids[a]]; join_handle* jh = o->jh.exchange(nullptr);
            if (jh) { o->joiner = CURRENT; leave(t); void* r = thread_join(jh); o->joiner = nullptr; enter(t); ev(JOINED, t->id, o->id, (long)(intptr_t)r); } }
        else if (k == 'k') { auto j = t->joiner.load(); if (j) thread_interrupt(j, EINTR); }   // kick whoever is blocked joining me: it must keep waiting (it stays blocked until I end, so it is alive)
        else if (k == 'c') { auto o = threads[ids[a]]; if (!o->th.load() && o->vcpu < 0) { o->vcpu = -2; spawn(o, t->id); } }
    }
    ev(END, t->id, my_vcpu(), t->retval);
    t->inside = 0;
    ended++;
    return (void*)(intptr_t)t->retval;
}

static long counts[64][2];
static volatile int phase[64];
static void vmain(int v) {
    phase[v] = 1;
    vcpu_init(WS ? (VCPU_ENABLE_ACTIVE_WORK_STEALING | VCPU_ENABLE_PASSIVE_WORK_STEALING) : 0);
    fd_events_init(INIT_EVENT_EPOLL);
    vcpus[v] = get_vcpu(); accepting[v] = 1;
    counts[v][0] = get_info(INFO_THREAD_NUM);
    vready++; phase[v] = 2;
    while (vready < NV) thread_usleep(100);
    for (auto t : threads) if (t->vcpu == v) spawn(t, -1 - v);
    if (v == LAZY) {      // threads migrated here meanwhile sit in the standby queue: vcpu_fini() must run them to completion
        ::usleep(3000); accepting[v] = 0; ::usleep(3000);      // no new migrations towards this vCPU from now on; those already issued are in its standby queue
        phase[v] = 6; counts[v][1] = counts[v][0]; fd_events_fini(); phase[v] = 7; vcpu_fini(); phase[v] = 8; return;
    }
    phase[v] = 3;
    // wait until every scripted thread has ended (threads never created by anybody are not counted)
    int expected = 0;
    for (;;) {
        thread_usleep(500);
        expected = 0; for (auto t : threads) if (t->th.load() || t->vcpu >= 0) expected++;
        if (ended.load() >= expected && expected > 0) { static std::atomic<int> settle{0}; if (settle++ > 4 * NV) break; }
    }
    phase[v] = 4;
    // join whatever the script left unjoined (so that thread counts can return to their initial value)
    for (auto t : threads) { join_handle* jh = t->jh.exchange(nullptr); if (jh) { void* r = thread_join(jh); ev(JOINED, -1 - v, t->id, (long)(intptr_t)r); } }
    phase[v] = 5;
    for (int i = 0; i < 20; ++i) thread_usleep(500);
    phase[v] = 6;
    counts[v][1] = get_info(INFO_THREAD_NUM);
    fd_events_fini(); phase[v] = 7;
    vcpu_fini(); phase[v] = 8;
}
static void dump_log();
// hang / slow verdicts: watchdog.h (no event logged in 2 windows of 10 s in which the machine ran every thread = hung; no verdict after 300 s =
// the machine is too loaded: result slow, inconclusive)
static long wd_progress() { return logpos.load(); }
static void on_verdict(const char* result) {
    dump_log(); wd::print_diag();
    if (!strcmp(result, "result hung")) { printf("phases"); for (int v = 0; v < NV; ++v) printf(" %d", phase[v]); printf(" ended=%d\n", ended.load()); }
    printf("%s\n", result); fflush(stdout); _exit(0);
}

static void dump_log() {
    long n = std::min<long>(logpos.load(), MAXLOG);
    auto nm = [&](int id) { return id >= 0 ? threads[id]->name : "main" + std::to_string(-1 - id); };
    for (long i = 0; i < n; ++i) { auto& r = logbuf[i];
        switch (r.kind) {
        case CREATE: printf("create %s by %s\n", nm(r.t).c_str(), nm(r.a).c_str()); break;
        case BEGIN: printf("begin %s %d\n", nm(r.t).c_str(), r.a); break;
        case LEAVE: printf("leave %s %d\n", nm(r.t).c_str(), r.a); break;
        case ENTER: printf("enter %s %d\n", nm(r.t).c_str(), r.a); break;
        case END: printf("end %s %d %ld\n", nm(r.t).c_str(), r.a, r.b); break;
        case JOINED: printf("joined %s %s %ld\n", nm(r.t).c_str(), nm(r.a).c_str(), r.b); break;
        case OVERLAP: printf("overlap %s %d\n", nm(r.t).c_str(), r.a); break;
        case MIGFAIL: printf("migfail %s %d\n", nm(r.t).c_str(), r.a); break;
        } }
}

static void on_segv(int sig) { void* bt[40]; int n = backtrace(bt, 40); printf("segv signal=%d phases", sig); for (int v = 0; v < NV; ++v) printf(" %d", phase[v]); printf("\n"); fflush(stdout); backtrace_symbols_fd(bt, n, 1); printf("result crashed signal=%d\n", sig); fflush(stdout); _exit(0); }

static int run_program(const std::vector<std::string>& lines) {
    wd::start(wd_progress, on_verdict);
    if (!getenv("MV_CORE")) { signal(SIGSEGV, on_segv); signal(SIGBUS, on_segv); signal(SIGABRT, on_segv); }
    set_log_output(log_output_null);
    logbuf = new Rec[MAXLOG];
    for (auto& l : lines) {
        std::istringstream is(l); std::string w; is >> w;
        if (w == "vcpus") { is >> NV >> WS; std::string lz; if (is >> lz) LAZY = atoi(lz.c_str()); }
        else if (w == "thread") { auto t = new T; std::string vc; int j, s; is >> t->name >> vc >> j >> s >> t->retval; t->joinable = j; t->stealable = s;
            t->vcpu = vc == "-" ? -1 : atoi(vc.c_str()); std::string o; while (is >> o) t->ops.push_back(o); t->id = threads.size(); ids[t->name] = t->id; threads.push_back(t); }
    }
    for (auto t : threads) if (t->vcpu >= NV) t->vcpu %= NV;
    vcpus.resize(NV);
    std::vector<std::thread> os;
    for (int v = 0; v < NV; ++v) os.emplace_back(vmain, v);
    for (auto& o : os) o.join();
    dump_log();
    for (auto t : threads) printf("summary %s created=%d begun=%d\n", t->name.c_str(), t->th.load() ? 1 : 0, t->begun.load());
    for (int v = 0; v < NV; ++v) printf("count %d %ld %ld\n", v, counts[v][0], counts[v][1]);
    printf("result done\n");
    fflush(stdout);
    _exit(0);
}
int main() {
    std::string line; std::vector<std::string> prog;
    while (std::getline(std::cin, line)) {
        if (line == "run") {
            fflush(stdout);
            pid_t pid = fork();
            if (pid == 0) { run_program(prog); _exit(0); }
            int st = 0; waitpid(pid, &st, 0);
            if (WIFSIGNALED(st)) printf("result crashed signal=%d\n", WTERMSIG(st));
            else if (WEXITSTATUS(st) != 0) printf("result crashed exit=%d\n", WEXITSTATUS(st));
            printf("endprog\n"); fflush(stdout);
            prog.clear();
        } else prog.push_back(line);
    }
    return 0;
}
