// Multi-vCPU harness for C19: the real ObjectCache<int, Obj*> used from photon threads on several vCPUs (OS threads), real races,
// its expiry timer running on the vCPU that created it.
//   objc <nvcpu> <threads per vcpu> <iters> <keys> <lifespan us> <slow ctor percent> <recycle percent> <fail percent>
//   run
// log in the order of a global atomic stamp (what the log shows as referenced is referenced: `acquired` is stamped after
// acquire() returned, `releasing` before release() is called, ctor/dtor events inside the constructor / destructor):
//   ctor_begin <k> | ctor_end <k> <obj|0> | acquired <T> <k> <obj> | releasing <T> <k> <obj> | destroyed <k> <obj> |
//   dead <T> <k> <obj> (an acquirer saw a destroyed object) | refs <k> <obj> <n> (destroyed with n holders inside)
// Objects are never given back to the allocator (class operator delete is a no-op), so a destroyed object stays recognisable.
#include <photon/thread/thread.h>
#include <photon/thread/thread11.h>
#include <photon/photon.h>
#include <photon/common/alog.h>
#include <photon/common/expirecontainer.h>
#include <atomic>
#include <thread>
#include <vector>
#include <string>
#include <sstream>
#include <iostream>
#include <functional>
#include <cstdio>
#include <cstring>
#include <csignal>
#include <unistd.h>
#include <sys/wait.h>
#include <execinfo.h>
#include <cstring>
#include "watchdog.h"
using namespace photon;

struct Rec { int kind; int t; long a; long b; };
static const int MAXLOG = 1 << 21;
static Rec* logbuf; static std::atomic<long> logpos{0};
static void ev(int kind, int t, long a = 0, long b = 0) { long i = logpos.fetch_add(1); if (i < MAXLOG) logbuf[i] = {kind, t, a, b}; }
enum { CTOR_BEGIN, CTOR_END, ACQUIRED, RELEASING, DESTROYED, DEAD, REFS };
static std::atomic<long> progress{0}; static std::atomic<int> finished_threads{0};
static std::atomic<int> next_obj{1};

static const uint64_t MAGIC = 0x600DF00D600DF00DULL, GONE = 0xDEADDEADDEADDEADULL;
struct Obj {
    uint64_t magic = MAGIC; int key; int id; std::atomic<int> inside{0};
    Obj(int k) : key(k), id(next_obj++) {}
    ~Obj() { if (inside.load() != 0) ev(REFS, key, id, inside.load()); ev(DESTROYED, key, id); magic = GONE; }
    static void operator delete(void*) {}        // quarantine: the memory stays mapped and recognisable
};

static void dump_log() {
    long n = std::min<long>(logpos.load(), MAXLOG);
    for (long i = 0; i < n; ++i) { auto& r = logbuf[i];
        switch (r.kind) {
        case CTOR_BEGIN: printf("ctor_begin %d\n", r.t); break;
        case CTOR_END: printf("ctor_end %d %ld\n", r.t, r.a); break;
        case ACQUIRED: printf("acquired T%d %ld %ld\n", r.t, r.a, r.b); break;
        case RELEASING: printf("releasing T%d %ld %ld\n", r.t, r.a, r.b); break;
        case DESTROYED: printf("destroyed %d %ld\n", r.t, r.a); break;
        case DEAD: printf("dead T%d %ld %ld\n", r.t, r.a, r.b); break;
        case REFS: printf("refs %d %ld %ld\n", r.t, r.a, r.b); break;
        } }
}
// hang / slow verdicts: watchdog.h (no progress in 2 windows of 10 s in which the machine ran every thread = hung - the in-program watchdog cannot
// run if its own vCPU is stuck; no verdict after 300 s = the machine is too loaded to judge: result slow, inconclusive, not a violation)
static long wd_progress() { return progress.load(); }
static void on_verdict(const char* result) {
    dump_log(); wd::print_diag();
    if (!strcmp(result, "result hung")) printf("stalled no progress for 20 s of real time in which every thread ran or slept voluntarily (progress=%ld)\n", wd_progress());
    printf("%s\n", result); fflush(stdout); _exit(0);
}
static void on_segv(int sig) { void* bt[40]; int n = backtrace(bt, 40); dump_log(); printf("segv backtrace:\n"); fflush(stdout); backtrace_symbols_fd(bt, n, 1); printf("result crashed signal=%d\n", sig); fflush(stdout); _exit(0); }

static ObjectCache<int, Obj*>* oc;
static int nkeys = 2, slowpct = 30, recpct = 10, failpct = 10;
static void worker(int id, int iters) {
    unsigned rs = id * 7919 + 13;
    for (int i = 0; i < iters; ++i) {
        rs = rs * 1103515245 + 12345; int k = (rs >> 16) % nkeys;
        unsigned r2 = rs;
        Obj* o = oc->acquire(k, [&]() -> Obj* {
            ev(CTOR_BEGIN, k);
            r2 = r2 * 1103515245 + 12345;
            if ((int)((r2 >> 16) % 100) < slowpct) { if ((r2 >> 8) & 1) thread_usleep(20 + (r2 >> 20) % 200); else thread_yield(); }
            r2 = r2 * 1103515245 + 12345;
            Obj* p = (int)((r2 >> 16) % 100) < failpct ? nullptr : new Obj(k);
            ev(CTOR_END, k, p ? p->id : 0);
            return p; });
        progress++;
        if (!o) { if ((rs >> 8) % 2) thread_yield(); continue; }
        if (o->magic != MAGIC) ev(DEAD, id, k, o->id);
        o->inside++;
        ev(ACQUIRED, id, k, o->id);
        rs = rs * 1103515245 + 12345;
        switch ((rs >> 16) % 4) { case 0: thread_yield(); break; case 1: thread_usleep(10 + (rs >> 20) % 100); break; default: break; }
        if (o->magic != MAGIC) ev(DEAD, id, k, o->id);
        rs = rs * 1103515245 + 12345;
        bool recycle = (int)((rs >> 16) % 100) < recpct;
        ev(RELEASING, id, k, o->id);
        o->inside--;
        oc->release(k, recycle, true);          // recycle: returns when every other holder has released; the object is destroyed by the cache
    }
    finished_threads++;
}

static int run_program(const std::vector<std::string>& lines) {
    signal(SIGSEGV, on_segv); signal(SIGABRT, on_segv); wd::start(wd_progress, on_verdict);
    set_log_output(log_output_null);
    logbuf = new Rec[MAXLOG];
    std::istringstream is(lines.empty() ? "" : lines[0]); std::string kind; is >> kind;
    printf("%s\n", lines.empty() ? "" : lines[0].c_str());
    int nv = 2, per = 2, iters = 1000; uint64_t lifespan = 1000;
    is >> nv >> per >> iters >> nkeys >> lifespan >> slowpct >> recpct >> failpct;
    photon::init(INIT_EVENT_EPOLL, INIT_IO_NONE);
    oc = new ObjectCache<int, Obj*>(lifespan, std::max<uint64_t>(lifespan / 4, 50));
    std::vector<std::thread> os; int id = 0, total = nv * per;
    for (int v = 0; v < nv; ++v) os.emplace_back([&, v, per, iters] {
        photon::init(INIT_EVENT_EPOLL, INIT_IO_NONE); std::vector<join_handle*> js;
        for (int k = 0; k < per; ++k) { int me = v * per + k + 1; js.push_back(thread_enable_join(thread_create11([me, iters] { worker(me, iters); }))); }
        for (auto j : js) thread_join(j); photon::fini(); });
    (void)id;
    long last = -1; int stalled = 0;
    while (finished_threads.load() < total) {
        thread_usleep(100 * 1000);
        long p = progress.load();
        if (p == last) stalled++; else stalled = 0;
        last = p;
        if (stalled >= 30 && getenv("MV_PAUSE_ON_STALL")) { fprintf(stderr, "STALLED pid=%d\n", getpid()); alarm(0); for (;;) ::pause(); }
        if (stalled >= 30 && !wd::confirm_stall(3)) stalled = 0;      // progress resumed, or the machine did not run some thread
        if (stalled >= 30) { dump_log(); printf("stalled finished=%d of %d progress=%ld\nresult hung\n", finished_threads.load(), total, p); fflush(stdout); _exit(0); }
    }
    for (auto& t : os) t.join();
    thread_usleep(lifespan * 3 + 20000);          // let the expiry timer destroy what is left
    dump_log();
    printf("result done\n"); fflush(stdout);
    _exit(0);
}
int main() {
    std::string line; std::vector<std::string> prog;
    while (std::getline(std::cin, line)) {
        if (line == "run") {
            fflush(stdout);
            pid_t pid = fork();
            if (pid == 0) { run_program(prog); _exit(0); }
            int st = 0; waitpid(pid, &st, 0);
            if (WIFSIGNALED(st)) printf("result crashed signal=%d\n", WTERMSIG(st));
            else if (WEXITSTATUS(st) != 0) printf("result crashed exit=%d\n", WEXITSTATUS(st));
            printf("endprog\n"); fflush(stdout);
            prog.clear();
        } else prog.push_back(line);
    }
    return 0;
}
