// Multi-vCPU harness for C08: the real photon::WorkPool (its own worker OS threads), submitters on a photon vCPU and on
// plain OS threads.
//   pool <nvcpu> <mode -1|0|N> <ring_size>
//   sub <name> <photon|os> ops...      ops: c<id>:<body> (call) | a<id>:<body> (async_call) | y | s<us> | i<sub> (interrupt that submitter if it is blocked in call())     body: e | y<n> | s<us>
//   pool ... <joiners>: that many extra OS threads join the pool with join_current_vcpu_into_workpool()
//   run
// Events with a global atomic stamp:  submit <k> <c|a> <sub> | begin <k> | end <k> | callret <k> | deleted <k> |
//   destroy_begin | destroy_end | ; the pool is destroyed after every submitter has finished (async tasks may still be queued)
#include <photon/thread/thread.h>
#include <photon/thread/workerpool.h>
#include <photon/photon.h>
#include <photon/common/alog.h>
#include <atomic>
#include <thread>
#include <vector>
#include <map>
#include <string>
#include <sstream>
#include <iostream>
#include <cstdio>
#include <cstring>
#include <csignal>
#include <unistd.h>
#include <sys/wait.h>
#include <cstring>
#include "watchdog.h"
using namespace photon;

struct Rec { int kind; int k; int a; };
static const int MAXLOG = 1 << 20;
static Rec* logbuf; static std::atomic<long> logpos{0};
static void ev(int kind, int k = 0, int a = 0) { long i = logpos.fetch_add(1); if (i < MAXLOG) logbuf[i] = {kind, k, a}; }
enum { SUBMIT_C, SUBMIT_A, BEGIN, END, CALLRET, DELETED, DBEGIN, DEND, TWICE };

static std::atomic<int> running[4096];
static void body(int k, const std::string& b) {
    if (running[k].fetch_add(1) != 0) ev(TWICE, k);
    ev(BEGIN, k);
    if (b[0] == 'y') { int n = atoi(b.c_str() + 1); for (int i = 0; i < n; ++i) thread_yield(); }
    else if (b[0] == 's') thread_usleep(strtoul(b.c_str() + 1, 0, 10));
    ev(END, k);
}
struct AsyncTask { int k; std::string b; AsyncTask(int k_, std::string b_) : k(k_), b(b_) {} ~AsyncTask() { ev(DELETED, k); } void operator()() { body(k, b); } };

struct Sub { std::string name; bool os; std::vector<std::string> ops; std::atomic<photon::thread*> incall{nullptr}; Sub() {} Sub(const Sub& o) : name(o.name), os(o.os), ops(o.ops) {} };
static std::vector<Sub> subs; static WorkPool* pool;
static std::atomic<int> finished{0};

template <class Ctx> static void run_sub(Sub& s, bool photon_env) {
    for (auto& op : s.ops) {
        char c = op[0];
        if (c == 'c' || c == 'a') { auto colon = op.find(':'); int k = atoi(op.substr(1, colon - 1).c_str()); std::string b = op.substr(colon + 1);
            if (c == 'c') { ev(SUBMIT_C, k); if (photon_env) s.incall = CURRENT; pool->call<Ctx>([k, b] { body(k, b); }); s.incall = nullptr; ev(CALLRET, k); }
            else { ev(SUBMIT_A, k); pool->async_call(new AsyncTask(k, b)); } }
        else if (c == 'i') { for (auto& o : subs) if (o.name == op.substr(1)) { auto th = o.incall.load(); if (th && photon_env) thread_interrupt(th, EINTR); } }   // a caller blocked in call() is interrupted: call() must keep waiting
        else if (c == 'y') { if (photon_env) thread_yield(); else std::this_thread::yield(); }
        else if (c == 's') { auto us = strtoul(op.c_str() + 1, 0, 10); if (photon_env) thread_usleep(us); else usleep(us); }
    }
    finished++;
}
static void* photon_sub(void* a) { run_sub<PhotonContext>(*(Sub*)a, true); return nullptr; }
static void dump_log() {
    long n = std::min<long>(logpos.load(), MAXLOG);
    static const char* nm[] = {"submit c", "submit a", "begin", "end", "callret", "deleted", "destroy_begin", "destroy_end", "twice"};
    for (long i = 0; i < n; ++i) { auto& r = logbuf[i]; if (r.kind == DBEGIN || r.kind == DEND) printf("%s\n", nm[r.kind]); else printf("%s %d\n", nm[r.kind], r.k); }
}
// hang / slow verdicts: watchdog.h (no event logged in 2 windows of 10 s in which the machine ran every thread = hung; no verdict after 300 s =
// the machine is too loaded: result slow, inconclusive)
static long wd_progress() { return logpos.load(); }
static void on_verdict(const char* result) { dump_log(); wd::print_diag(); printf("%s\n", result); fflush(stdout); _exit(0); }
static void on_segv(int sig) { dump_log(); printf("result crashed signal=%d\n", sig); fflush(stdout); _exit(0); }

static int run_program(const std::vector<std::string>& lines) {
    wd::start(wd_progress, on_verdict); signal(SIGSEGV, on_segv); signal(SIGABRT, on_segv);
    set_log_output(log_output_null);
    logbuf = new Rec[MAXLOG];
    int nv = 1, mode = -1, joiners = 0; size_t ring = 65536;
    for (auto& l : lines) {
        std::istringstream is(l); std::string w; is >> w;
        if (w == "pool") { is >> nv >> mode >> ring; if (!(is >> joiners)) joiners = 0; }
        else if (w == "sub") { Sub s; std::string kind; is >> s.name >> kind; s.os = kind == "os"; std::string o; while (is >> o) s.ops.push_back(o); subs.push_back(s); }
    }
    photon::init(INIT_EVENT_EPOLL, INIT_IO_NONE);
    pool = new WorkPool(nv, INIT_EVENT_EPOLL, INIT_IO_NONE, mode, ring);
    std::vector<std::thread> jo;
    for (int j = 0; j < joiners; ++j) jo.emplace_back([] { photon::init(INIT_EVENT_EPOLL, INIT_IO_NONE); pool->join_current_vcpu_into_workpool(); photon::fini(); });
    while (pool->get_vcpu_num() < nv + joiners) thread_usleep(200);
    std::vector<std::thread> os;
    for (auto& s : subs) { if (s.os) os.emplace_back([&s] { run_sub<StdContext>(s, false); }); else thread_create(&photon_sub, &s); }
    while (finished.load() < (int)subs.size()) thread_usleep(500);
    for (auto& t : os) t.join();
    ev(DBEGIN); delete pool; ev(DEND);
    for (auto& t : jo) t.join();
    dump_log();
    printf("result done\n"); fflush(stdout);
    _exit(0);
}
int main() {
    std::string line; std::vector<std::string> prog;
    while (std::getline(std::cin, line)) {
        if (line == "run") {
            fflush(stdout);
            pid_t pid = fork();
            if (pid == 0) { run_program(prog); _exit(0); }
            int st = 0; waitpid(pid, &st, 0);
            if (WIFSIGNALED(st)) printf("result crashed signal=%d\n", WTERMSIG(st));
            else if (WEXITSTATUS(st) != 0) printf("result crashed exit=%d\n", WEXITSTATUS(st));
            printf("endprog\n"); fflush(stdout);
            prog.clear();
        } else prog.push_back(line);
    }
    return 0;
}
