// Concurrent harness for C07: the real ring queues and RingChannel under real OS-thread / multi-vCPU concurrency.
//   ring <mpmc|batch|spsc> <capacity request> <P producers> <C consumers> <items per producer> <blocking 0|1>
//        producers/consumers are OS threads; blocking=1: send()/recv(), 0: push()/pop() retry loops
//   chan <mpmc|batch> <capacity request> <P> <C> <items per producer> <gap_us>
//        RingChannel over the queue: consumers are photon threads on their own vCPUs (recv blocks on the channel's
//        semaphore), producers are OS threads (send<ThreadPause>) that pause gap_us between items so that the consumers
//        really go to sleep; the latency of every item (send completion -> recv return) is measured; gap_us = 1 is the
//        rendezvous mode described at run_chan
//   run
// output: produced <p> <n> | got <consumer> <producer> <seq> (in each consumer's own order) | maxavail <n> <cap> |
//         maxlat_us <n> | result done
#include <photon/thread/thread.h>
#include <photon/photon.h>
#include <photon/common/alog.h>
#include <photon/common/lockfree_queue.h>
#include <atomic>
#include <chrono>
#include <thread>
#include <vector>
#include <string>
#include <sstream>
#include <iostream>
#include <cstdio>
#include <csignal>
#include <unistd.h>
#include <sys/wait.h>
#include <functional>
#include "watchdog.h"

static const uint64_t STOP = ~0ULL;
static uint64_t item(int p, uint64_t seq) { return ((uint64_t)p << 40) | seq; }
static long now_us() { return std::chrono::duration_cast<std::chrono::microseconds>(std::chrono::steady_clock::now().time_since_epoch()).count(); }
static std::atomic<long> g_progress{0};
// what every worker is doing, for the verdict dump: op = 0 between operations, 1 inside send/push, 2 inside recv/pop; n = operations completed
struct Worker { std::atomic<int> op{0}; std::atomic<long> n{0}; char role = '-'; };
static Worker g_worker[16]; static std::function<void()> g_dump_queue;
// hang / slow verdicts come from the shared watchdog (watchdog.h): no element consumed in 2 windows of 10 s in which the machine ran every
// thread = hung; windows in which it did not are environment windows and do not count; no verdict after 300 s = slow (inconclusive)
static void on_verdict(const char* result) {
    wd::print_diag();
    if (g_dump_queue) g_dump_queue();
    for (int i = 0; i < 16; ++i) if (g_worker[i].role != '-') printf("watchdog worker %c%d %s after %ld operations\n", g_worker[i].role, i,
        g_worker[i].op.load() == 0 ? "between operations" : g_worker[i].op.load() == 1 ? "inside send/push" : "inside recv/pop", g_worker[i].n.load());
    printf("%s\n", result); fflush(stdout); _exit(0);
}
static void on_segv(int s) { printf("result crashed signal=%d\n", s); fflush(stdout); _exit(0); }

template <class Q> static void run_ring(Q* q, size_t cap, int P, int Cn, uint64_t M, bool blocking) {
    std::vector<std::vector<uint64_t>> got(Cn);
    std::atomic<uint64_t> consumed{0}; std::atomic<size_t> maxavail{0};
    uint64_t total = (uint64_t)P * M;
    std::vector<std::thread> ts;
    std::atomic<int> exited{0};
    g_dump_queue = [q, cap, &consumed, total] { auto b = static_cast<LockfreeRingQueueBase<uint64_t, 0>*>(q);
        printf("watchdog queue head=%zu tail=%zu capacity=%zu consumed=%lu of %lu\n", b->head.load(), b->tail.load(), cap, (unsigned long)consumed.load(), (unsigned long)total); };
    for (int c = 0; c < Cn; ++c) { g_worker[c].role = 'C'; ts.emplace_back([&, c] {
        Worker& w = g_worker[c];
        while (consumed.load() < total) {
            uint64_t x;
            w.op = 2;
            if (blocking) { x = q->template recv<ThreadPause>(); w.op = 0; if (x == STOP) break; }
            else { bool ok = q->pop(x); w.op = 0; if (!ok) { if (consumed.load() >= total) break; std::this_thread::yield(); continue; } }
            got[c].push_back(x); consumed++; g_progress++; w.n++;
            size_t a = q->read_available(); size_t m = maxavail.load(); while (a > m && a < (1ULL << 60) && !maxavail.compare_exchange_weak(m, a)) {}
        }
        exited++;
    }); }
    for (int p = 0; p < P; ++p) { g_worker[Cn + p].role = 'P'; ts.emplace_back([&, p] {
        Worker& w = g_worker[Cn + p];
        for (uint64_t i = 0; i < M; ++i) { uint64_t x = item(p, i); w.op = 1; if (blocking) q->template send<ThreadPause>(x); else while (!q->push(x)) std::this_thread::yield(); w.op = 0; w.n++; }
    }); }
    for (int i = Cn; i < Cn + P; ++i) ts[i].join();
    // a consumer that called recv() after the last element was claimed waits for a STOP; one that saw consumed == total first has left and takes
    // none, so STOPs are pushed (never send(): a ticket for a slot that nobody will ever free would block for ever) while a consumer is still there
    if (blocking) { while (consumed.load() < total) std::this_thread::yield(); while (exited.load() < Cn) { if (!q->push(STOP)) std::this_thread::yield(); } }
    for (int c = 0; c < Cn; ++c) ts[c].join();
    for (int p = 0; p < P; ++p) printf("produced %d %lu\n", p, (unsigned long)M);
    for (int c = 0; c < Cn; ++c) for (auto x : got[c]) printf("got %d %lu %lu\n", c, (unsigned long)(x >> 40), (unsigned long)(x & ((1ULL << 40) - 1)));
    printf("maxavail %zu %zu\n", maxavail.load(), cap);
}

static long now_ns() { return std::chrono::duration_cast<std::chrono::nanoseconds>(std::chrono::steady_clock::now().time_since_epoch()).count(); }
template <class Q> static void run_chan(size_t creq, int P, int Cn, uint64_t M, uint64_t gap) {
    using Chan = photon::common::FlexRingChannel<Q>;
    // gap == 1: rendezvous mode. Consumers use recv(0, 0) (sleep right after one failed pop, as WorkPool does while tasks run); after
    // every element a consumer announces when it will call recv() again and the next producer aims its push at that moment
    // (-600..+1400 ns), so that pushes land around the consumer's decision to go to sleep.
    bool rdv = gap == 1;
    auto ch = rdv ? Chan::create(creq, 0, 0) : Chan::create(creq, 4, 200);
    std::vector<std::vector<uint64_t>> got(Cn);
    std::vector<std::vector<long>> sent_at(P, std::vector<long>(M, 0));
    std::atomic<uint64_t> consumed{0}, trial{0}; std::atomic<long> maxlat{0}, target{0};
    uint64_t total = (uint64_t)P * M;
    std::vector<std::thread> ts;
    for (int c = 0; c < Cn; ++c) ts.emplace_back([&, c] {
        photon::init(photon::INIT_EVENT_EPOLL, photon::INIT_IO_NONE);
        for (;;) {
            uint64_t x = ch->recv();
            if (x == STOP) break;
            long t = now_us(); int p = x >> 40; uint64_t s = x & ((1ULL << 40) - 1);
            long st = ((volatile long*)sent_at[p].data())[s];
            if (st) { long lat = t - st; long m = maxlat.load(); while (lat > m && !maxlat.compare_exchange_weak(m, lat)) {} }
            got[c].push_back(x);
            if (rdv) { long T = now_ns() + 3000; target.store(T); consumed++; g_progress++; while (now_ns() < T) {} }
            else { consumed++; g_progress++; }
        }
        photon::fini();
    });
    for (int p = 0; p < P; ++p) ts.emplace_back([&, p] {
        unsigned rs = 12345 + p;
        for (uint64_t i = 0; i < M; ++i) {
            if (rdv) {
                uint64_t my = trial.fetch_add(1);
                while (consumed.load() < my) { if (maxlat.load() >= 50000) break; }
                long T = target.load(); rs = rs * 1103515245 + 12345;
                if (T) { T += -600 + (long)((rs >> 8) % 2000); while (now_ns() < T) {} }
            } else if (gap) usleep(gap);
            sent_at[p][i] = now_us(); ch->template send<ThreadPause>(item(p, i));
        }
    });
    for (int i = Cn; i < Cn + P; ++i) ts[i].join();
    while (consumed.load() < total) usleep(1000);
    for (int c = 0; c < Cn; ++c) ch->template send<ThreadPause>(STOP);
    for (int c = 0; c < Cn; ++c) ts[c].join();
    for (int p = 0; p < P; ++p) printf("produced %d %lu\n", p, (unsigned long)M);
    for (int c = 0; c < Cn; ++c) for (auto x : got[c]) printf("got %d %lu %lu\n", c, (unsigned long)(x >> 40), (unsigned long)(x & ((1ULL << 40) - 1)));
    printf("maxlat_us %ld\n", maxlat.load());
    Chan::destroy(ch);
}

static size_t cap_of(size_t c) { size_t k = 2; while (k < c) k <<= 1; return k; }
static int run_program(const std::vector<std::string>& lines) {
    wd::start([]() -> long { return g_progress.load(); }, on_verdict); signal(SIGSEGV, on_segv); signal(SIGABRT, on_segv);
    set_log_output(log_output_null);
    for (auto& l : lines) {
        std::istringstream is(l); std::string w, kind; size_t c; int P, Cn; uint64_t M, last; is >> w >> kind >> c >> P >> Cn >> M >> last;
        printf("%s\n", l.c_str());
        if (w == "ring") {
            if (kind == "mpmc") { auto q = FlexLockfreeMPMCRingQueue<uint64_t>::create(c); run_ring(q, cap_of(c), P, Cn, M, last); }
            else if (kind == "batch") { auto q = FlexLockfreeBatchMPMCRingQueue<uint64_t>::create(c); run_ring(q, cap_of(c), P, Cn, M, last); }
            else { auto q = FlexLockfreeSPSCRingQueue<uint64_t>::create(c); run_ring(q, cap_of(c), 1, 1, M, last); }
        } else if (w == "chan") {
            if (kind == "mpmc") run_chan<FlexLockfreeMPMCRingQueue<uint64_t>>(c, P, Cn, M, last);
            else run_chan<FlexLockfreeBatchMPMCRingQueue<uint64_t>>(c, P, Cn, M, last);
        }
    }
    printf("result done\n"); fflush(stdout);
    _exit(0);
}
int main() {
    std::string line; std::vector<std::string> prog;
    while (std::getline(std::cin, line)) {
        if (line == "run") {
            fflush(stdout);
            pid_t pid = fork();
            if (pid == 0) { run_program(prog); _exit(0); }
            int st = 0; waitpid(pid, &st, 0);
            if (WIFSIGNALED(st)) printf("result crashed signal=%d\n", WTERMSIG(st));
            else if (WEXITSTATUS(st) != 0) printf("result crashed exit=%d\n", WEXITSTATUS(st));
            printf("endprog\n"); fflush(stdout);
            prog.clear();
        } else prog.push_back(line);
    }
    return 0;
}
