// Multi-vCPU harness for the synchronisation primitives (C01, C02, C03, C06): real photon vCPUs on OS threads, real races.
//   lock <mutex|rw|qrw> <nvcpu> <threads per vcpu> <iters> <hold n|y|s> <timeout us|inf> <write percent>
//        every thread: iters x { lock (write, or read for rw/qrw); occupancy check + unprotected counter; hold; unlock }
//        log (global atomic stamp order): call <T> <r|w> <to> | ret <T> <r|w> <0|-1> <errno> | unlock <T> | overlap <T>
//        (call is stamped before the call, ret after it returned, unlock before the unlock: what the log shows as held is held)
//   sem <nvcpu> <waiters per vcpu> <photon signallers> <os signallers> <tokens per signaller> <ooo 0|1>
//        log: signal <S> <n> (stamped before signal()) | got <W> <n> (stamped after wait() returned 0)
//   semd <nvcpu> <pairs> <rounds> <os 0|1>
//        destroy right after wait: the waiter destroys the semaphore and fills its memory with a pattern as soon as wait() returns;
//        when the signaller's signal() has returned the pattern must be intact:   late-write <pair> <round>   otherwise
//   cond <nvcpu> <producers> <consumers> <items per producer> <capacity>
//        bounded buffer with photon::mutex + two condition variables, infinite waits: produced <p> <n> | got <c> <p> <seq>
//   run
// a program in which nobody makes progress for 3 s prints   q   (every thread is blocked) and   result hung
#include <photon/thread/thread.h>
#include <photon/thread/thread11.h>
#include <photon/photon.h>
#include <photon/common/alog.h>
#include <atomic>
#include <thread>
#include <vector>
#include <deque>
#include <string>
#include <sstream>
#include <iostream>
#include <cstdio>
#include <cstring>
#include <csignal>
#include <unistd.h>
#include <sys/wait.h>
using namespace photon;

struct Rec { int kind; int t; long a; long b; };
static const int MAXLOG = 1 << 21;
static Rec* logbuf; static std::atomic<long> logpos{0};
static void ev(int kind, int t, long a = 0, long b = 0) { long i = logpos.fetch_add(1); if (i < MAXLOG) logbuf[i] = {kind, t, a, b}; }
enum { CALL_R, CALL_W, RET_R, RET_W, UNLOCK, OVERLAP, SIGNAL, GOT, LATE, PRODUCED, GOTITEM };
static std::string TOS;
static std::atomic<long> progress{0}; static std::atomic<int> finished_threads{0};
static int total_threads = 0;

static long faket = 0;      // fake monotone clock for the automaton: a failed timed lock is placed far beyond its deadline (the coarse real clock is not compared)
static void dump_log() {
    long n = std::min<long>(logpos.load(), MAXLOG);
    for (long i = 0; i < n; ++i) { auto& r = logbuf[i];
        switch (r.kind) {
        case CALL_R: printf("call T%d r %s @%ld\n", r.t, TOS.c_str(), faket); break;
        case CALL_W: printf("call T%d w %s @%ld\n", r.t, TOS.c_str(), faket); break;
        case RET_R: case RET_W: if (r.a) faket += 1000000000L; printf("ret T%d %s %ld %ld @%ld\n", r.t, r.kind == RET_R ? "r" : "w", r.a, r.b, faket); break;
        case UNLOCK: printf("unlock T%d @%ld\n", r.t, faket); break;
        case OVERLAP: printf("overlap T%d writers=%ld readers=%ld\n", r.t, r.a, r.b); break;
        case SIGNAL: printf("signal S%d %ld\n", r.t, r.a); break;
        case GOT: printf("got W%d %ld\n", r.t, r.a); break;
        case LATE: printf("late-write %d %ld\n", r.t, r.a); break;
        case PRODUCED: printf("produced %d %ld\n", r.t, r.a); break;
        case GOTITEM: printf("got %d %ld %ld\n", r.t, r.a, r.b); break;
        } }
}
static void finish(const char* res) { dump_log(); printf("%s\n", res); fflush(stdout); _exit(0); }
static void on_segv(int sig) { dump_log(); printf("result crashed signal=%d\n", sig); fflush(stdout); _exit(0); }

// ---------------------------------------------------------------- lock scenario
static mutex* g_m; static rwlock* g_rw; static qrwlock* g_q;
static std::atomic<int> in_w{0}, in_r{0}; static volatile long unprotected = 0; static std::atomic<long> granted_w{0};
struct LockArgs { int id, iters; char hold; uint64_t to; int wpct; unsigned seed; };
static void lock_thread(LockArgs a) {
    unsigned rs = a.seed;
    for (int i = 0; i < a.iters; ++i) {
        rs = rs * 1103515245 + 12345;
        bool wr = g_m ? true : (int)((rs >> 16) % 100) < a.wpct;
        ev(wr ? CALL_W : CALL_R, a.id);
        Timeout to = a.to == (uint64_t)-1 ? Timeout() : Timeout(a.to);
        errno = 0;
        int r = g_m ? g_m->lock(to) : g_rw ? g_rw->lock(wr ? WLOCK : RLOCK, to) : g_q->lock(wr ? WLOCK : RLOCK, to);
        int en = r ? errno : 0;
        if (r == 0) {
            if (wr) { if (in_w.fetch_add(1) != 0 || in_r.load() != 0) ev(OVERLAP, a.id, in_w.load(), in_r.load()); long v = unprotected; if (a.hold == 'y') thread_yield(); unprotected = v + 1; granted_w++; }
            else { in_r.fetch_add(1); if (in_w.load() != 0) ev(OVERLAP, a.id, in_w.load(), in_r.load()); }
        }
        ev(wr ? RET_W : RET_R, a.id, r, en);
        progress++;
        if (r == 0) {
            if (a.hold == 'y') thread_yield(); else if (a.hold == 's') thread_usleep(50 + (rs >> 20) % 200);
            ev(UNLOCK, a.id);
            if (wr) in_w.fetch_sub(1); else in_r.fetch_sub(1);
            if (g_m) g_m->unlock(); else if (g_rw) g_rw->unlock(); else g_q->unlock();
        }
        if ((rs >> 8) % 4 == 0) thread_yield();
    }
    finished_threads++;
}

// ---------------------------------------------------------------- semaphore scenarios
static semaphore* g_sem; static std::atomic<long> to_take{0};
static void sem_waiter(int id) {
    for (;;) {
        long k = 1 + id % 3;
        long left = to_take.fetch_sub(k);
        if (left <= 0) break;
        if (left < k) k = left;
        if (g_sem->wait(k) == 0) { ev(GOT, id, k); progress++; }
    }
    finished_threads++;
}
static void sem_signaller(int id, int tokens, bool photon_env) {
    unsigned rs = 777 + id; int left = tokens;
    while (left > 0) {
        rs = rs * 1103515245 + 12345; int n = std::min<int>(left, 1 + (rs >> 16) % 3);
        ev(SIGNAL, id, n); g_sem->signal(n); left -= n; progress++;
        if ((rs >> 8) % 3 == 0) { if (photon_env) thread_yield(); else std::this_thread::yield(); }
    }
    finished_threads++;
}
struct Pair { std::atomic<semaphore*> sem{nullptr}; std::atomic<int> signalled{0}, taken{0}; };
static void semd_waiter(Pair* p, int id, int rounds) {
    for (int r = 0; r < rounds; ++r) {
        auto mem = (unsigned char*)malloc(sizeof(semaphore));
        auto s = new (mem) semaphore(0);
        p->signalled = 0; p->sem = s;
        s->wait(1);
        s->~semaphore(); memset(mem, 0xAB, sizeof(semaphore));      // gone as soon as wait() returned (e.g. it lived on the waiter's stack)
        while (!p->signalled.load()) thread_yield();                // signal() has returned on the other side
        for (size_t i = 0; i < sizeof(semaphore); ++i) if (mem[i] != 0xAB) { ev(LATE, id, r); break; }
        free(mem); progress++;
        p->taken = 1;
    }
    finished_threads++;
}
static void semd_signaller(Pair* p, int rounds, bool photon_env) {
    for (int r = 0; r < rounds; ++r) {
        semaphore* s;
        while (!(s = p->sem.exchange(nullptr))) { if (photon_env) thread_yield(); else std::this_thread::yield(); }
        s->signal(1);
        p->signalled = 1;
        while (!p->taken.exchange(0)) { if (photon_env) thread_yield(); else std::this_thread::yield(); }
    }
    finished_threads++;
}

// ---------------------------------------------------------------- condition variable scenario
static mutex* bm; static condition_variable *not_empty, *not_full; static std::deque<uint64_t> buf; static size_t bcap = 1;
static std::atomic<long> consumed{0}; static long total_items = 0;
static void cond_producer(int p, long n) {
    ev(PRODUCED, p, n);
    for (long i = 0; i < n; ++i) {
        bm->lock();
        while (buf.size() >= bcap) not_full->wait(*bm);
        buf.push_back(((uint64_t)p << 40) | i);
        bm->unlock();
        not_empty->notify_one(); progress++;
    }
    finished_threads++;
}
static void cond_consumer(int c) {
    for (;;) {
        bm->lock();
        while (buf.empty() && consumed.load() < total_items) not_empty->wait(*bm, 20 * 1000);   // the timed re-check only ends the run, items are signalled
        if (buf.empty()) { bm->unlock(); break; }
        uint64_t x = buf.front(); buf.pop_front();
        bm->unlock();
        not_full->notify_one();
        ev(GOTITEM, c, x >> 40, x & ((1ULL << 40) - 1)); consumed++; progress++;
    }
    finished_threads++;
}

static int run_program(const std::vector<std::string>& lines) {
    signal(SIGSEGV, on_segv); signal(SIGABRT, on_segv);
    set_log_output(log_output_null);
    logbuf = new Rec[MAXLOG];
    std::istringstream is(lines.empty() ? "" : lines[0]); std::string kind; is >> kind;
    printf("%s\n", lines.empty() ? "" : lines[0].c_str());
    photon::init(INIT_EVENT_EPOLL, INIT_IO_NONE);
    std::vector<std::thread> os;
    auto on_vcpu = [&](std::vector<std::function<void()>> bodies) {
        os.emplace_back([bodies] { photon::init(INIT_EVENT_EPOLL, INIT_IO_NONE); std::vector<join_handle*> js;
            for (auto& b : bodies) js.push_back(thread_enable_join(thread_create11([b] { b(); })));
            for (auto j : js) thread_join(j); photon::fini(); });
    };
    if (kind == "lock") {
        std::string what, to; int nv, per, iters, wpct; char hold; is >> what >> nv >> per >> iters >> hold >> to >> wpct; TOS = to;
        if (what == "mutex") g_m = new mutex; else if (what == "rw") g_rw = new rwlock; else g_q = new qrwlock;
        int id = 0;
        for (int v = 0; v < nv; ++v) { std::vector<std::function<void()>> b; for (int k = 0; k < per; ++k) { LockArgs a{++id, iters, hold, to == "inf" ? (uint64_t)-1 : strtoull(to.c_str(), 0, 10), wpct, (unsigned)(id * 7919)}; b.push_back([a] { lock_thread(a); }); } on_vcpu(b); }
        total_threads = id;
    } else if (kind == "sem") {
        int nv, per, ps, oss, tokens, ooo; is >> nv >> per >> ps >> oss >> tokens >> ooo;
        g_sem = new semaphore(0, !ooo); to_take = (long)(ps + oss) * tokens;
        int id = 0;
        for (int v = 0; v < nv; ++v) { std::vector<std::function<void()>> b; for (int k = 0; k < per; ++k) { int w = ++id; b.push_back([w] { sem_waiter(w); }); }
            if (v == 0) for (int s = 0; s < ps; ++s) { int sid = s + 1; b.push_back([sid, tokens] { sem_signaller(sid, tokens, true); }); }
            on_vcpu(b); }
        for (int s = 0; s < oss; ++s) { int sid = 100 + s; os.emplace_back([sid, tokens] { sem_signaller(sid, tokens, false); }); }
        total_threads = id + ps + oss;
    } else if (kind == "semd") {
        int nv, pairs, rounds, useos; is >> nv >> pairs >> rounds >> useos;
        std::vector<std::vector<std::function<void()>>> per(nv);
        for (int k = 0; k < pairs; ++k) { auto p = new Pair; int id = k + 1;
            per[k % nv].push_back([p, id, rounds] { semd_waiter(p, id, rounds); });
            if (useos) os.emplace_back([p, rounds] { semd_signaller(p, rounds, false); });
            else per[(k + 1) % nv].push_back([p, rounds] { semd_signaller(p, rounds, true); }); }
        for (int v = 0; v < nv; ++v) on_vcpu(per[v]);
        total_threads = 2 * pairs;
    } else if (kind == "cond") {
        int nv, P, Cn; long n; is >> nv >> P >> Cn >> n >> bcap; total_items = (long)P * n;
        bm = new mutex; not_empty = new condition_variable; not_full = new condition_variable;
        std::vector<std::vector<std::function<void()>>> per(nv);
        for (int p = 0; p < P; ++p) per[p % nv].push_back([p, n] { cond_producer(p, n); });
        for (int c = 0; c < Cn; ++c) per[(P + c) % nv].push_back([c] { cond_consumer(c); });
        for (int v = 0; v < nv; ++v) on_vcpu(per[v]);
        total_threads = P + Cn;
    }
    long last = -1; int stalled = 0;
    while (finished_threads.load() < total_threads) {
        thread_usleep(100 * 1000);
        long p = progress.load();
        if (p == last) stalled++; else stalled = 0;
        last = p;
        if (stalled >= 30) { dump_log(); printf("q %ld\nstalled finished=%d of %d progress=%ld\nresult hung\n", faket, finished_threads.load(), total_threads, p); fflush(stdout); _exit(0); }
    }
    for (auto& t : os) t.join();
    if (kind == "lock") printf("counter %ld %ld\n", (long)unprotected, granted_w.load());
    finish("result done");
    return 0;
}
int main() {
    std::string line; std::vector<std::string> prog;
    while (std::getline(std::cin, line)) {
        if (line == "run") {
            fflush(stdout);
            pid_t pid = fork();
            if (pid == 0) { run_program(prog); _exit(0); }
            int st = 0; waitpid(pid, &st, 0);
            if (WIFSIGNALED(st)) printf("result crashed signal=%d\n", WTERMSIG(st));
            else if (WEXITSTATUS(st) != 0) printf("result crashed exit=%d\n", WEXITSTATUS(st));
            printf("endprog\n"); fflush(stdout);
            prog.clear();
        } else prog.push_back(line);
    }
    return 0;
}
