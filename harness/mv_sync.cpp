// Multi-vCPU harness for the synchronisation primitives (C01, C02, C03, C06): real photon vCPUs on OS threads, real races.
//   lock <mutex|rw|qrw> <nvcpu> <threads per vcpu> <iters> <hold n|y|s> <timeout us|inf> <write percent>
//        every thread: iters x { lock (write, or read for rw/qrw); occupancy check + unprotected counter; hold; unlock }
//        log (global atomic stamp order): call <T> <r|w> <to> | ret <T> <r|w> <0|-1> <errno> | unlock <T> | overlap <T>
//        (call is stamped before the call, ret after it returned, unlock before the unlock: what the log shows as held is held)
//   sem <nvcpu> <waiters per vcpu> <photon signallers> <os signallers> <tokens per signaller> <ooo 0|1> [<timeouts 0|1>]
//        timeouts=1: the waits are wait_interruptible() with 20..320 us timeouts and a plain OS thread interrupts waiters at random
//        log: signal <S> <n> (stamped before signal()) | got <W> <n> (stamped after wait() returned 0)
//   semooo <big waiters> <rounds>
//        out-of-order semaphore with a long queue of never-satisfied waiters on one vCPU and a waiter W of 1 token at its tail;
//        one plain OS thread signals 1 token whenever W waits, another one interrupts W whenever it waits: signal() has to walk the
//        queue past the big waiters while W is being interrupted / resumed from elsewhere
//   semtight <signals> <ooo 0|1> <waiters>
//        waiters of 3 tokens with 20..60 us timeouts in a loop on one vCPU, a plain OS thread signalling 1 token at a time without
//        pause: the resume pass of signal() keeps racing with waiters that time out and leave the queue
//   condrace <rounds> <timeout us>
//        W (vCPU A) waits on a condition variable with a random timeout of 1..<timeout> us, N (vCPU B) calls notify_one() after a
//        random delay: every notify_one() that reports a woken waiter must be matched by a wait() returning 0 and vice versa
//        (log: signal N <k> = notify_one()'s result, got W 1 = wait() returned 0; balance checked with remaining 0 at the end)
//   intrrace <rounds> <sleep us> <os 0|1>
//        S (vCPU A) sleeps <sleep us>; X (another vCPU, or a plain OS thread) calls thread_interrupt(S) about when that sleep times
//        out. The sleep returns 0 or -1/EINTR (delivered); when X's call has returned S sleeps again, undisturbed: that second sleep
//        must last its full time (stale otherwise).  log: issued | delivered | stale | wrong-result
//   semd <nvcpu> <pairs> <rounds> <os 0|1>
//        destroy right after wait: the waiter destroys the semaphore and fills its memory with a pattern as soon as wait() returns;
//        when the signaller's signal() has returned the pattern must be intact:   late-write <pair> <round>   otherwise
//   cond <nvcpu> <producers> <consumers> <items per producer> <capacity>
//        bounded buffer with photon::mutex + two condition variables, infinite waits: produced <p> <n> | got <c> <p> <seq>
//   handoff <mutex|mutex0|rw|qrw> <rounds> <intr 0|1> <timeout us, 0 = none>
//        (with a timeout L's lock has a random timeout of 1..<timeout> us: the hand-over races with the waiter timing out)
//        one hand-over per round between two vCPUs, aimed at the window between a locker's last failed attempt and its going to
//        sleep: U (vCPU A) holds the lock, L (vCPU B) calls lock() (no timeout), U unlocks after a random delay of 0..3 us and
//        does not touch the lock again until L has returned; with intr=1 a plain OS thread calls thread_interrupt(L) around the
//        same moment (log: intr <T>). L must return (0, or -1/EINTR only if interrupted) and the lock must be usable afterwards.
//   run
// a program in which nobody makes progress for 3 s prints   q   (every thread is blocked) and   result hung
#include <photon/thread/thread.h>
#include <photon/thread/thread11.h>
#include <photon/photon.h>
#include <photon/common/alog.h>
#include <atomic>
#include <thread>
#include <vector>
#include <deque>
#include <string>
#include <sstream>
#include <iostream>
#include <cstdio>
#include <cstring>
#include <csignal>
#include <unistd.h>
#include <sys/wait.h>
#include <cstring>
#include "watchdog.h"
using namespace photon;

struct Rec { int kind; int t; long a; long b; };
static const int MAXLOG = 1 << 21;
static Rec* logbuf; static std::atomic<long> logpos{0};
static void ev(int kind, int t, long a = 0, long b = 0) { long i = logpos.fetch_add(1); if (i < MAXLOG) logbuf[i] = {kind, t, a, b}; }
enum { CALL_R, CALL_W, RET_R, RET_W, UNLOCK, OVERLAP, SIGNAL, GOT, LATE, PRODUCED, GOTITEM, INTR, ISSUED, DELIVERED, STALE, WRONG };
static std::string TOS;
static std::atomic<long> progress{0}; static std::atomic<int> finished_threads{0};
static int total_threads = 0;

static long faket = 0;      // fake monotone clock for the automaton: a failed timed lock is placed far beyond its deadline (the coarse real clock is not compared)
static void dump_log() {
    long n = std::min<long>(logpos.load(), MAXLOG);
    for (long i = 0; i < n; ++i) { auto& r = logbuf[i];
        switch (r.kind) {
        case CALL_R: printf("call T%d r %s @%ld\n", r.t, TOS.c_str(), faket); break;
        case CALL_W: printf("call T%d w %s @%ld\n", r.t, TOS.c_str(), faket); break;
        case RET_R: case RET_W: if (r.a) faket += 1000000000L; printf("ret T%d %s %ld %ld @%ld\n", r.t, r.kind == RET_R ? "r" : "w", r.a, r.b, faket); break;
        case UNLOCK: printf("unlock T%d @%ld\n", r.t, faket); break;
        case OVERLAP: printf("overlap T%d writers=%ld readers=%ld\n", r.t, r.a, r.b); break;
        case SIGNAL: printf("signal S%d %ld\n", r.t, r.a); break;
        case GOT: printf("got W%d %ld\n", r.t, r.a); break;
        case LATE: printf("late-write %d %ld\n", r.t, r.a); break;
        case PRODUCED: printf("produced %d %ld\n", r.t, r.a); break;
        case GOTITEM: printf("got %d %ld %ld\n", r.t, r.a, r.b); break;
        case INTR: printf("intr T%d\n", r.t); break;
        case ISSUED: printf("issued\n"); break;
        case DELIVERED: printf("delivered\n"); break;
        case STALE: printf("stale round=%d ret=%ld errno=%ld\n", r.t, r.a, r.b); break;
        case WRONG: printf("wrong-result round=%d ret=%ld errno=%ld\n", r.t, r.a, r.b); break;
        } }
}
static void finish(const char* res) { dump_log(); printf("%s\n", res); fflush(stdout); _exit(0); }
// hang / slow verdicts: watchdog.h (no progress in 2 windows of 10 s in which the machine ran every thread = hung - the in-program watchdog cannot
// run if its own vCPU is stuck; no verdict after 300 s = the machine is too loaded to judge: result slow, inconclusive, not a violation)
static long wd_progress() { return progress.load(); }
static void on_verdict(const char* result) {
    dump_log(); wd::print_diag();
    if (!strcmp(result, "result hung")) printf("stalled no progress for 20 s of real time in which every thread ran or slept voluntarily (progress=%ld)\n", wd_progress());
    printf("%s\n", result); fflush(stdout); _exit(0);
}
static void on_segv(int sig) { dump_log(); printf("result crashed signal=%d\n", sig); fflush(stdout); _exit(0); }

// ---------------------------------------------------------------- lock scenario
static mutex* g_m; static rwlock* g_rw; static qrwlock* g_q;
static std::atomic<int> in_w{0}, in_r{0}; static volatile long unprotected = 0; static std::atomic<long> granted_w{0};
struct LockArgs { int id, iters; char hold; uint64_t to; int wpct; unsigned seed; };
static void lock_thread(LockArgs a) {
    unsigned rs = a.seed;
    for (int i = 0; i < a.iters; ++i) {
        rs = rs * 1103515245 + 12345;
        bool wr = g_m ? true : (int)((rs >> 16) % 100) < a.wpct;
        ev(wr ? CALL_W : CALL_R, a.id);
        Timeout to = a.to == (uint64_t)-1 ? Timeout() : Timeout(a.to);
        errno = 0;
        int r = g_m ? g_m->lock(to) : g_rw ? g_rw->lock(wr ? WLOCK : RLOCK, to) : g_q->lock(wr ? WLOCK : RLOCK, to);
        int en = r ? errno : 0;
        if (r == 0) {
            if (wr) { if (in_w.fetch_add(1) != 0 || in_r.load() != 0) ev(OVERLAP, a.id, in_w.load(), in_r.load()); long v = unprotected; if (a.hold == 'y') thread_yield(); unprotected = v + 1; granted_w++; }
            else { in_r.fetch_add(1); if (in_w.load() != 0) ev(OVERLAP, a.id, in_w.load(), in_r.load()); }
        }
        ev(wr ? RET_W : RET_R, a.id, r, en);
        progress++;
        if (r == 0) {
            if (a.hold == 'y') thread_yield(); else if (a.hold == 's') thread_usleep(50 + (rs >> 20) % 200);
            ev(UNLOCK, a.id);
            if (wr) in_w.fetch_sub(1); else in_r.fetch_sub(1);
            if (g_m) g_m->unlock(); else if (g_rw) g_rw->unlock(); else g_q->unlock();
        }
        if ((rs >> 8) % 4 == 0) thread_yield();
    }
    finished_threads++;
}

// ---------------------------------------------------------------- hand-over rounds
static std::atomic<long> h_held{0}, h_going{0}, h_got{0}, h_intr_done{0}; static std::atomic<thread*> h_L{nullptr}; static long h_rounds = 0; static bool h_intr = false; static long h_to = 0;
static long now_ns() { struct timespec ts; clock_gettime(CLOCK_MONOTONIC, &ts); return ts.tv_sec * 1000000000L + ts.tv_nsec; }
static void spin_ns(long ns) { long t = now_ns() + ns; while (now_ns() < t) {} }
static int h_lock(bool wr, Timeout to = {}) { return g_m ? g_m->lock(to) : g_rw ? g_rw->lock(wr ? WLOCK : RLOCK, to) : g_q->lock(wr ? WLOCK : RLOCK, to); }
static void h_unlock() { if (g_m) g_m->unlock(); else if (g_rw) g_rw->unlock(); else g_q->unlock(); }
static void handoff_U() {
    unsigned rs = 4242;
    for (long r = 1; r <= h_rounds; ++r) {
        ev(CALL_W, 1); int ret = h_lock(true); ev(RET_W, 1, ret, ret ? errno : 0);
        if (ret != 0) break;
        if (in_w.fetch_add(1) != 0 || in_r.load() != 0) ev(OVERLAP, 1, in_w.load(), in_r.load());
        h_held.store(r);
        while (h_going.load() != r) {}
        rs = rs * 1103515245 + 12345; spin_ns((rs >> 8) % 3000);
        ev(UNLOCK, 1); in_w.fetch_sub(1); h_unlock();
        while (h_got.load() != r) {}
        if (h_intr) while (h_intr_done.load() != r) {}       // the interrupt of this round has been issued: it cannot hit a later round's call
        progress++;
    }
    finished_threads++;
}
static void handoff_L() {
    h_L.store(CURRENT);
    unsigned rs = 99;
    for (long r = 1; r <= h_rounds; ++r) {
        while (h_held.load() != r) { if (finished_threads.load()) { finished_threads++; return; } }
        rs = rs * 1103515245 + 12345; bool wr = g_m ? true : ((rs >> 16) & 1);
        h_going.store(r);
        ev(wr ? CALL_W : CALL_R, 2); errno = 0; int ret = h_to ? h_lock(wr, Timeout(1 + (rs >> 4) % h_to)) : h_lock(wr); int en = ret ? errno : 0;
        if (ret == 0) { if (wr) { if (in_w.fetch_add(1) != 0 || in_r.load() != 0) ev(OVERLAP, 2, in_w.load(), in_r.load()); } else { in_r.fetch_add(1); if (in_w.load() != 0) ev(OVERLAP, 2, in_w.load(), in_r.load()); } }
        ev(wr ? RET_W : RET_R, 2, ret, en);
        if (ret == 0) { ev(UNLOCK, 2); if (wr) in_w.fetch_sub(1); else in_r.fetch_sub(1); h_unlock(); }
        h_got.store(r); progress++;
    }
    finished_threads++;
}
static void handoff_X() {
    unsigned rs = 31337;
    for (long r = 1; r <= h_rounds; ++r) {
        while (h_going.load() != r) { if (finished_threads.load()) return; }
        rs = rs * 1103515245 + 12345; spin_ns((rs >> 8) % 3000);
        if ((rs >> 20) % 4 != 0) { ev(INTR, 2); thread_interrupt(h_L.load(), EINTR); }
        h_intr_done.store(r);
    }
}

// ---------------------------------------------------------------- semaphore scenarios
static semaphore* g_sem; static std::atomic<long> to_take{0};
static bool g_sem_timeouts = false; static std::vector<std::atomic<thread*>> g_waiters(64);
static void sem_waiter(int id) {
    unsigned rs = 555 + id;
    g_waiters[id % 64].store(CURRENT);
    for (;;) {
        long k = 1 + id % 3;
        long left = to_take.fetch_sub(k);
        if (left <= 0) { to_take.fetch_add(k); if (to_take.load() <= 0) break; thread_yield(); continue; }
        if (left < k) { to_take.fetch_add(k - left); k = left; }
        int r;
        if (g_sem_timeouts) { rs = rs * 1103515245 + 12345; r = g_sem->wait_interruptible(k, 20 + (rs >> 16) % 300); }
        else r = g_sem->wait(k);
        if (r == 0) { ev(GOT, id, k); progress++; }
        else to_take.fetch_add(k);            // a failed wait took nothing: the tokens are still to be taken
    }
    g_waiters[id % 64].store(nullptr);
    finished_threads++;
}
static std::atomic<bool> sem_stop{false};
static void sem_interrupter() {
    unsigned rs = 9;
    while (!sem_stop.load()) {
        rs = rs * 1103515245 + 12345;
        auto th = g_waiters[(rs >> 16) % 64].load();
        if (th) thread_interrupt(th, EINTR);
        usleep(20 + (rs >> 8) % 100);
    }
}
static void sem_signaller(int id, int tokens, bool photon_env) {
    unsigned rs = 777 + id; int left = tokens;
    while (left > 0) {
        rs = rs * 1103515245 + 12345; int n = std::min<int>(left, 1 + (rs >> 16) % 3);
        ev(SIGNAL, id, n); g_sem->signal(n); left -= n; progress++;
        if (g_sem_timeouts) { if (photon_env) thread_usleep(30 + (rs >> 8) % 100); else usleep(30 + (rs >> 8) % 100); }    // slower than the waiters: they really block and time out
        else if ((rs >> 8) % 3 == 0) { if (photon_env) thread_yield(); else std::this_thread::yield(); }
    }
    finished_threads++;
}
static std::atomic<int> o_waiting{0}; static std::atomic<thread*> o_W{nullptr}; static std::atomic<bool> o_stop{false}; static long o_rounds = 0;
static void semooo_W() {
    o_W.store(CURRENT);
    long done = 0;
    while (done < o_rounds) {
        o_waiting = 1;
        int r = g_sem->wait_interruptible(1);
        o_waiting = 0;
        if (r == 0) { ev(GOT, 1, 1); ++done; }
        progress++;
    }
    o_stop = true;
    finished_threads++;
}
static void semooo_S() { while (!o_stop.load()) { if (o_waiting.load()) { ev(SIGNAL, 1, 1); g_sem->signal(1); progress++; } spin_ns(200); } }
static void semooo_X() { while (!o_stop.load()) { if (o_waiting.load()) { auto th = o_W.load(); if (th) thread_interrupt(th, EINTR); } spin_ns(300); } }
static void semtight_W(int id) {
    unsigned rs = 77 + id;
    while (!o_stop.load()) {
        rs = rs * 1103515245 + 12345;
        if (g_sem->wait_interruptible(3, 20 + (rs >> 16) % 40) == 0) ev(GOT, id, 3);
        progress++;
    }
    finished_threads++;
}
static void semtight_S(long n) { for (long i = 0; i < n; ++i) { ev(SIGNAL, 1, 1); g_sem->signal(1); progress++; } o_stop = true; }
static mutex* bm; static condition_variable *not_empty, *not_full; static std::deque<uint64_t> buf; static size_t bcap = 1;
static std::atomic<long> c_round{0}, c_done{0}, c_ndone{0}; static std::atomic<int> c_ret{0}; static long c_rounds = 0, c_to = 50;
static void condrace_W() {
    unsigned rs = 5;
    for (long r = 1; r <= c_rounds; ++r) {
        rs = rs * 1103515245 + 12345;
        bm->lock();
        c_round.store(r);                                  // N may notify from now on: W holds the lock until it is a waiter
        int ret = not_empty->wait(*bm, 1 + (rs >> 8) % c_to);
        bm->unlock();
        c_ret.store(ret);
        c_done.store(r); progress++;
        while (c_ndone.load() != r) {}
    }
    finished_threads++;
}
static void condrace_N() {
    unsigned rs = 6;
    for (long r = 1; r <= c_rounds; ++r) {
        while (c_round.load() != r) {}
        rs = rs * 1103515245 + 12345; spin_ns((rs >> 8) % (c_to * 1000 + 2000));
        bm->lock(); bm->unlock();                          // W has become a waiter (or has already returned)
        int k = not_empty->notify_one() ? 1 : 0;
        while (c_done.load() != r) {}
        if (k) ev(SIGNAL, 1, k);                          // both results of the round are logged here, in this order
        if (c_ret.load() == 0) ev(GOT, 1, 1);
        c_ndone.store(r); progress++;
    }
    finished_threads++;
}
static std::atomic<long> i_round{0}, i_xdone{0}; static std::atomic<thread*> i_S{nullptr}; static long i_rounds = 0, i_sleep = 50;
static void intrrace_S() {
    i_S.store(CURRENT);
    for (long r = 1; r <= i_rounds; ++r) {
        i_round.store(r);
        errno = 0; int ret = thread_usleep(i_sleep); int en = ret ? errno : 0;
        if (ret == -1 && en == EINTR) ev(DELIVERED, (int)r); else if (ret != 0) ev(WRONG, (int)r, ret, en);
        while (i_xdone.load() != r) {}                    // the interrupt of this round has been issued and thread_interrupt() has returned
        errno = 0; ret = thread_usleep(100); en = ret ? errno : 0;
        if (ret != 0) ev(STALE, (int)r, ret, en);
        progress++;
    }
    finished_threads++;
}
static void intrrace_X() {
    unsigned rs = 17;
    while (!i_S.load()) {}
    for (long r = 1; r <= i_rounds; ++r) {
        while (i_round.load() != r) { if (finished_threads.load()) return; }
        rs = rs * 1103515245 + 12345;
        // the sleep ends when the vCPU's coarse clock has passed the deadline (up to about a millisecond later): aim anywhere in there
        long d = i_sleep * 1000 - 4000 + (long)((rs >> 8) % 1300000); if (d > 0) spin_ns(d);
        ev(ISSUED, (int)r); thread_interrupt(i_S.load(), EINTR);
        i_xdone.store(r);
    }
}
struct Pair { std::atomic<semaphore*> sem{nullptr}; std::atomic<int> signalled{0}, taken{0}; };
static void semd_waiter(Pair* p, int id, int rounds) {
    for (int r = 0; r < rounds; ++r) {
        auto mem = (unsigned char*)malloc(sizeof(semaphore));
        auto s = new (mem) semaphore(0);
        p->signalled = 0; p->sem = s;
        s->wait(1);
        s->~semaphore(); memset(mem, 0xAB, sizeof(semaphore));      // gone as soon as wait() returned (e.g. it lived on the waiter's stack)
        while (!p->signalled.load()) thread_yield();                // signal() has returned on the other side
        for (size_t i = 0; i < sizeof(semaphore); ++i) if (mem[i] != 0xAB) { ev(LATE, id, r); break; }
        free(mem); progress++;
        p->taken = 1;
    }
    finished_threads++;
}
static void semd_signaller(Pair* p, int rounds, bool photon_env) {
    for (int r = 0; r < rounds; ++r) {
        semaphore* s;
        while (!(s = p->sem.exchange(nullptr))) { if (photon_env) thread_yield(); else std::this_thread::yield(); }
        s->signal(1);
        p->signalled = 1;
        while (!p->taken.exchange(0)) { if (photon_env) thread_yield(); else std::this_thread::yield(); }
    }
    finished_threads++;
}

// ---------------------------------------------------------------- condition variable scenario
static std::atomic<long> consumed{0}; static long total_items = 0;
static void cond_producer(int p, long n) {
    ev(PRODUCED, p, n);
    for (long i = 0; i < n; ++i) {
        bm->lock();
        while (buf.size() >= bcap) not_full->wait(*bm);
        buf.push_back(((uint64_t)p << 40) | i);
        bm->unlock();
        not_empty->notify_one(); progress++;
    }
    finished_threads++;
}
static void cond_consumer(int c) {
    for (;;) {
        bm->lock();
        while (buf.empty() && consumed.load() < total_items) not_empty->wait(*bm, 20 * 1000);   // the timed re-check only ends the run, items are signalled
        if (buf.empty()) { bm->unlock(); break; }
        uint64_t x = buf.front(); buf.pop_front();
        bm->unlock();
        not_full->notify_one();
        ev(GOTITEM, c, x >> 40, x & ((1ULL << 40) - 1)); consumed++; progress++;
    }
    finished_threads++;
}

static int run_program(const std::vector<std::string>& lines) {
    signal(SIGSEGV, on_segv); signal(SIGABRT, on_segv); wd::start(wd_progress, on_verdict);
    set_log_output(log_output_null);
    logbuf = new Rec[MAXLOG];
    std::istringstream is(lines.empty() ? "" : lines[0]); std::string kind; is >> kind;
    printf("%s\n", lines.empty() ? "" : lines[0].c_str());
    photon::init(INIT_EVENT_EPOLL, INIT_IO_NONE);
    std::vector<std::thread> os;
    auto on_vcpu = [&](std::vector<std::function<void()>> bodies) {
        os.emplace_back([bodies] { photon::init(INIT_EVENT_EPOLL, INIT_IO_NONE); std::vector<join_handle*> js;
            for (auto& b : bodies) js.push_back(thread_enable_join(thread_create11([b] { b(); })));
            for (auto j : js) thread_join(j); photon::fini(); });
    };
    if (kind == "lock") {
        std::string what, to; int nv, per, iters, wpct; char hold; is >> what >> nv >> per >> iters >> hold >> to >> wpct; TOS = to;
        if (what == "mutex") g_m = new mutex; else if (what == "rw") g_rw = new rwlock; else g_q = new qrwlock;
        int id = 0;
        for (int v = 0; v < nv; ++v) { std::vector<std::function<void()>> b; for (int k = 0; k < per; ++k) { LockArgs a{++id, iters, hold, to == "inf" ? (uint64_t)-1 : strtoull(to.c_str(), 0, 10), wpct, (unsigned)(id * 7919)}; b.push_back([a] { lock_thread(a); }); } on_vcpu(b); }
        total_threads = id;
    } else if (kind == "handoff") {
        std::string what; int intr; is >> what >> h_rounds >> intr >> h_to; h_intr = intr; TOS = h_to ? std::to_string(h_to) : "inf";
        if (what == "mutex") g_m = new mutex; else if (what == "mutex0") g_m = new mutex(0); else if (what == "rw") g_rw = new rwlock; else g_q = new qrwlock;
        on_vcpu({[] { handoff_L(); }});
        while (!h_L.load()) thread_usleep(100);
        on_vcpu({[] { handoff_U(); }});
        if (h_intr) os.emplace_back([] { handoff_X(); });
        total_threads = 2;
    } else if (kind == "sem") {
        int nv, per, ps, oss, tokens, ooo, tmo = 0; is >> nv >> per >> ps >> oss >> tokens >> ooo >> tmo; g_sem_timeouts = tmo;
        g_sem = new semaphore(0, !ooo); to_take = (long)(ps + oss) * tokens;
        if (tmo) os.emplace_back([] { sem_interrupter(); });
        int id = 0;
        for (int v = 0; v < nv; ++v) { std::vector<std::function<void()>> b; for (int k = 0; k < per; ++k) { int w = ++id; b.push_back([w] { sem_waiter(w); }); }
            if (v == 0) for (int s = 0; s < ps; ++s) { int sid = s + 1; b.push_back([sid, tokens] { sem_signaller(sid, tokens, true); }); }
            on_vcpu(b); }
        for (int s = 0; s < oss; ++s) { int sid = 100 + s; os.emplace_back([sid, tokens] { sem_signaller(sid, tokens, false); }); }
        total_threads = id + ps + oss;
    } else if (kind == "semooo") {
        int nbig; is >> nbig >> o_rounds;
        g_sem = new semaphore(0, false);
        std::vector<std::function<void()>> b;
        for (int k = 0; k < nbig; ++k) b.push_back([] { g_sem->wait(1000000); });
        b.push_back([] { thread_usleep(2000); semooo_W(); });
        on_vcpu(b);
        os.emplace_back([] { while (!o_W.load()) usleep(100); semooo_S(); });
        os.emplace_back([] { while (!o_W.load()) usleep(100); semooo_X(); });
        total_threads = 1;
    } else if (kind == "semtight") {
        long n; int ooo, nw; is >> n >> ooo >> nw;
        g_sem = new semaphore(0, !ooo);
        std::vector<std::function<void()>> b;
        for (int k = 0; k < nw; ++k) b.push_back([k] { semtight_W(k + 1); });
        on_vcpu(b);
        os.emplace_back([n] { usleep(2000); semtight_S(n); });
        total_threads = nw;
    } else if (kind == "condrace") {
        is >> c_rounds >> c_to;
        bm = new mutex; not_empty = new condition_variable; g_sem = new semaphore(0);
        on_vcpu({[] { condrace_W(); }});
        on_vcpu({[] { condrace_N(); }});
        total_threads = 2;
    } else if (kind == "intrrace") {
        int useos; is >> i_rounds >> i_sleep >> useos;
        // a second thread keeps S's vCPU busy (yielding), so that its timers are examined every few hundred nanoseconds instead of at
        // the event engine's millisecond granularity: the time-out of the sleep really happens around the aimed moment
        on_vcpu({[] { intrrace_S(); }, [] { while (!finished_threads.load()) thread_yield(); }});
        if (useos) os.emplace_back([] { intrrace_X(); }); else on_vcpu({[] { intrrace_X(); }});
        total_threads = 1;
    } else if (kind == "semd") {
        int nv, pairs, rounds, useos; is >> nv >> pairs >> rounds >> useos;
        std::vector<std::vector<std::function<void()>>> per(nv);
        for (int k = 0; k < pairs; ++k) { auto p = new Pair; int id = k + 1;
            per[k % nv].push_back([p, id, rounds] { semd_waiter(p, id, rounds); });
            if (useos) os.emplace_back([p, rounds] { semd_signaller(p, rounds, false); });
            else per[(k + 1) % nv].push_back([p, rounds] { semd_signaller(p, rounds, true); }); }
        for (int v = 0; v < nv; ++v) on_vcpu(per[v]);
        total_threads = 2 * pairs;
    } else if (kind == "cond") {
        int nv, P, Cn; long n; is >> nv >> P >> Cn >> n >> bcap; total_items = (long)P * n;
        bm = new mutex; not_empty = new condition_variable; not_full = new condition_variable;
        std::vector<std::vector<std::function<void()>>> per(nv);
        for (int p = 0; p < P; ++p) per[p % nv].push_back([p, n] { cond_producer(p, n); });
        for (int c = 0; c < Cn; ++c) per[(P + c) % nv].push_back([c] { cond_consumer(c); });
        for (int v = 0; v < nv; ++v) on_vcpu(per[v]);
        total_threads = P + Cn;
    }
    long last = -1; int stalled = 0;
    while (finished_threads.load() < total_threads) {
        thread_usleep(100 * 1000);
        long p = progress.load();
        if (p == last) stalled++; else stalled = 0;
        last = p;
        if (stalled >= 30 && !wd::confirm_stall(3)) stalled = 0;      // progress resumed, or the machine did not run some thread
        if (stalled >= 30) { dump_log(); printf("q %ld\nstalled finished=%d of %d progress=%ld\nresult hung\n", faket, finished_threads.load(), total_threads, p); fflush(stdout); _exit(0); }
    }
    sem_stop = true;
    if (kind == "semooo") { usleep(20000); finish("result done"); }      // the never-satisfied waiters are not joined
    for (auto& t : os) t.join();
    if (kind == "lock") printf("counter %ld %ld\n", (long)unprotected, granted_w.load());
    if (kind == "sem" || kind == "semtight" || kind == "condrace") { dump_log(); logpos = 0; printf("remaining %lu\n", (unsigned long)g_sem->count()); }
    finish("result done");
    return 0;
}
int main() {
    std::string line; std::vector<std::string> prog;
    while (std::getline(std::cin, line)) {
        if (line == "run") {
            fflush(stdout);
            pid_t pid = fork();
            if (pid == 0) { run_program(prog); _exit(0); }
            int st = 0; waitpid(pid, &st, 0);
            if (WIFSIGNALED(st)) printf("result crashed signal=%d\n", WTERMSIG(st));
            else if (WEXITSTATUS(st) != 0) printf("result crashed exit=%d\n", WEXITSTATUS(st));
            printf("endprog\n"); fflush(stdout);
            prog.clear();
        } else prog.push_back(line);
    }
    return 0;
}
