// Shared hang watchdog of the harnesses (H-sim and multi-vCPU / OS-thread harnesses).
//
// A `result hung` verdict is evidence against the code under test, so it has to mean "the program cannot make progress although
// the operating system ran its threads", not "nothing happened for N seconds of wall-clock time". The second is also what an
// environment stall looks like (a thread blocked in a page fault on slow storage right after the sandbox was restored, a runnable
// thread that is not given a CPU, a paused VM): with ticket-based spin waits one thread that is not run stops every other thread.
// The old rule (SIGALRM every 10 s of real time, no progress between two ticks = hung) raised a false alarm of that kind for C07.
//
// A watchdog thread samples /proc/self/task/<tid>/{stat,schedstat} once per second of *guest running time* (nanosleep: a paused
// VM takes no samples) and judges windows of `window` samples:
//   * progress() changed during the window                                         -> the window is fine;
//   * no progress, and every other thread of the process was LIVE in the window    -> a no-progress window that counts;
//         LIVE = it ran on a CPU for at least 2% of the window (a spin-wait that executed >= 10^5 iterations), or it was asleep
//                voluntarily (state S: waiting for another thread of the program or a timer, neither running nor queued for a CPU)
//   * no progress, but some thread was NOT live: in state D (blocked in the kernel on I/O, e.g. a page fault) in >= 30% of the
//     samples, or runnable with (almost) no CPU time while it waited >= 30% of the window in a run queue (starved)
//                                                                                  -> an environment window: it does not count,
//         it is printed as a `watchdog env-window ...` line and the judgement goes on.
//   `need` counting windows in a row (environment windows in between do not reset the count) = `result hung`, with one `watchdog`
//   line per thread (state histogram, CPU seconds, run-queue wait) so that the replay shows what every thread was doing.
//   After `cap` samples without a verdict: `result slow` (inconclusive: the machine did not run the program) for the progress-aware
//   harnesses, `result hung` for the H-sim harnesses (progress == nullptr: every window is a no-progress window; 300 s of
//   environment windows in a row for a single-threaded program that needs milliseconds is not something to wait out).
// A real hang is permanent, so it is still reported by every run in which the machine runs the program's threads for `need` windows;
// a real hang costs window*need seconds (20 s for the mv harnesses, as before).
//
// The monitors inside the mv programs (3 s without progress) ask confirm_stall() before they call it a hang: the same judgement over 3 more
// seconds.
//
// The verdict is delivered on the thread that called wd::start(): the watchdog sends it SIGALRM and the handler calls the harness's
// verdict function there (the H-sim harnesses rely on that: their trace buffer is only touched by the main thread); if that thread
// does not react within 5 s the watchdog thread delivers the verdict itself.
#pragma once
#include <dirent.h>
#include <errno.h>
#include <pthread.h>
#include <signal.h>
#include <stdio.h>
#include <stdlib.h>
#include <string.h>
#include <time.h>
#include <unistd.h>
#include <sys/syscall.h>
#include <atomic>
#include <map>
#include <string>

namespace wd {
typedef long (*progress_fn)();
typedef void (*verdict_fn)(const char* result);     // prints the harness's own dump, then `result`, and _exit(0)s

static progress_fn g_progress;
static verdict_fn g_verdict;
static int g_window = 10, g_need = 2, g_cap = 300;
static pthread_t g_main;
static const char* volatile g_result = nullptr;
static std::atomic<int> g_delivered{0};
static std::string g_diag;                            // `watchdog ...` lines of the verdict; printed by print_diag()

struct Acc { unsigned long long run0 = 0, wait0 = 0, run1 = 0, wait1 = 0; int n = 0, nS = 0, nR = 0, nD = 0, nO = 0; bool seen = false; };

static bool sample_thread(int tid, char& st, unsigned long long& run, unsigned long long& wait) {
    char path[64], buf[512];
    snprintf(path, sizeof path, "/proc/self/task/%d/stat", tid);
    FILE* f = fopen(path, "r"); if (!f) return false;
    size_t n = fread(buf, 1, sizeof buf - 1, f); fclose(f); buf[n] = 0;
    char* rp = strrchr(buf, ')'); if (!rp || !rp[1] || !rp[2]) return false;
    st = rp[2];
    snprintf(path, sizeof path, "/proc/self/task/%d/schedstat", tid);
    f = fopen(path, "r"); if (!f) return false;
    int k = fscanf(f, "%llu %llu", &run, &wait); fclose(f);
    return k == 2;
}

// prints the per-thread lines of the verdict (called by the harness's verdict function, or by nobody)
static void print_diag() { if (!g_diag.empty()) { fputs(g_diag.c_str(), stdout); fflush(stdout); } }

static void on_sigalrm(int) {
    if (!g_result || g_delivered.exchange(1)) return;
    g_verdict(g_result);
    _exit(0);
}

static void deliver(const char* result) {
    g_result = result;
    pthread_kill(g_main, SIGALRM);
    for (int i = 0; i < 50 && !g_delivered.load(); ++i) { struct timespec ts{0, 100000000}; nanosleep(&ts, nullptr); }
    if (!g_delivered.exchange(1)) { g_verdict(result); _exit(0); }
    for (;;) pause();                                // the main thread is printing the verdict and will _exit
}

static std::atomic<int> g_wd_tid{0};

struct Sampler {
    std::map<int, Acc> acc;
    void sample(int skip1, int skip2) {
        for (auto& kv : acc) kv.second.seen = false;
        if (DIR* d = opendir("/proc/self/task")) {
            while (dirent* e = readdir(d)) {
                int tid = atoi(e->d_name); if (tid <= 0 || tid == skip1 || tid == skip2) continue;
                char st; unsigned long long run, wait;
                if (!sample_thread(tid, st, run, wait)) continue;
                Acc& a = acc[tid];
                if (a.n == 0) { a.run0 = run; a.wait0 = wait; }
                a.run1 = run; a.wait1 = wait; a.n++; a.seen = true;
                if (st == 'S') a.nS++; else if (st == 'R') a.nR++; else if (st == 'D') a.nD++; else a.nO++;
            }
            closedir(d);
        }
        for (auto it = acc.begin(); it != acc.end();) { if (!it->second.seen) it = acc.erase(it); else ++it; }   // thread ended
    }
    // number of threads that were not live in the W seconds sampled; table: one `watchdog thread` line per thread
    int classify(double W, std::string& table) {
        int notlive = 0; char line[256];
        for (auto& kv : acc) {
            Acc& a = kv.second;
            double run = (a.run1 - a.run0) / 1e9, wait = (a.wait1 - a.wait0) / 1e9;
            const char* cls;
            if (a.nD * 10 >= a.n * 3) { cls = "blocked-on-io"; notlive++; }
            else if (run >= 0.02 * W) cls = "ran";
            else if (wait >= 0.3 * W) { cls = "starved"; notlive++; }
            else cls = "asleep";
            snprintf(line, sizeof line, "watchdog thread %d samples S=%d R=%d D=%d other=%d cpu_s=%.2f runqueue_wait_s=%.2f %s\n",
                     kv.first, a.nS, a.nR, a.nD, a.nO, run, wait, cls);
            table += line;
        }
        return notlive;
    }
};

static void* loop(void*) {
    int self = (int)syscall(SYS_gettid); g_wd_tid = self;
    Sampler sm;
    long p0 = g_progress ? g_progress() : 0;
    int k = 0, counting = 0, envw = 0, total = 0, windows = 0;
    for (;;) {
        struct timespec ts{1, 0};
        while (nanosleep(&ts, &ts) == -1 && errno == EINTR) {}
        sm.sample(self, 0);
        ++k; ++total;
        if (k >= g_window) {
            ++windows;
            long p1 = g_progress ? g_progress() : p0;
            if (g_progress && p1 != p0) counting = 0;
            else {
                std::string table; char line[256];
                int notlive = sm.classify((double)g_window, table);
                if (notlive) {
                    ++envw;
                    printf("watchdog env-window %d: no progress (progress=%ld) but %d of %zu threads were not run by the machine\n%s",
                           windows, p1, notlive, sm.acc.size(), table.c_str());
                    fflush(stdout);
                } else if (++counting >= g_need) {
                    snprintf(line, sizeof line, "watchdog verdict: no progress (progress=%ld) in %d windows of %d s in which every thread ran or slept voluntarily (%d environment windows before)\n",
                             p1, counting, g_window, envw);
                    g_diag = std::string(line) + table;
                    deliver("result hung");
                }
            }
            p0 = p1; k = 0; sm.acc.clear();
        }
        if (total >= g_cap) {
            char line[200];
            snprintf(line, sizeof line, "watchdog verdict: no verdict after %d s (%d environment windows)\n", total, envw);
            g_diag = line;
            deliver(g_progress ? "result slow" : "result hung");
        }
    }
    return nullptr;
}

// For the stall detectors inside the programs (a monitor loop on the main vCPU that has seen no progress for a few seconds): watches the
// other threads for `secs` more seconds. true = still no progress and every thread ran or slept voluntarily, i.e. the stall is the program's;
// false = progress resumed, or the machine did not run some thread (an environment stall: printed, the monitor starts counting again).
// Blocks the calling OS thread (the monitor's vCPU runs nothing else).
static bool confirm_stall(int secs) {
    int self = (int)syscall(SYS_gettid);
    Sampler sm; long p0 = g_progress ? g_progress() : 0;
    sm.sample(self, g_wd_tid.load());
    for (int i = 0; i < secs; ++i) { struct timespec ts{1, 0}; while (nanosleep(&ts, &ts) == -1 && errno == EINTR) {} sm.sample(self, g_wd_tid.load()); }
    if (g_progress && g_progress() != p0) return false;
    std::string table; int notlive = sm.classify((double)secs, table);
    if (notlive) { printf("watchdog env-stall: no progress (progress=%ld) for %d s but %d of %zu threads were not run by the machine\n%s", p0, secs, notlive, sm.acc.size(), table.c_str()); fflush(stdout); return false; }
    fputs(table.c_str(), stdout);
    return true;
}

// progress: monotone counter of the work done (nullptr: the program has `window*need` seconds in total); verdict: see verdict_fn
static void start(progress_fn progress, verdict_fn verdict, int window = 10, int need = 2, int cap = 300) {
    g_progress = progress; g_verdict = verdict; g_window = window; g_need = need; g_cap = cap;
    g_main = pthread_self();
    signal(SIGALRM, on_sigalrm);
    pthread_t t; pthread_attr_t at; pthread_attr_init(&at); pthread_attr_setdetachstate(&at, PTHREAD_CREATE_DETACHED);
    pthread_create(&t, &at, loop, nullptr);
}
}  // namespace wd
