import Photon.Properties.C01
open Photon.Sync
#print axioms C01_ret_iff_owner
#print axioms C01_try_ret_iff_owner
#print axioms C01_owner_change
#print axioms C01_not_stuck
#print axioms C01_queue_exact
#print axioms C01_unlock_handoff
#print axioms C01_handoff_next
#print axioms reachable_invQ
