import Photon.Properties.C02
open Photon.Sync
#print axioms C02_conservation
#print axioms C02_ret_matches_take
#print axioms C02_sub_guard
#print axioms C02_no_stuck_waiter
#print axioms C01_no_stuck_at_quiescence
#print axioms Photon.SemLog.C02_mv_conservation
#print axioms Photon.SemLog.C02_mv_no_late_write
#print axioms Photon.SemLog.C02_mv_balance
