import Photon.Properties.C03
open Photon.Sync
#print axioms C03_atomic_release
#print axioms C03_enqueued_before_release
#print axioms C03_notify_count
#print axioms C03_notify_wakes_head
#print axioms C03_wait_ret
#print axioms translate_spec
