import Photon.Properties.C04
open Photon.Sync
#print axioms C04_timeout_after_deadline
#print axioms C04_intr_exact
#print axioms C04_yield_intr_exact
#print axioms C04_window_reset
#print axioms C04_delivery_consumes
#print axioms C04_reason_only_from_interrupt
#print axioms C04_sleep_ret0_elapsed
#print axioms C04_shutdown_bound
#print axioms C04_no_overdue_sleeper
#print axioms reachable_inv
#print axioms Photon.IntrLog.C04_mv_never_invented
#print axioms Photon.IntrLog.C04_mv_never_stale
