import Photon.Properties.C05
open Photon.Life
#print axioms C05_runs_at_most_once
#print axioms C05_none_lost
#print axioms C05_one_vcpu_at_a_time
#print axioms C05_join_exact
#print axioms C05_counts_return
