import Photon.Properties.C06
open Photon.Sync
#print axioms C06_excl
#print axioms C06_grant_guard
#print axioms C06_failed_noop
#print axioms C06_no_stuck
#print axioms Photon.RwSpec.C06_api_grant
#print axioms Photon.RwSpec.C06_api_failed_noop
#print axioms Photon.RwSpec.C06_api_admitted
#print axioms Photon.RwSpec.C06_api_excl
