import Photon.Properties.C07
#print axioms Photon.Ring.C07_step_refines
#print axioms Photon.Ring.C07_refines_bounded_fifo
#print axioms Photon.RingLog.C07_got
#print axioms Photon.RingLog.C07_all_received
