import Photon.Properties.C08
open Photon.Pool
#print axioms C08_at_most_once
#print axioms C08_call_returns_after_task
#print axioms C08_destroy_waits
