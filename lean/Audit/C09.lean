import Photon.Properties.C09
open Photon.Chan
#print axioms C09_buffered_exactly_once
#print axioms C09_unbuffered_exactly_once
#print axioms C09_false_only_close_or_timeout
#print axioms C09_released
#print axioms C09_unbuffered_overwrite_witness
#print axioms Photon.ChanMV.C09_mv_at_most_once
#print axioms Photon.ChanMV.C09_mv_all_received
