import Photon.Properties.C09
open Photon.Chan
#print axioms C09_buffered_exactly_once
#print axioms C09_unbuffered_exactly_once
#print axioms C09_false_only_close_or_timeout
#print axioms C09_released
#print axioms C09_unbuffered_overwrite_witness
