import Photon.Properties.C10
open Photon.Sock
#print axioms C10_read_delivers_next
#print axioms C10_in_order_exactly_once
#print axioms C10_full_count
#print axioms C10_at_least_one
#print axioms C10_failure_cause
#print axioms C10_quiescent
#print axioms C10_final_all_returned
#print axioms C10_ioLoop_requests_suffix
#print axioms C10_ioLoop_bounds
#print axioms C10_ioLoop_short_means_eof
#print axioms C10_ioLoopV_requests_suffix
#print axioms skipEmpty0_head
#print axioms C10_no_spurious_wakeup
