import Photon.Properties.C11
open Photon.Rpc
#print axioms reachable_inv
#print axioms C11_success_has_own_response
#print axioms C11_success_collected
#print axioms C11_response_delivered_once
#print axioms C11_body_into_live_call
#print axioms C11_body_end_live
#print axioms C11_no_return_during_collect
#print axioms C11_wake_only_collected
#print axioms C11_failed_call_frame
#print axioms C11_quiescent
#print axioms C11_queue_drains
#print axioms C11_f4_witness_rejected
