import Photon.Properties.C12
open Photon.Ser
#print axioms claim_contained
#print axioms C12_accepted_inside_input
#print axioms C12_rejects_short_or_unchecked
#print axioms claim_fails_when_short
#print axioms C12_roundtrip
#print axioms C12_anchor_inside
#print axioms C12_checksum_blind_witness
