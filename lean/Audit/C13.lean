import Photon.Properties.C13
open Photon.Http
#print axioms hexOf_spec
#print axioms findSub_CRLF
#print axioms C13_chunked_roundtrip
#print axioms C13_chunked_inside_input
#print axioms C13_length_body
#print axioms C13_incremental_search
#print axioms findSub_lookback
