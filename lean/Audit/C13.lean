import Photon.Properties.C13
open Photon.Http
#print axioms untilChar_length
