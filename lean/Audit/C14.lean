import Photon.Properties.C14
open Photon.Iov
#print axioms C14_sum_spec
#print axioms C14_shrinkTo_spec
#print axioms C14_extractFront_spec
#print axioms C14_extractFront_view_spec
#print axioms frontDest_contiguous
#print axioms C14_extractBack_spec
#print axioms C14_extractBack_view_spec
#print axioms backDest_contiguous
#print axioms C14_extractFrontContinuous_spec
#print axioms C14_ownExtractFrontContinuous_spec
#print axioms C14_slice_spec
#print axioms C14_copyPipe_spec
#print axioms C14_copyPipe_take_drop
