import Photon.Properties.C15
open Photon.RangeSplit
#print axioms C15_tiling
#print axioms C15_empty
#print axioms C15_aligned_enclose
#print axioms C15_power2_eq
#print axioms C15_tiling_power2
#print axioms C15_classification
#print axioms C15_wrap_witness
#print axioms C15_tiling_vi
#print axioms tilesV_generic
