import Photon.Properties.C16
open Photon.File
#print axioms C16_aligned_pread
#print axioms C16_aligned_requests_read
#print axioms C16_aligned_requests_write
#print axioms C16_linear_pread
#print axioms C16_stripe_pread
#print axioms C16_aligned_pwrite
#print axioms C16_linear_pwrite
#print axioms C16_stripe_pwrite
