import Photon.Properties.C17
#print axioms Photon.RangeModule.C17_addRange_covered
#print axioms Photon.RangeModule.C17_removeRange_covered
#print axioms Photon.RangeModule.C17_queryRefillRange_sound
#print axioms Photon.CacheStore.C17_read_returns_source
#print axioms Photon.CacheStore.C17_history
#print axioms Photon.CacheLog.C17_ret
