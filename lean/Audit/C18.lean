import Photon.Properties.C18
open Photon.RangeLock
#print axioms C18_partition
#print axioms C18_disjoint
#print axioms tryLock_inv
#print axioms C18_conflict_real
#print axioms unlockHandle_inv
#print axioms unlockRange_inv
#print axioms adjust_inv
#print axioms C18_reachable_inv
