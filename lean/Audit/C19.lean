import Photon.Properties.C19
open Photon.ObjCache
#print axioms C19_no_destroy_while_ref
#print axioms C19_ctor_excl
#print axioms C19_acquire_returns_live
#print axioms C19_recycle_waits_all
#print axioms C19_referenced_is_live
#print axioms C19_no_poison_beyond_cooldown
#print axioms C19_lastFail_only_from_failed_ctor
#print axioms Photon.ObjLog.C19_mv_destroy
#print axioms Photon.ObjLog.C19_mv_ctor
#print axioms Photon.ObjLog.C19_mv_acquire
#print axioms Photon.ObjLog.C19_mv_never_dead
#print axioms Photon.ObjLog.C19_mv_referenced_is_live
