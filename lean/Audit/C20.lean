import Photon.Properties.C20
open Photon.Path
#print axioms C20_no_escape
#print axioms C20_accepts_legal
#print axioms C20_reject_iff
#print axioms C20_forwarded_inside
#print axioms C20_rejected_escapes
#print axioms levelValid_eq
