import Photon.Model.RangeModule
import Std.Data.HashMap
/-! front end for the cached-fs run acceptor (C17): consumes hsim_cache traces -/
namespace Driver.CacheLog
open Photon.CacheLog

structure D where
  st : St := {}
  ids : Std.HashMap String Nat := {}
  next : Nat := 1
  rejected : Bool := false

def intern (d : D) (n : String) : D × Nat :=
  match d.ids.get? n with
  | some i => (d, i)
  | none => ({ d with ids := d.ids.insert n d.next, next := d.next + 1 }, d.next)

def kv (s : String) : String := (s.splitOn "=").getD 1 ""

def events (d : D) (toks : List String) : D × List Ev :=
  match toks with
  | ["init", sz, _] => (d, [.init ((kv sz).toNat?.getD 0)])
  | ["call", t, "read", off, len, _] => let (d, t) := intern d t; (d, [.callRead t (off.toNat?.getD 0) (len.toNat?.getD 0)])
  | ["src", off, len, ret] => (d, [.src (off.toNat?.getD 0) (len.toNat?.getD 0) (ret.toInt?.getD 0) false])
  | ["src", off, len, ret, "injected"] => (d, [.src (off.toNat?.getD 0) (len.toNat?.getD 0) (ret.toInt?.getD 0) true])
  | ["ret", t, "read", r, data, _] => let (d, t) := intern d t; (d, [.retRead t ((kv r).toInt?.getD (-99)) (kv data == "ok" || kv data == "-")])
  | ["evict", _] => (d, [.evict])
  | _ => (d, [])

def step (d : D) (toks : List String) : D × String :=
  match toks with
  | ["endprog"] => ({}, "ok")
  | _ =>
    if d.rejected then (d, "skip") else
    let (d1, evs) := events d toks
    match run d1.st evs with
    | .error m => ({ d1 with rejected := true }, "reject " ++ m)
    | .ok s => ({ d1 with st := s }, "ok")

end Driver.CacheLog
