import Photon.Model.Chan
import Std.Data.HashMap
/-! line protocol front end for the channel specification automaton (C09): consumes hsim_chan traces -/
namespace Driver.Chan
open Photon.Chan

structure D where
  st : St := {}
  ids : Std.HashMap String Nat := {}
  next : Nat := 1
  rejected : Bool := false

def intern (d : D) (n : String) : D × Nat :=
  match d.ids.get? n with
  | some i => (d, i)
  | none => ({ d with ids := d.ids.insert n d.next, next := d.next + 1 }, d.next)

def parseTo (s : String) : Option Nat := if s = "inf" then none else s.toNat?

def events (d : D) (toks : List String) : D × List Ev :=
  let tm : List Ev := match toks.getLast? with
    | some w => if w.startsWith "@" then (match (w.drop 1).toString.toNat? with | some n => [Ev.tick n] | none => []) else []
    | none => []
  match toks with
  | ["init", c] => (d, [.init (c.toNat?.getD 0)])
  | ["q", n] => (d, [.tick (n.toNat?.getD 0), .quiescent])
  | ["tick", n] => (d, [.tick (n.toNat?.getD 0)])
  | ["call", t, "send", v, to, _] => let (d, t) := intern d t; (d, tm ++ [.callSend t (v.toNat?.getD 0) (parseTo to) false])
  | ["call", t, "trysend", v, _] => let (d, t) := intern d t; (d, tm ++ [.callSend t (v.toNat?.getD 0) (some 0) true])
  | ["call", t, "recv", to, _] => let (d, t) := intern d t; (d, tm ++ [.callRecv t (parseTo to) false])
  | ["call", t, "tryrecv", _] => let (d, t) := intern d t; (d, tm ++ [.callRecv t (some 0) true])
  | ["call", _, "close", _] => (d, tm ++ [.close])
  | ["ret", t, op, ok, v, _] =>
    let (d, t) := intern d t
    if op = "send" ∨ op = "trysend" then (d, tm ++ [.retSend t (ok = "1")])
    else if op = "recv" ∨ op = "tryrecv" then (d, tm ++ [.retRecv t (ok = "1") (v.toNat?.getD 0)])
    else (d, tm)
  | _ => (d, [])

def step (d : D) (toks : List String) : D × String :=
  match toks with
  | ["endprog"] => ({}, "ok")
  | _ =>
    if d.rejected then (d, "skip") else
    let (d1, evs) := events d toks
    match run d1.st evs with
    | .error m => ({ d1 with rejected := true }, "reject " ++ m)
    | .ok s => ({ d1 with st := s }, "ok")

end Driver.Chan
