import Photon.Model.File
/-! line protocol front end for the file adaptor models (C16): same lines as harness/c16_files.cpp -/
namespace Driver.File
open Photon.File

inductive Kind where
  | none | aligned (A : Nat) (am : Bool) | linear (U : Nat) | vlinear | stripe (S : Nat)

structure St where
  kind : Kind := .none
  files : List Bytes := []

def hex2 (n : Nat) : String :=
  let d := "0123456789abcdef".toList
  String.ofList [d.getD (n / 16) '?', d.getD (n % 16) '?']
def showBytes (bs : Bytes) : String := if bs.isEmpty then "-" else String.join (bs.map hex2)
def hexVal (c : Char) : Nat :=
  if c.isDigit then c.toNat - '0'.toNat else if 'a' ≤ c ∧ c ≤ 'f' then c.toNat - 'a'.toNat + 10 else 0
def unhexL : List Char → Bytes
  | a :: b :: r => (hexVal a * 16 + hexVal b) :: unhexL r
  | _ => []
def unhex (s : String) : Bytes := if s = "-" then [] else unhexL s.toList

def showReq (r : Req) : String :=
  (if r.kind = 0 then "r" else if r.kind = 1 then "w" else "t") ++ s!":{r.file}:{r.off}:{r.len};"
def showLog (l : List Req) : String := if l.isEmpty then "-" else String.join (l.map showReq)
def showFiles (fs : List Bytes) : String := "|".intercalate (fs.map showBytes)

def out (r : Option Nat) (data : Bytes) (fs : List Bytes) (log : List Req) : String :=
  let rs := match r with | some n => toString n | none => "-1"
  s!"r={rs} data={showBytes data} files={showFiles fs} log={showLog log} mem=ok"

def doRead (s : St) (off cnt : Nat) (memAligned : Bool) : St × String :=
  let (r, log) : Option Bytes × List Req := match s.kind with
    | .aligned A am => alignedPread A (!am || memAligned) (s.files.getD 0 []) off cnt
    | .linear U => linearPread U s.files off cnt
    | .vlinear => vlinearPread s.files off cnt
    | .stripe S => stripePread S s.files ((s.files.getD 0 []).length / S) off cnt
    | .none => (none, [])
  match r with
  | some d => (s, out (some d.length) d s.files log)
  | none => (s, out none [] s.files log)

def doWrite (s : St) (off : Nat) (d : Bytes) (memAligned : Bool) : St × String :=
  match s.kind with
  | .aligned A am =>
    let f := s.files.getD 0 []
    let junk := List.replicate (alignedEnd A off d.length - alignedBegin A off) 170
    let (r, f', log) := alignedPwrite A (!am || memAligned) f off d junk
    ({ s with files := [f'] }, out r [] [f'] log)
  | .linear U => let (r, fs, log) := linearPwrite U s.files off d; ({ s with files := fs }, out r [] fs log)
  | .vlinear => let (r, fs, log) := vlinearPwrite s.files off d; ({ s with files := fs }, out r [] fs log)
  | .stripe S => let (r, fs, log) := stripePwrite S s.files ((s.files.getD 0 []).length / S) off d; ({ s with files := fs }, out r [] fs log)
  | .none => (s, "nofile")

def step (s : St) (toks : List String) : St × String :=
  match toks with
  | "new" :: "aligned" :: a :: am :: h :: [] => ({ kind := .aligned (a.toNat?.getD 1) (am = "1"), files := [unhex h] }, "ok")
  | "new" :: "linear" :: u :: hs => ({ kind := .linear (u.toNat?.getD 1), files := hs.map unhex }, "ok")
  | "new" :: "vlinear" :: hs => ({ kind := .vlinear, files := hs.map unhex }, "ok")
  | "new" :: "stripe" :: u :: hs => ({ kind := .stripe (u.toNat?.getD 1), files := hs.map unhex }, "ok")
  | ["pread", off, len, fl] => doRead s (off.toNat?.getD 0) (len.toNat?.getD 0) (fl = "a")
  | ["preadv", off, len, _, fl] => doRead s (off.toNat?.getD 0) (len.toNat?.getD 0) (fl = "a")
  | ["pwrite", off, h, fl] => doWrite s (off.toNat?.getD 0) (unhex h) (fl = "a")
  | ["pwritev", off, h, _, fl] => doWrite s (off.toNat?.getD 0) (unhex h) (fl = "a")
  | _ => (s, "bad-op")

end Driver.File
