import Photon.Model.Http
/-! line protocol front end for the HTTP framing specification (C13): same lines as harness/c13_http.cpp -/
namespace Driver.Http
open Photon.Http

def hex2 (n : Nat) : String :=
  let d := "0123456789abcdef".toList
  String.ofList [d.getD (n / 16) '?', d.getD (n % 16) '?']
def showBytes (bs : Bytes) : String := if bs.isEmpty then "-" else String.join (bs.map hex2)
def hexVal1 (c : Char) : Nat :=
  if c.isDigit then c.toNat - '0'.toNat else if 'a' ≤ c ∧ c ≤ 'f' then c.toNat - 'a'.toNat + 10 else 0
def unhexL : List Char → Bytes
  | a :: b :: r => (hexVal1 a * 16 + hexVal1 b) :: unhexL r
  | _ => []
def unhex (s : String) : Bytes := if s = "-" then [] else unhexL s.toList

def showParsed (isReq : Bool) (p : Parsed) : String :=
  let st := match p.start with
    | [a, b, c] => if isReq then s!"{showBytes a},{showBytes b},{showBytes c}" else s!"{decVal a 0},{showBytes b},{showBytes c}"
    | _ => "?"
  let hs := if p.headers.isEmpty then "-" else "|".intercalate (p.headers.map fun kv => showBytes kv.1 ++ ":" ++ showBytes kv.2)
  s!"rc=0 start={st} hdr={hs} body={showBytes p.body} end=0"

def step (_ : Unit) (toks : List String) : Unit × String :=
  match toks with
  | "req" :: h :: _ =>
    let w := unhex h
    if w.isEmpty then ((), "rc=1") else
    match parseRequest w with
    | some p => ((), showParsed true p)
    | none => ((), "rc=-1")
  | "resp" :: h :: rest =>
    let w := unhex h
    if w.isEmpty then ((), "rc=1") else
    match parseResponse w (rest.getLast? = some "HEAD") with
    | some p => ((), showParsed false p)
    | none => ((), "rc=-1")
  | _ => ((), "bad-op")

end Driver.Http
