import Photon.Model.Http
/-! line protocol front end for the HTTP framing specification (C13): same lines as harness/c13_http.cpp -/
namespace Driver.Http
open Photon.Http

def hex2 (n : Nat) : String :=
  let d := "0123456789abcdef".toList
  String.ofList [d.getD (n / 16) '?', d.getD (n % 16) '?']
def showBytes (bs : Bytes) : String := if bs.isEmpty then "-" else String.join (bs.map hex2)
def hexVal1 (c : Char) : Nat :=
  if c.isDigit then c.toNat - '0'.toNat else if 'a' ≤ c ∧ c ≤ 'f' then c.toNat - 'a'.toNat + 10 else 0
def unhexL : List Char → Bytes
  | a :: b :: r => (hexVal1 a * 16 + hexVal1 b) :: unhexL r
  | _ => []
def unhex (s : String) : Bytes := if s = "-" then [] else unhexL s.toList

def showParsed (isReq : Bool) (p : Parsed) : String :=
  let st := match p.start with
    | [a, b, c] => if isReq then s!"{showBytes a},{showBytes b},{showBytes c}" else s!"{decVal a 0},{showBytes b},{showBytes c}"
    | _ => "?"
  let hs := if p.headers.isEmpty then "-" else "|".intercalate (p.headers.map fun kv => showBytes kv.1 ++ ":" ++ showBytes kv.2)
  s!"rc=0 start={st} hdr={hs} body={showBytes p.body} end=0"

/-- the fragments the harness delivers for a `cuts` argument (`-` = whole; zero lengths skipped; the rest is one more fragment) -/
def fragsOf (w : Bytes) (cuts : String) : List Bytes :=
  let ls := if cuts = "-" then [] else (cuts.splitOn ",").filterMap String.toNat?
  let rec go (w : Bytes) : List Nat → List Bytes
    | [] => if w.isEmpty then [] else [w]
    | l :: r => if w.isEmpty then [] else if l = 0 then go w r else w.take l :: go (w.drop l) r
  go w ls
/-- the incremental search of `append_bytes` run over exactly these fragments -/
def hendOf (w : Bytes) (cuts : String) : String :=
  match scanFrags [] (fragsOf w cuts) with
  | some p => s!" hend={p}"
  | none => " hend=none"

def step (_ : Unit) (toks : List String) : Unit × String :=
  match toks with
  | "req" :: h :: rest =>
    let w := unhex h
    if w.isEmpty then ((), "rc=1") else
    match parseRequest w with
    | some p => ((), showParsed true p ++ hendOf w (rest.headD "-"))
    | none => ((), "rc=-1")
  | "resp" :: h :: rest =>
    let w := unhex h
    if w.isEmpty then ((), "rc=1") else
    match parseResponse w (rest.getLast? = some "HEAD") with
    | some p => ((), showParsed false p ++ hendOf w (rest.headD "-"))
    | none => ((), "rc=-1")
  | _ => ((), "bad-op")

end Driver.Http
