import Photon.Model.IntrLog
/-! front end for the cross-vCPU interrupt ledger (C04): consumes mv_sync `intrrace` output -/
namespace Driver.IntrLog
open Photon.IntrLog

structure D where
  st : St := {}
  rejected : Bool := false

def step (d : D) (toks : List String) : D × String :=
  match toks with
  | ["endprog"] => ({}, "ok")
  | _ =>
    if d.rejected then (d, "skip") else
    let evs : List Ev := match toks with
      | ["issued"] => [.issued]
      | ["delivered"] => [.delivered]
      | "stale" :: _ => [.stale]
      | "wrong-result" :: _ => [.wrongResult]
      | _ => []
    match run d.st evs with
    | .error m => ({ d with rejected := true }, "reject " ++ m)
    | .ok s => ({ d with st := s }, "ok")

end Driver.IntrLog
