import Photon.Model.Iov
import Std.Data.HashMap
/-! line protocol front end for the iovector model (C14) -/
namespace Driver.Iov
open Photon.Iov

structure St where
  views : Std.HashMap Nat View := {}
  mem : Std.HashMap (Nat × Nat) Nat := {}     -- bytes written so far; default = `content`

/-- initial content of every buffer (the harness fills buffers with the same function) -/
def content (a : Nat × Nat) : Nat := (a.1 * 37 + a.2 * 11 + 5) % 251

def St.read (s : St) (a : Nat × Nat) : Nat := (s.mem.get? a).getD (content a)

def hex2 (n : Nat) : String :=
  let d := "0123456789abcdef".toList
  String.ofList [d.getD (n / 16) '?', d.getD (n % 16) '?']

def showE (e : IoVec) : String := s!"{e.buf}:{e.off}:{e.len}"
def showV (v : View) : String := if v.isEmpty then "-" else " ".intercalate (v.map showE)
def showRet (r : Option Nat) : String := match r with | none => "-1" | some n => toString n

def parseE (s : String) : Option IoVec :=
  match (s.splitOn ":").map String.toNat? with
  | [some b, some o, some l] => some ⟨b, o, l⟩
  | _ => none

def parseV (toks : List String) : Option View :=
  if toks = ["-"] then some [] else toks.mapM parseE

/-- bytes of a list of source pieces, read from memory -/
def bytesOf (s : St) (ps : List IoVec) : List Nat := (addrs ps).map s.read

def showBytes (bs : List Nat) : String := if bs.isEmpty then "-" else String.join (bs.map hex2)

/-- a destination buffer of `n` bytes pre-filled with 0xEE, after the given (offset, piece) stores -/
def destBuf (s : St) (n : Nat) (stores : List (Nat × IoVec)) : List Nat :=
  let init : Std.HashMap Nat Nat := {}
  let m := stores.foldl (fun m (at_, p) =>
    (List.range p.len).foldl (fun m i => m.insert (at_ + i) (s.read (p.buf, p.off + i))) m) init
  (List.range n).map fun i => (m.get? i).getD 238

/-- apply memcpy calls to memory, in order -/
def applyCopies (s : St) (cs : List Copy) : St :=
  cs.foldl (fun s c =>
    (List.range c.dst.len).foldl (fun s i =>
      { s with mem := s.mem.insert (c.dst.buf, c.dst.off + i) (s.read (c.src.buf, c.src.off + i)) }) s) s

def getV (s : St) (id : String) : Option View := id.toNat?.bind fun i => s.views.get? i
def setV (s : St) (id : String) (v : View) : St :=
  match id.toNat? with
  | some i => { s with views := s.views.insert i v }
  | none => s

def step (s : St) (toks : List String) : St × String :=
  match toks with
  | ["buf", _, _] => (s, "ok")
  | "new" :: id :: es =>
    match parseV es with
    | some v => (setV s id v, "ok")
    | none => (s, "bad-op")
  | ["show", id] => match getV s id with | some v => (s, showV v) | none => (s, "bad-op")
  | ["flat", id] => match getV s id with | some v => (s, showBytes (bytesOf s v)) | none => (s, "bad-op")
  | ["sum", id] => match getV s id with | some v => (s, toString (sum v)) | none => (s, "bad-op")
  | ["shrink_to", id, n] =>
    match getV s id, n.toNat? with
    | some v, some n => let (r, v') := shrinkTo v n; (setV s id v', s!"{r} | {showV v'}")
    | _, _ => (s, "bad-op")
  | ["shrink_lt", id, n] =>
    match getV s id, n.toNat? with
    | some v, some n => let (r, v') := shrinkLessThan v n; (setV s id v', s!"{r} | {showV v'}")
    | _, _ => (s, "bad-op")
  | [op, id, n] =>
    match getV s id, n.toNat? with
    | some v, some n =>
      match op with
      | "xfront" => let r := extractFront none v n; (setV s id r.rest, s!"{showRet r.ret} | {showV r.rest}")
      | "xback" => let r := extractBack none v n; (setV s id r.rest, s!"{showRet r.ret} | {showV r.rest}")
      | "xfront_buf" =>
        let r := extractFront none v n
        (setV s id r.rest, s!"{showRet r.ret} | {showV r.rest} | {showBytes (destBuf s n (frontDest r.pieces 0))}")
      | "xback_buf" =>
        let r := extractBack none v n
        (setV s id r.rest, s!"{showRet r.ret} | {showV r.rest} | {showBytes (destBuf s n (backDest r.pieces n))}")
      | "xfc" =>
        let (p, v') := extractFrontContinuous v n
        (setV s id v', s!"{match p with | none => "null" | some p => showE p} | {showV v'}")
      | "xbc" =>
        let (p, v') := extractBackContinuous v n
        (setV s id v', s!"{match p with | none => "null" | some p => showE p} | {showV v'}")
      | "oxfc" =>
        let (c, v') := ownExtractFrontContinuous v n
        let cs := match c with
          | .direct p => s!"direct {showE p}"
          | .copied ps => s!"copied {showBytes (bytesOf s ps)}"
          | .null => "null"
        (setV s id v', s!"{cs} | {showV v'}")
      | "oxbc" =>
        let (c, v') := ownExtractBackContinuous v n
        let cs := match c with
          | .direct p => s!"direct {showE p}"
          | .copied ps => s!"copied {showBytes (destBuf s n (backDest ps n))}"
          | .null => "null"
        (setV s id v', s!"{cs} | {showV v'}")
      | "memcpy_to_buf" =>
        let (k, cs, _, _) := copyPipe n [⟨1000000, 0, n⟩] v
        (s, s!"{k} | {showBytes (destBuf s n (frontDest (cs.map (·.src)) 0))}")
      | "memcpy_from_buf" =>
        -- source buffer: pattern bytes i ↦ (i*7+3)%256 (the harness uses the same pattern)
        let (k, cs, _, _) := copyPipe n v [⟨1000001, 0, n⟩]
        let s' := cs.foldl (fun s c =>
          (List.range c.dst.len).foldl (fun s i =>
            { s with mem := s.mem.insert (c.dst.buf, c.dst.off + i) (((c.src.off + i) * 7 + 3) % 256) }) s) s
        (s', s!"{k} | {showBytes (bytesOf s' v)}")
      | "pipe_to_buf" =>
        let (k, cs, _, v') := copyPipe n [⟨1000000, 0, n⟩] v
        (setV s id v', s!"{k} | {showV v'} | {showBytes (destBuf s n (frontDest (cs.map (·.src)) 0))}")
      | _ => (s, "bad-op")
    | _, _ => (s, "bad-op")
  | [op, id, n, k] =>
    match getV s id, n.toNat?, k.toNat? with
    | some v, some n, some k =>
      match op with
      | "xfront_view" =>
        let r := extractFront (some k) v n
        (setV s id r.rest, s!"{showRet r.ret} | {showV r.rest} | {showV r.pieces}")
      | "xback_view" =>
        let r := extractBack (some k) v n
        (setV s id r.rest, s!"{showRet r.ret} | {showV r.rest} | {showV r.pieces.reverse}")
      | "memcpy_v" =>   -- memcpy_v <dst> <src> <size>
        match getV s (toString n) with
        | some sv =>
          let (c, cs, _, _) := copyPipe k v sv
          let s' := applyCopies s cs
          (s', s!"{c} | {showBytes (bytesOf s' v)}")
        | none => (s, "bad-op")
      | "pipe_v" =>     -- pipe_v <dst> <src> <size>: extracts from src
        match getV s (toString n) with
        | some sv =>
          let (c, cs, _, sv') := copyPipe k v sv
          let s' := applyCopies s cs
          (setV s' (toString n) sv', s!"{c} | {showV sv'} | {showBytes (bytesOf s' v)}")
        | none => (s, "bad-op")
      | _ => (s, "bad-op")
    | _, _, _ => (s, "bad-op")
  | ["slice", id, c, o, k] =>
    match getV s id, c.toNat?, o.toNat?, k.toNat? with
    | some v, some c, some o, some k =>
      match slice v c o k with
      | none => (s, "-1")
      | some (r, out) => (s, s!"{r} | {showV out}")
    | _, _, _, _ => (s, "bad-op")
  | _ => (s, "bad-op")

end Driver.Iov
