import Photon.Model.Life
import Std.Data.HashMap
/-! line protocol front end for the thread lifecycle automaton (C05): consumes mv_life logs -/
namespace Driver.Life
open Photon.Life

structure D where
  st : St := {}
  ids : Std.HashMap String Nat := {}
  next : Nat := 1
  rejected : Bool := false

def intern (d : D) (n : String) : D × Nat :=
  match d.ids.get? n with
  | some i => (d, i)
  | none => ({ d with ids := d.ids.insert n d.next, next := d.next + 1 }, d.next)

def events (d : D) (toks : List String) : D × List Ev :=
  match toks with
  | ["create", t, "by", _] => let (d, t) := intern d t; (d, [.create t])
  | ["begin", t, v] => let (d, t) := intern d t; (d, [.begin_ t (v.toNat?.getD 99)])
  | ["leave", t, v] => let (d, t) := intern d t; (d, [.leave t (v.toNat?.getD 99)])
  | ["enter", t, v] => let (d, t) := intern d t; (d, [.enter t (v.toNat?.getD 99)])
  | ["end", t, v, val] => let (d, t) := intern d t; (d, [.end_ t (v.toNat?.getD 99) (val.toInt?.getD 0)])
  | ["joined", _, t, val] => let (d, t) := intern d t; (d, [.joined t (val.toInt?.getD 0)])
  | ["overlap", t, _] => let (d, t) := intern d t; (d, [.overlap t])
  | ["count", v, b, a] => (d, [.count (v.toNat?.getD 0) (b.toNat?.getD 0) (a.toNat?.getD 0)])
  | ["result", "done"] => (d, [.final])
  | _ => (d, [])

def step (d : D) (toks : List String) : D × String :=
  match toks with
  | ["endprog"] => ({}, "ok")
  | _ =>
    if d.rejected then (d, "skip") else
    let (d1, evs) := events d toks
    match run d1.st evs with
    | .error m => ({ d1 with rejected := true }, "reject " ++ m)
    | .ok s => ({ d1 with st := s }, "ok")

end Driver.Life
