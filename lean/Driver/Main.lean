import Driver.RangeSplit
import Driver.Path
import Driver.Iov
import Driver.RangeLock
import Driver.Sync
import Driver.Chan
import Driver.ObjCache
import Driver.Rpc
import Driver.File
import Driver.Ser
import Driver.Http
import Driver.Life
import Driver.Pool
import Driver.Ring
import Driver.RingLog
import Driver.RangeModule
import Driver.CacheLog
import Driver.Sock
import Driver.RwSpec
import Driver.SemLog
import Driver.IntrLog
import Driver.ObjLog
/-! `driver <model>`: one op per stdin line, one canonical result line per op on stdout. -/

structure Model where
  σ : Type
  init : σ
  step : σ → List String → σ × String

def pureModel (f : List String → String) : Model := ⟨Unit, (), fun _ t => ((), f t)⟩

def dispatch (model : String) : Option Model :=
  match model with
  | "rs" => some (pureModel Driver.RangeSplit.step)
  | "path" => some (pureModel Driver.Path.step)
  | "iov" => some ⟨Driver.Iov.St, {}, Driver.Iov.step⟩
  | "objcache" => some ⟨Driver.ObjCache.D, {}, Driver.ObjCache.step⟩
  | "cachelog" => some ⟨Driver.CacheLog.D, {}, Driver.CacheLog.step⟩
  | "rangemodule" => some ⟨Photon.RangeModule.RM, [], Driver.RangeModule.step⟩
  | "ringlog" => some ⟨Driver.RingLog.D, {}, Driver.RingLog.step⟩
  | "ring" => some ⟨Photon.Ring.Ring, { cap := 2 }, Driver.Ring.step⟩
  | "pool" => some ⟨Driver.Pool.D, {}, Driver.Pool.step⟩
  | "life" => some ⟨Driver.Life.D, {}, Driver.Life.step⟩
  | "http" => some ⟨Unit, (), Driver.Http.step⟩
  | "ser" => some ⟨Driver.Ser.St, {}, Driver.Ser.step⟩
  | "file" => some ⟨Driver.File.St, {}, Driver.File.step⟩
  | "rpc" => some ⟨Driver.Rpc.D, {}, Driver.Rpc.step⟩
  | "objlog" => some ⟨Driver.ObjLog.D, {}, Driver.ObjLog.step⟩
  | "intrlog" => some ⟨Driver.IntrLog.D, {}, Driver.IntrLog.step⟩
  | "semlog" => some ⟨Driver.SemLog.D, {}, Driver.SemLog.step⟩
  | "rwspec" => some ⟨Driver.RwSpec.D, {}, Driver.RwSpec.step⟩
  | "sock" => some ⟨Driver.Sock.D, {}, Driver.Sock.step⟩
  | "doio" => some (pureModel Driver.Sock.doio)
  | "chan" => some ⟨Driver.Chan.D, {}, Driver.Chan.step⟩
  | "sync" => some ⟨Driver.Sync.D, {}, Driver.Sync.step⟩
  | "rangelock" => some ⟨Photon.RangeLock.State, {}, Driver.RangeLock.step⟩
  | _ => none

partial def loop (h : IO.FS.Stream) (out : IO.FS.Stream) (m : Model) (interactive : Bool) (s : m.σ) : IO Unit := do
  let line ← h.getLine
  if line.isEmpty then return ()
  let toks := (line.trimAscii.toString.splitOn " ").filter (· ≠ "")
  let (s', r) := m.step s toks
  out.putStrLn r
  if interactive then out.flush
  loop h out m interactive s'

def main (args : List String) : IO UInt32 := do
  let (args, interactive) := if args.contains "-i" then (args.filter (· ≠ "-i"), true) else (args, false)
  match args with
  | [m] =>
    match dispatch m with
    | some md =>
      let out ← IO.getStdout
      loop (← IO.getStdin) out md interactive md.init
      out.flush
      return 0
    | none => IO.eprintln s!"unknown model {m}"; return 2
  | _ => IO.eprintln "usage: driver <model>"; return 2
