import Driver.RangeSplit
import Driver.Path
/-! `driver <model>`: one op per stdin line, one canonical result line per op on stdout. -/

def dispatch (model : String) : Option (List String → String) :=
  match model with
  | "rs" => some Driver.RangeSplit.step
  | "path" => some Driver.Path.step
  | _ => none

partial def loop (h : IO.FS.Stream) (out : IO.FS.Stream) (f : List String → String) : IO Unit := do
  let line ← h.getLine
  if line.isEmpty then return ()
  let toks := (line.trimAscii.toString.splitOn " ").filter (· ≠ "")
  out.putStrLn (f toks)
  loop h out f

def main (args : List String) : IO UInt32 := do
  match args with
  | [m] =>
    match dispatch m with
    | some f =>
      let out ← IO.getStdout
      loop (← IO.getStdin) out f
      out.flush
      return 0
    | none => IO.eprintln s!"unknown model {m}"; return 2
  | _ => IO.eprintln "usage: driver <model>"; return 2
