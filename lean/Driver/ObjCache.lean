import Photon.Model.ObjCache
/-! line protocol front end for the ObjectCache specification automaton (C19): consumes hsim_objcache traces -/
namespace Driver.ObjCache
open Photon.ObjCache

structure D where
  st : St := {}
  rejected : Bool := false
  /-- key and recycle flag of the release each thread is inside of -/
  rel : List (String × Nat × Bool) := []
  /-- key, cooldown, and whether the constructor has run, of the acquire each thread is inside of -/
  acq : List (String × Nat × Nat × Bool) := []

def objOf (s : String) : Option Nat := match s.toInt? with | some i => if i < 0 then none else some i.toNat | none => none

def events (d : D) (toks : List String) : D × List Ev :=
  let tm : List Ev := match toks.getLast? with
    | some w => if w.startsWith "@" then (match (w.drop 1).toString.toNat? with | some n => [Ev.tick n] | none => []) else []
    | none => []
  match toks with
  | ["init", l] => (d, [.init (l.toNat?.getD 0)])
  | ["tick", n] => (d, [.tick (n.toNat?.getD 0)])
  | ["q", n] => (d, [.tick (n.toNat?.getD 0)])
  | ["ctor_begin", k, t, _] =>
    ({ d with acq := d.acq.map fun (t', k', c, r) => if t' = t then (t', k', c, true) else (t', k', c, r) }, tm ++ [.ctorBegin (k.toNat?.getD 0)])
  | ["ctor_end", k, o, _] => (d, tm ++ [.ctorEnd (k.toNat?.getD 0) (objOf o)])
  | ["dtor", k, o, _] => (d, tm ++ [.dtor (k.toNat?.getD 0) (o.toNat?.getD 0)])
  | ["call", t, "acquire", k, _, cd, _] => ({ d with acq := (t, k.toNat?.getD 0, cd.toNat?.getD 0, false) :: d.acq.filter (·.1 ≠ t) }, tm)
  | ["call", t, "release", k, r, _] =>
    let k := k.toNat?.getD 0
    -- effective recycle flag: demoted when another recycling release of this key is pending
    let eff : Bool := decide (r = "1") && decide ((d.st.item k).recycling = 0)
    ({ d with rel := (t, k, eff) :: d.rel.filter (·.1 ≠ t) }, tm ++ [.callRelease k eff])
  | ["ret", t, "acquire", o, _] =>
    match d.acq.find? (·.1 = t) with
    | some (_, k, cd, ran) =>
      if (objOf o).isNone ∧ !ran then (d, tm ++ [.retAcquireNoCtor k cd]) else (d, tm ++ [.retAcquire k (objOf o)])
    | none => (d, tm)
  | ["ret", t, "release", _, _] =>
    match d.rel.find? (·.1 = t) with
    | some (_, k, r) => (d, tm ++ [.retRelease k r])
    | none => (d, tm)
  | _ => (d, tm)

def step (d : D) (toks : List String) : D × String :=
  match toks with
  | ["endprog"] => ({}, "ok")
  | _ =>
    if d.rejected then (d, "skip") else
    let (d1, evs) := events d toks
    match run d1.st evs with
    | .error m => ({ d1 with rejected := true }, "reject " ++ m)
    | .ok s => ({ d1 with st := s }, "ok")

end Driver.ObjCache
