import Photon.Model.ObjLog
/-! front end for the multi-vCPU object ledger (C19): consumes mv_obj output -/
namespace Driver.ObjLog
open Photon.ObjLog

structure D where
  st : St := {}
  rejected : Bool := false

def step (d : D) (toks : List String) : D × String :=
  match toks with
  | ["endprog"] => ({}, "ok")
  | _ =>
    if d.rejected then (d, "skip") else
    let n (s : String) := s.toNat?.getD 0
    let evs : List Ev := match toks with
      | ["ctor_begin", k] => [.ctorBegin (n k)]
      | ["ctor_end", k, o] => [.ctorEnd (n k) (n o)]
      | ["acquired", _, k, o] => [.acquired (n k) (n o)]
      | ["releasing", _, k, o] => [.releasing (n k) (n o)]
      | ["destroyed", k, o] => [.destroyed (n k) (n o)]
      | "dead" :: _ => [.dead]
      | "refs" :: _ => [.dead]
      | _ => []
    match run d.st evs with
    | .error m => ({ d with rejected := true }, "reject " ++ m)
    | .ok s => ({ d with st := s }, "ok")

end Driver.ObjLog
