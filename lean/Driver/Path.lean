import Photon.Model.Path
/-! line protocol front end for the sub-filesystem path model (C20) -/
namespace Driver.Path
open Photon.Path

/-- `cat <base> p:<path>`: what every sub-filesystem operation forwards for `<path>` -/
def step (toks : List String) : String :=
  match toks with
  | ["cat", base, p] =>
    if !p.startsWith "p:" then "bad-op" else
    let path := (p.drop 2).toString.toList
    -- `SubFileSystem::init` appends '/' when the base does not end with one
    let b := base.toList
    let b := if b.getLast? = some '/' then b else b ++ ['/']
    match pathCat b path with
    | none => "reject all"
    | some q => "fwd " ++ String.ofList q ++ " all"
  | _ => "bad-op"

end Driver.Path
