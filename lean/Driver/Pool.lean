import Photon.Model.Pool
/-! line protocol front end for the WorkPool task automaton (C08): consumes mv_pool logs -/
namespace Driver.Pool
open Photon.Pool

structure D where
  st : St := {}
  rejected : Bool := false

def events (toks : List String) : List Ev :=
  match toks with
  | ["submit", "c", k] => [.submit (k.toNat?.getD 0) false]
  | ["submit", "a", k] => [.submit (k.toNat?.getD 0) true]
  | ["begin", k] => [.begin_ (k.toNat?.getD 0)]
  | ["end", k] => [.end_ (k.toNat?.getD 0)]
  | ["callret", k] => [.callret (k.toNat?.getD 0)]
  | ["deleted", k] => [.deleted (k.toNat?.getD 0)]
  | ["twice", k] => [.twice (k.toNat?.getD 0)]
  | ["destroy_begin"] => [.destroyBegin]
  | ["destroy_end"] => [.destroyEnd]
  | ["result", "done"] => [.final]
  | _ => []

def step (d : D) (toks : List String) : D × String :=
  match toks with
  | ["endprog"] => ({}, "ok")
  | _ =>
    if d.rejected then (d, "skip") else
    match run d.st (events toks) with
    | .error m => ({ d with rejected := true }, "reject " ++ m)
    | .ok s => ({ d with st := s }, "ok")

end Driver.Pool
