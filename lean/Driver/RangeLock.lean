import Photon.Model.RangeLock
/-! line protocol front end for the RangeLock model (C18) -/
namespace Driver.RangeLock
open Photon.RangeLock

def showIndex (s : State) : String :=
  " | index" ++ String.join (s.index.map fun e => s!" {e.id}:{e.off}:{e.len}")

def showWoken (w : List Nat) : String :=
  " | woken" ++ String.join ((w.toArray.qsort (· < ·)).toList.map fun t => s!" {t}")

def step (s : State) (toks : List String) : State × String :=
  match toks with
  | ["reset"] => ({}, "ok")
  | [op, t, off, len] =>
    match t.toNat?, off.toNat?, len.toNat? with
    | some t, some off, some len =>
      if op = "lock" ∨ op = "trylock" then
        let (s', r) := tryLock s t off len
        match r with
        | .acquired id => (s', s!"acq {id}" ++ showWoken [] ++ showIndex s')
        | .conflict _ co cl =>
          (s', (if op = "trylock" then s!"parked {co} {cl}" else "parked") ++ showWoken [] ++ showIndex s')
      else if op = "adjust" then
        match adjust s t off len with
        | some s' => (s', "0" ++ showWoken [] ++ showIndex s')
        | none => (s, "-1" ++ showWoken [] ++ showIndex s)
      else (s, "bad-op")
    | _, _, _ => (s, "bad-op")
  | ["unlock", id] =>
    match id.toNat? with
    | some id => let (s', w) := unlockHandle s id; (s', "ok" ++ showWoken w ++ showIndex s')
    | none => (s, "bad-op")
  | ["unlockr", off, len] =>
    match off.toNat?, len.toNat? with
    | some off, some len => let (s', w) := unlockRange s off len; (s', "ok" ++ showWoken w ++ showIndex s')
    | _, _ => (s, "bad-op")
  | _ => (s, "bad-op")

end Driver.RangeLock
