import Photon.Model.RangeModule
/-! line protocol front end for the RangeModule model (C17): same lines as harness/c17_rm.cpp -/
namespace Driver.RangeModule
open Photon.RangeModule

def showRM (m : RM) : String := if m.isEmpty then "-" else ",".intercalate (m.map fun iv => s!"{iv.1}:{iv.2}")

def step (m : RM) (toks : List String) : RM × String :=
  let n (s : String) := s.toNat?.getD 0
  let out (m : RM) (q : Nat × Nat) := (m, s!"q={q.1}:{q.2} iv={showRM m}")
  match toks with
  | ["add", l, r] => out (addRange m (n l) (n r)) (0, 0)
  | ["remove", l, r] => out (removeRange m (n l) (n r)) (0, 0)
  | ["removefrom", o] => out (removeRange m (n o) (2 ^ 63 - 1)) (0, 0)
  | ["clear"] => out [] (0, 0)
  | ["query", l, r] => out m (queryRefillRange m (n l) (n r))
  | _ => (m, "bad-op")

end Driver.RangeModule
