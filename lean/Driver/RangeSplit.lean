import Photon.Model.RangeSplit
/-! line protocol front end for the range-split model (C15) -/
namespace Driver.RangeSplit
open Photon.RangeSplit

def guard : Nat := 10000

def showSub (s : Sub) : String := s!"{s.i}:{s.off}:{s.len}"

def showList (n : Nat) (l : Unit → List Sub) : String :=
  if n > guard then s!"toomany"
  else s!"{n}" ++ String.join ((l ()).map fun p => " " ++ showSub p)

def run (d : Div) (off len : Nat) : String :=
  let s := init d off len
  let all := showList (allPartsCount s) (fun _ => allParts d s)
  let ap := showList (alignedPartsCount s) (fun _ => alignedParts d s)
  s!"parts {all} | sn {showSub s.smallNote} pre {showSub s.preface} first {showSub s.first} post {showSub s.postface} | a {s.abegin} {s.aend} {s.apbegin} {s.apend} {s.brem} {s.erem} | ap {ap} | abo {d.multiply s.abegin} aeo {d.multiply s.aend}"

def step (toks : List String) : String :=
  match toks with
  | ["fixed", o, l, iv] =>
    match o.toNat?, l.toNat?, iv.toNat? with
    | some o, some l, some iv => if iv = 0 then "bad-op" else run (fixedDiv iv) o l
    | _, _, _ => "bad-op"
  | ["pow2", o, l, k] =>
    match o.toNat?, l.toNat?, k.toNat? with
    | some o, some l, some k => if k ≥ 64 then "bad-op" else run (pow2Div k) o l
    | _, _, _ => "bad-op"
  | "vi" :: o :: l :: kps =>
    match o.toNat?, l.toNat?, kps.mapM (·.toNat?) with
    | some o, some l, some kp => run (viDiv kp) o l
    | _, _, _ => "bad-op"
  | _ => "bad-op"

end Driver.RangeSplit
