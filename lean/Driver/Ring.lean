import Photon.Model.Ring
/-! line protocol front end for the ring queue model (C07): same lines as harness/c07_ring.cpp -/
namespace Driver.Ring
open Photon.Ring

def nums (s : String) : List Nat := if s = "-" then [] else (s.splitOn ",").map (·.toNat?.getD 0)

def step (r : Ring) (toks : List String) : Ring × String :=
  match toks with
  | ["new", _, c] => ({ cap := capacityOf (c.toNat?.getD 0) }, "ok")
  | ["push", x] => let (r', ok) := push r (x.toNat?.getD 0); (r', if ok then "ok" else "full")
  | ["pop"] => match pop r with
    | (r', some x) => (r', toString x)
    | (r', none) => (r', "empty")
  | ["pushb", xs] => let (r', n) := pushBatch r (nums xs); (r', s!"n={n}")
  | ["popb", n] => let (r', xs) := popBatch r (n.toNat?.getD 0)
    (r', if xs.isEmpty then "-" else ",".intercalate (xs.map toString))
  | ["state"] => (r, s!"full={if full r then 1 else 0} empty={if empty r then 1 else 0} ravail={r.tail - r.head}")
  | _ => (r, "bad-op")

end Driver.Ring
