import Photon.Model.Ring
/-! front end for the concurrent-run acceptor of C07: consumes mv_ring output -/
namespace Driver.RingLog
open Photon.RingLog

structure D where
  st : St := {}
  rejected : Bool := false
  checkAvail : Bool := true

def step (d : D) (toks : List String) : D × String :=
  match toks with
  | ["endprog"] => ({}, "ok")
  | "ring" :: _ :: _ :: _ :: _ :: _ :: [b] => ({ d with checkAvail := b = "0" }, "ok")
  | _ =>
    if d.rejected then (d, "skip") else
    let evs : List Ev := match toks with
      | ["produced", p, n] => [.produced (p.toNat?.getD 0) (n.toNat?.getD 0)]
      | ["got", c, p, s] => [.got (c.toNat?.getD 0) (p.toNat?.getD 0) (s.toNat?.getD 0)]
      | ["maxavail", n, c] => if d.checkAvail then [.maxavail (n.toNat?.getD 0) (c.toNat?.getD 0)] else []
      | ["result", "done"] => [.final]
      | _ => []
    match run d.st evs with
    | .error m => ({ d with rejected := true }, "reject " ++ m)
    | .ok s => ({ d with st := s }, "ok")

end Driver.RingLog
