import Photon.Model.Ring
/-! front end for the concurrent-run acceptor of C07: consumes mv_ring output -/
namespace Driver.RingLog
open Photon.RingLog

structure D where
  st : St := {}
  rejected : Bool := false
  checkAvail : Bool := true

def step (d : D) (toks : List String) : D × String :=
  match toks with
  | ["endprog"] => ({}, "ok")
  | "ring" :: _ :: _ :: _ :: _ :: _ :: [b] => ({ d with checkAvail := b = "0" }, "ok")
  | _ =>
    -- `d` is taken apart so that the acceptor state (hash containers) is uniquely referenced and updated in place
    match d with
    | ⟨st, rejected, checkAvail⟩ =>
      if rejected then (⟨st, rejected, checkAvail⟩, "skip") else
      let evs : List Ev := match toks with
        | ["produced", p, n] => [.produced (p.toNat?.getD 0) (n.toNat?.getD 0)]
        | ["got", c, p, s] => [.got (c.toNat?.getD 0) (p.toNat?.getD 0) (s.toNat?.getD 0)]
        | ["maxavail", n, c] => if checkAvail then [.maxavail (n.toNat?.getD 0) (c.toNat?.getD 0)] else []
        | ["result", "done"] => [.final]
        | _ => []
      match evs with
      | [] => (⟨st, rejected, checkAvail⟩, "ok")
      | _ =>
        match run st evs with
        | .error m => (⟨{}, true, checkAvail⟩, "reject " ++ m)
        | .ok s => (⟨s, rejected, checkAvail⟩, "ok")

end Driver.RingLog
