import Photon.Model.Rpc
import Std.Data.HashMap
/-! line protocol front end for the RPC stub specification automaton (C11): consumes hsim_rpc traces -/
namespace Driver.Rpc
open Photon.Rpc

structure D where
  st : St := {}
  ids : Std.HashMap String Nat := {}
  next : Nat := 1
  rejected : Bool := false
  sizes : Std.HashMap Nat Nat := {}     -- response id -> body size (from the `resp` declarations)

def intern (d : D) (n : String) : D × Nat :=
  match d.ids.get? n with
  | some i => (d, i)
  | none => ({ d with ids := d.ids.insert n d.next, next := d.next + 1 }, d.next)

def parseTo (s : String) : Option Nat := if s = "inf" then none else s.toNat?
def kv (s : String) : Nat := ((s.splitOn "=").getD 1 "0").toNat?.getD 0
/-- buffer owner: `-1` (a buffer of no call) is mapped to call id 0, which is never used -/
def owner (s : String) : Nat := match s.toInt? with | some i => if i < 0 then 0 else i.toNat | none => 0

def events (d : D) (toks : List String) : D × List Ev :=
  let tm : List Ev := match toks.getLast? with
    | some w => if w.startsWith "@" then (match (w.drop 1).toString.toNat? with | some n => [Ev.tick n] | none => []) else []
    | none => []
  match toks with
  | ["resp", rid, _, _, size] => ({ d with sizes := d.sizes.insert (rid.toNat?.getD 0) (size.toNat?.getD 0) }, [])
  | ["q", n] => (d, [.tick (n.toNat?.getD 0)])
  | ["tick", n] => (d, [.tick (n.toNat?.getD 0)])
  | ["qs", a, q, c, r] => (d, [.quiescent (kv a) (kv q) (kv c != 0) (kv r != 0)])
  | ["final", q] => (d, [.final (kv q)])
  | ["call", t, k, to, _, _] => let (d, t) := intern d t; (d, tm ++ [.call t (owner k) (parseTo to)])
  | ["w", t, tag, k, r, _] => let (d, t) := intern d t; (d, tm ++ [.sent t (tag.toNat?.getD 0) (owner k) (decide ((r.toInt?.getD (-1)) ≥ 0))])
  | ["rh", t, rid, tag, r, _, _] => let (d, t) := intern d t; (d, tm ++ [.hdr t (owner rid) (tag.toNat?.getD 0) ((d.sizes.get? (owner rid)).getD 0) (r = "40")])
  | ["rbb", t, k, _, _, _] => let (d, t) := intern d t; (d, tm ++ [.bodyBegin t (owner k)])
  | ["rb", t, rid, k, r, _, _, _] => let (d, t) := intern d t; (d, tm ++ [.bodyEnd t (owner rid) (owner k) (r.toInt?.getD (-1))])
  | ["intr", target, _, "by", b] => let (d, tg) := intern d target; let (d, b) := intern d b; (d, [.intr tg b])
  | ["ret", t, k, r, _, content, _] => let (d, t) := intern d t; (d, tm ++ [.ret t (owner k) (r.toInt?.getD (-1)) content.toNat?])
  | ["shutdown", _] => (d, [.shutdown])
  | ["canary", k, _] => (d, [.canary (owner k)])
  | _ => (d, [])

def step (d : D) (toks : List String) : D × String :=
  match toks with
  | ["endprog"] => ({}, "ok")
  | _ =>
    if d.rejected then (d, "skip") else
    let (d1, evs) := events d toks
    match run d1.st evs with
    | .error m => ({ d1 with rejected := true }, "reject " ++ m)
    | .ok s => ({ d1 with st := s }, "ok")

end Driver.Rpc
