import Photon.Model.RwSpec
import Std.Data.HashMap
/-! line protocol front end for the API-level rwlock automaton (C06): consumes hsim_rw traces -/
namespace Driver.RwSpec
open Photon.RwSpec

structure D where
  st : St := {}
  ids : Std.HashMap String Nat := {}
  next : Nat := 1
  rejected : Bool := false

def intern (d : D) (n : String) : D × Nat :=
  match d.ids.get? n with
  | some i => (d, i)
  | none => ({ d with ids := d.ids.insert n d.next, next := d.next + 1 }, d.next)

def events (d : D) (toks : List String) : D × List Ev :=
  let tm : List Ev := match toks.getLast? with
    | some w => if w.startsWith "@" then (match (w.drop 1).toString.toNat? with | some n => [Ev.tick n] | none => []) else []
    | none => []
  match toks with
  | ["q", n] => (d, [.tick (n.toNat?.getD 0), .quiescent])
  | ["tick", n] => (d, [.tick (n.toNat?.getD 0)])
  | ["call", t, k, to, _] =>
    let (d, t) := intern d t
    (d, tm ++ [.call t (k = "w" ∨ k = "tw") (if k.startsWith "t" then some 0 else if to = "inf" then none else to.toNat?) (k.startsWith "t")])
  | ["ret", t, _, r, _, _] => let (d, t) := intern d t; (d, tm ++ [.ret t (r = "0")])
  | ["unlock", t, _] => let (d, t) := intern d t; (d, tm ++ [.unlock t])
  | ["intr", t] => let (d, t) := intern d t; (d, [.interrupt t])
  | "overlap" :: _ => (d, [.overlap])
  | _ => (d, [])

def step (d : D) (toks : List String) : D × String :=
  match toks with
  | ["endprog"] => ({}, "ok")
  | _ =>
    if d.rejected then (d, "skip") else
    let (d1, evs) := events d toks
    match run d1.st evs with
    | .error m => ({ d1 with rejected := true }, "reject " ++ m)
    | .ok s => ({ d1 with st := s }, "ok")

end Driver.RwSpec
