import Photon.Model.SemLog
/-! front end for the multi-vCPU semaphore ledger (C02): consumes mv_sync `sem` / `semd` output -/
namespace Driver.SemLog
open Photon.SemLog

structure D where
  st : St := {}
  rejected : Bool := false

def step (d : D) (toks : List String) : D × String :=
  match toks with
  | ["endprog"] => ({}, "ok")
  | _ =>
    if d.rejected then (d, "skip") else
    let evs : List Ev := match toks with
      | ["signal", _, n] => [.signal (n.toNat?.getD 0)]
      | ["got", _, n] => [.got (n.toNat?.getD 0)]
      | "late-write" :: _ => [.late]
      | ["remaining", n] => [.remaining (n.toNat?.getD 0)]
      | _ => []
    match run d.st evs with
    | .error m => ({ d with rejected := true }, "reject " ++ m)
    | .ok s => ({ d with st := s }, "ok")

end Driver.SemLog
