import Photon.Model.Ser
import Std.Data.HashMap
/-! line protocol front end for the serialization model (C12): same lines as harness/c12_ser.cpp -/
namespace Driver.Ser
open Photon.Ser

structure St where
  schemas : Std.HashMap String Schema := {}

def hex2 (n : Nat) : String :=
  let d := "0123456789abcdef".toList
  String.ofList [d.getD (n / 16) '?', d.getD (n % 16) '?']
def showBytes (bs : Bytes) : String := if bs.isEmpty then "-" else String.join (bs.map hex2)
def hexVal (c : Char) : Nat :=
  if c.isDigit then c.toNat - '0'.toNat else if 'a' ≤ c ∧ c ≤ 'f' then c.toNat - 'a'.toNat + 10 else 0
def unhexL : List Char → Bytes
  | a :: b :: r => (hexVal a * 16 + hexVal b) :: unhexL r
  | _ => []
def unhex (s : String) : Bytes := if s = "-" then [] else unhexL s.toList

def kvOf (toks : List String) (k : String) : String :=
  match toks.find? (·.startsWith (k ++ "=")) with
  | some t => (t.drop (k.length + 1)).toString
  | none => "-"
def nats (s : String) (sep : Char) : List Nat := if s = "-" ∨ s = "" then [] else (s.splitOn (String.singleton sep)).map (·.toNat?.getD 0)

def parseSchema (toks : List String) : Schema :=
  let fields := if kvOf toks "fields" = "-" then [] else ((kvOf toks "fields").splitOn ",").map fun f =>
    match f.splitOn ":" with
    | [k, o, a] => ({ iov := k = "v", lenOff := o.toNat?.getD 0, aligned := a = "1" } : Field)
    | _ => { iov := false, lenOff := 0, aligned := false }
  let scalars := if kvOf toks "scalars" = "-" then [] else ((kvOf toks "scalars").splitOn ",").map fun f =>
    match f.splitOn ":" with
    | [o, n] => (o.toNat?.getD 0, n.toNat?.getD 0)
    | _ => (0, 0)
  { B := (kvOf toks "B").toNat?.getD 0, fields := fields, scalars := scalars, crc := (kvOf toks "crc").toNat? }

def showOk (fs : List Bytes) (sc : List Nat) : String :=
  s!"ok f={";".intercalate (fs.map showBytes)} s={",".intercalate (sc.map toString)}"

/-- one index entry of the sorted map: anchor key and value, deserialize the value as `Inner` -/
def showEntry (inner : Schema) (base : Bytes) (e : Bytes) : String :=
  let key := anchor base (le64 e 0) (le64 e 8)
  let val := anchor base (le64 e 16) (le64 e 24)
  let v := match deserialize inner val with
    | some (fs, sc) => s!"{sc.getD 0 0},{sc.getD 1 0},{showBytes (fs.getD 0 [])}"
    | none => "null"
  s!"{showBytes key}:{v}"

def chunks (n : Nat) : Nat → Bytes → List Bytes
  | 0, _ => []
  | fuel + 1, b => if b.length < n ∨ n = 0 then [] else b.take n :: chunks n fuel (b.drop n)

def step (s : St) (toks : List String) : St × String :=
  match toks with
  | "schema-def" :: name :: rest => ({ s with schemas := s.schemas.insert name (parseSchema rest) }, "ok")
  | ["crc", h, init] => (s, toString (crc32c (unhex h) (init.toNat?.getD 0)))
  | ["des", T, wh, _] =>
    match s.schemas.get? T with
    | none => (s, "bad-type")
    | some sch =>
      match deserialize sch (unhex wh) with
      | none => (s, "null")
      | some (fs, sc) =>
        if T = "M4" then
          let index := fs.getD 0 []
          let base := fs.getD 1 []
          let es := chunks 32 (index.length + 1) index
          let inner := (s.schemas.get? "Inner").getD { B := 0, fields := [], scalars := [], crc := none }
          let m := if es.isEmpty then "-" else "|".intercalate (es.map (showEntry inner base))
          (s, showOk fs sc ++ s!" map={m}")
        else (s, showOk fs sc)
  | _ => (s, "bad-op")

end Driver.Ser
