import Photon.Model.Sock
import Std.Data.HashMap
/-! line protocol front ends for C10: `sock` consumes hsim_sock traces; `doio` evaluates the transfer-loop model -/
namespace Driver.Sock
open Photon.Sock

structure D where
  st : St := {}
  ids : Std.HashMap String Nat := {}
  next : Nat := 1
  rejected : Bool := false

def intern (d : D) (n : String) : D × Nat :=
  match d.ids.get? n with
  | some i => (d, i)
  | none => ({ d with ids := d.ids.insert n d.next, next := d.next + 1 }, d.next)

/-- "12a" -> 24, "12b" -> 25 -/
def parseEp (s : String) : Nat :=
  let c := (s.dropEnd 1).toString.toNat?.getD 0
  2 * c + (if s.endsWith "b" then 1 else 0)

def parseKind (s : String) : Option Kind :=
  match s with
  | "write" => some .write | "writev" => some .writev | "send" => some .send | "sendv" => some .sendv
  | "read" => some .read | "readv" => some .readv | "recv" => some .recv | "recvv" => some .recvv
  | _ => none

def field (pfx : String) (w : String) : String := if w.startsWith pfx then (w.drop pfx.length).toString else ""

def parseInt (s : String) : Int :=
  if s.startsWith "-" then - (Int.ofNat ((s.drop 1).toString.toNat?.getD 0)) else Int.ofNat (s.toNat?.getD 0)

def events (d : D) (toks : List String) : D × List Ev :=
  let tm : List Ev := match toks.getLast? with
    | some w => if w.startsWith "@" then (match (w.drop 1).toString.toNat? with | some n => [Ev.tick n] | none => []) else []
    | none => []
  match toks with
  | ["q", n] => (d, [.tick (n.toNat?.getD 0), .quiescent])
  | ["tick", n] => (d, [.tick (n.toNat?.getD 0)])
  | ["call", t, k, ep, req, _] =>
    (match parseKind k with
     | some kd => let (d, t) := intern d t; (d, tm ++ [.call t kd (parseEp ep) (req.toNat?.getD 0)])
     | none => (d, tm))
  | ["ret", t, _, _, r, e, off, data, _] =>
    let (d, t) := intern d t
    (d, tm ++ [.ret t (parseInt (field "r=" r)) ((field "e=" e).toNat?.getD 0) ((field "off=" off).toNat?.getD 0) (field "data=" data != "" && !(field "data=" data).startsWith "BAD")])
  | ["set", _, "timeout", ep, v] => (d, [.setTimeout (parseEp ep) (if v = "inf" then none else v.toNat?)])
  | ["shutdown", _, ep, _] => (d, tm ++ [.shutdown (parseEp ep)])
  | ["close", _, ep, _] => (d, tm ++ [.close (parseEp ep)])
  | "spurious" :: _ => (d, [.spurious])
  | ["result", "done"] => (d, [.final])
  | _ => (d, [])

def step (d : D) (toks : List String) : D × String :=
  match toks with
  | ["endprog"] => ({}, "ok")
  | _ =>
    if d.rejected then (d, "skip") else
    let (d1, evs) := events d toks
    match run d1.st evs with
    | .error m => ({ d1 with rejected := true }, "reject " ++ m)
    | .ok s => ({ d1 with st := s }, "ok")

/-! `doio`:  `buf <count> <r1,r2,...>`  /  `vec <l1,l2,..> <r1,r2,...>`   results: number = bytes, `e` = failure -/
def parseRes (s : String) : List (Option Nat) := (s.splitOn ",").filterMap (fun w => if w = "" then none else if w = "e" then some none else (w.toNat?).map some)
def showRes (r : Option Nat) : String := match r with | some n => toString n | none => "-1"
def showV (v : List (Nat × Nat)) : String := String.intercalate "," (v.map (fun (a, l) => s!"{a}+{l}"))

def doio (toks : List String) : String :=
  match toks with
  | ["buf", count, rs] =>
    let (r, log) := ioLoop (parseRes rs) (count.toNat?.getD 0) 0 []
    s!"ret={showRes r} calls={showV log}"
  | ["vec", ls, rs] =>
    let lens := (ls.splitOn ",").filterMap String.toNat?
    -- element i lives at address (i+1)*1000000
    let v := (List.range lens.length).zip lens |>.map (fun (i, l) => ((i + 1) * 1000000, l))
    let (r, log) := ioLoopV (parseRes rs) (skipEmpty 1 v) 0 []
    s!"ret={showRes r} calls={String.intercalate "|" (log.map showV)}"
  | _ => "bad-op"

end Driver.Sock
