import Photon.Model.Sync
import Std.Data.HashMap
/-! line protocol front end for the Sync acceptor (C01-C04, C06): consumes hsim traces -/
namespace Driver.Sync
open Photon.Sync

structure D where
  st : St := {}
  ids : Std.HashMap String Nat := {}
  next : Nat := 1
  rejected : Bool := false
  kinds : Std.HashMap String String := {}

def intern (d : D) (n : String) : D × Nat :=
  match d.ids.get? n with
  | some i => (d, i)
  | none => ({ d with ids := d.ids.insert n d.next, next := d.next + 1 }, d.next)

def optName (d : D) (n : String) : D × Option Nat :=
  if n = "-" then (d, none) else let (d', i) := intern d n; (d', some i)

def parseTo (s : String) : Option Nat := if s = "inf" then none else s.toNat?
def toInt (s : String) : Int := (s.toInt?).getD 0

/-- translate a trace line into model events (possibly none) -/
def events (d : D) (toks : List String) : D × List Ev :=
  match toks with
  | ["h", "CREATE", t, "by", _] => let (d, t) := intern d t; (d, [.create t])
  | ["h", "DIE", t, _] => let (d, t) := intern d t; (d, [.die t])
  | ["h", "SLEEP", t, q, dl] =>
    let (d, t) := intern d t; let (d, q) := optName d q; (d, [.sleep t q (parseTo dl)])
  | ["h", "WAKE_TIMEOUT", t, _] => let (d, t) := intern d t; (d, [.wakeTimeout t])
  | ["h", "WAKE_INTR", t, e, _, "by", u] => let (d, t) := intern d t; let (d, u) := intern d u; (d, [.wakeIntr t (toInt e) u])
  | ["h", "INTR_NOSLEEP", t, _, stored, e, "by", u] =>
    let (d, t) := intern d t; let (d, u) := intern d u; (d, [.intrNoSleep t (stored = "1") (toInt e) u])
  | ["h", "RESUME", t, r, e] => let (d, t) := intern d t; (d, [.resume t (toInt r) (toInt e)])
  | ["h", "YIELD", t] => let (d, t) := intern d t; (d, [.yield t])
  | ["h", "YIELD_RET", t, r] => let (d, t) := intern d t; (d, [.yieldRet t (toInt r)])
  | ["h", "MUTEX_TRY", m, ok, t] => let (d, m) := intern d m; let (d, t) := intern d t; (d, [.mutexTry m (ok = "1") t])
  | ["h", "MUTEX_UNLOCK", m, no, hd, "by", u] =>
    let (d, m) := intern d m; let (d, no) := optName d no; let (d, hd) := optName d hd; let (d, u) := intern d u
    (d, [.mutexUnlock m no hd u])
  | ["h", "SEM_ADD", s, n, c, "by", _] => let (d, s) := intern d s; (d, [.semAdd s (n.toNat?.getD 0) (c.toNat?.getD 0)])
  | ["h", "SEM_SUB", s, n, ok, "by", u] => let (d, s) := intern d s; let (d, u) := intern d u; (d, [.semSub s (n.toNat?.getD 0) (ok = "1") u])
  | ["h", "SEM_PASS", s, c, "by", _] => let (d, s) := intern d s; (d, [.semPass s (c.toNat?.getD 0)])
  | ["h", "SEM_RESUME", s, dm, t] => let (d, s) := intern d s; let (d, t) := intern d t; (d, [.semResume s (dm.toNat?.getD 0) t])
  | ["tick", n] => (d, [.tick (n.toNat?.getD 0)])
  | ["q", n] => (d, [.tick (n.toNat?.getD 0), .quiescent])
  | "call" :: t :: op :: rest =>
    let (d, t) := intern d t
    -- the trailing "@time" token is informational
    let args := rest.filter (fun a => !a.startsWith "@")
    match op, args with
    | "sleep", [us] => (d, [.call t (.sleep (parseTo us))])
    | "sleepd", [us] => (d, [.call t (.sleep (parseTo us))])
    | "yield", [] => (d, [.call t .yield])
    | "lock", [m, to] => let (d, m) := intern d m; (d, [.call t (.lock m (parseTo to))])
    | "trylock", [m] => let (d, m) := intern d m; (d, [.call t (.trylock m)])
    | "unlock", [m] => let (d, m) := intern d m; (d, [.call t .other, .callUnlock t m])
    | "wait", [s, n, to] => let (d, s) := intern d s; (d, [.call t (.semwait s (n.toNat?.getD 0) (parseTo to) false)])
    | "waiti", [s, n, to] => let (d, s) := intern d s; (d, [.call t (.semwait s (n.toNat?.getD 0) (parseTo to) true)])
    | "cvwait", [c, m, to] =>
      let (d, c) := intern d c; let (d, m') := intern d m
      -- waiting with a spinlock: no mutex protocol to follow
      if (d.kinds.get? m) = some "spin" then (d, [.call t .other]) else (d, [.call t (.cvwait c m' (parseTo to))])
    | "notify", [c] => let (d, c) := intern d c; (d, [.call t (.notify c false)])
    | "notifyall", [c] => let (d, c) := intern d c; (d, [.call t (.notify c true)])
    | "rlock", [rw, _] => let (d, rw) := intern d rw; (d, [.call t (.rwlock rw false)])
    | "wlock", [rw, _] => let (d, rw) := intern d rw; (d, [.call t (.rwlock rw true)])
    | "rwunlock", [rw] => let (d, rw) := intern d rw; (d, [.call t .other, .callRwUnlock t rw])
    | "shutdown", [u] => let (d, u) := intern d u; (d, [.call t .other, .setShutdown u])
    | _, _ => (d, [.call t .other])
  | "ret" :: t :: op :: r :: e :: _ =>
    let (d, t) := intern d t
    let x := d.st.th t
    match op, x.op with
    | "sleep", _ => (d, [.retSleep t (toInt r) (toInt e)])
    | "sleepd", _ => (d, [.retSleep t (toInt r) (toInt e)])
    | "yield", _ => (d, [.retYield t (toInt r)])
    | "lock", .lock m _ => (d, [.retLock t m (toInt r) (toInt e)])
    | "trylock", .trylock m => (d, [.retTryLock t m (toInt r)])
    | "wait", .semwait s _ _ _ => (d, [.retSemWait t s (toInt r) (toInt e)])
    | "waiti", .semwait s _ _ _ => (d, [.retSemWait t s (toInt r) (toInt e)])
    | "cvwait", .cvwait c m _ => (d, [.retCvWait t c m (toInt r) (toInt e)])
    | "rlock", .rwlock rw w => (d, [.retRwLock t rw w (toInt r)])
    | "wlock", .rwlock rw w => (d, [.retRwLock t rw w (toInt r)])
    | "notify", .notify c a => (d, [.retNotify t c (toInt r) a])
    | "notifyall", .notify c a => (d, [.retNotify t c (toInt r) a])
    | _, _ => (d, [])
  | _ => (d, [])

def showName (d : D) (i : Nat) : String :=
  match d.ids.toList.find? (fun p => p.2 = i) with
  | some p => p.1
  | none => toString i

def step (d : D) (toks : List String) : D × String :=
  match toks with
  | ["endprog"] => ({}, "ok")
  | ["obj", kind, name] | ["obj", kind, name, _] | ["obj", kind, name, _, _] =>
    let (d, i) := intern d name
    let d := if kind = "rw" then (intern (intern d (name ++ ".cv")).1 (name ++ ".mtx")).1 else d
    let d := { d with kinds := d.kinds.insert name kind }
    let ev : Option Ev := match kind, toks with
      | "mutex", _ => some (.mutexInit i false)
      | "rmutex", _ => some (.mutexInit i false)
      | "cmutex", _ => some (.mutexInit i true)
      | "sem", [_, _, _, c, ino] => some (.semInit i (c.toNat?.getD 0) (decide (ino = "1")))
      | "rw", _ => some (.rwInit i ((intern d (name ++ ".cv")).2) ((intern d (name ++ ".mtx")).2))
      | _, _ => none
    match ev with
    | none => (d, "ok")
    | some ev =>
      match Photon.Sync.step d.st ev with
      | .ok s => ({ d with st := s }, "ok")
      | .error m => ({ d with rejected := true }, "reject " ++ m)
  | _ =>
    if d.rejected then (d, "skip") else
    let (d1, evs) := events d toks
    -- every call/ret line carries the virtual time: keep the model clock in step
    let evs := match toks.getLast? with
      | some w => if w.startsWith "@" then (match (w.drop 1).toString.toNat? with | some n => Ev.tick n :: evs | none => evs) else evs
      | none => evs
    match run d1.st evs with
    | .error m =>
      -- say which waiter is stuck when the quiescence guard is what failed
      let detail := match toks with
        | ["q", n] => (match run d1.st [Ev.tick (n.toNat?.getD 0)] with
            | .ok s1 => "; ".intercalate (stuckAtQuiescence s1)
            | .error _ => "")
        | _ => ""
      ({ d1 with rejected := true }, "reject " ++ m ++ (if detail.isEmpty then "" else " [" ++ detail ++ "]"))
    | .ok s =>
      let d2 := { d1 with st := s }
      match toks with
      | ["qs", "mutex", m, ow] | ["fs", "mutex", m, ow] =>
        let (d3, mi) := intern d2 m
        let want := match (s.mutex mi).owner with | none => "owner=-" | some t => "owner=" ++ showName d3 t
        (d3, if ow = want then "ok" else s!"reject real {m} {ow} but model {want}")
      | ["qs", "sem", sm, c] | ["fs", "sem", sm, c] =>
        let (d3, si) := intern d2 sm
        let want := s!"count={(s.sem si).count}"
        (d3, if c = want then "ok" else s!"reject real {sm} {c} but model {want}")
      | ["qs", "rw", rw, st] | ["fs", "rw", rw, st] =>
        let (d3, ri) := intern d2 rw
        let want := s!"state={rwStateOf (s.rw ri)}"
        (d3, if st = want then "ok" else s!"reject real {rw} {st} but model {want}")
      | _ => (d2, "ok")

end Driver.Sync
