-- Root of the `Photon` library: models, lemmas and property theorems.
import Photon.Model.RangeSplit
import Photon.Lemmas.RangeSplit
import Photon.Properties.C15
import Photon.Model.Path
import Photon.Properties.C20
import Photon.Model.Iov
import Photon.Properties.C14
import Photon.Model.RangeLock
import Photon.Properties.C18
import Photon.Model.Sync
import Photon.Properties.C04
import Photon.Properties.C01
import Photon.Properties.C02
import Photon.Properties.C03
import Photon.Properties.C06
import Photon.Model.Chan
import Photon.Properties.C09
