import Photon.Model.Iov
/-! Helper lemmas for C14 (iovector). -/
namespace Photon.Iov

@[simp] theorem addrs_nil : addrs [] = [] := rfl
@[simp] theorem addrs_cons (e : IoVec) (r : View) : addrs (e :: r) = e.addrs ++ addrs r := by
  simp [addrs]
@[simp] theorem IoVec.addrs_length (e : IoVec) : e.addrs.length = e.len := by simp [IoVec.addrs]
theorem addrs_append (a b : View) : addrs (a ++ b) = addrs a ++ addrs b := by simp [addrs]

theorem addrs_length (v : View) : (addrs v).length = sum v := by
  induction v with
  | nil => rfl
  | cons e r ih => simp [sum, ih]

/-- an element splits into its first `k` bytes and the rest -/
theorem IoVec.addrs_split (b o l k : Nat) (h : k ≤ l) :
    (IoVec.mk b o l).addrs = (IoVec.mk b o k).addrs ++ (IoVec.mk b (o + k) (l - k)).addrs := by
  obtain ⟨m, rfl⟩ : ∃ m, l = k + m := ⟨l - k, by omega⟩
  simp only [IoVec.addrs, List.range_add, List.map_append, List.map_map, Nat.add_sub_cancel_left]
  congr 1
  apply List.map_congr_left
  intro i _
  simp [Nat.add_assoc]

@[simp] theorem IoVec.addrs_zero (b o : Nat) : (IoVec.mk b o 0).addrs = [] := by simp [IoVec.addrs]

/-- a split determines take and drop -/
theorem take_drop_of_split {α} {l a b : List α} {n : Nat} (h : a ++ b = l) (hn : a.length = n) :
    l.take n = a ∧ l.drop n = b := by
  subst h; exact ⟨List.take_left' hn, List.drop_left' hn⟩

theorem take_len_add {α} (a b : List α) (n k : Nat) (h : a.length = n) :
    (a ++ b).take (n + k) = a ++ b.take k := by
  subst h; exact List.take_length_add_append k

end Photon.Iov
