import Photon.Model.RangeSplit
/-! Helper lemmas for C15 (range split). -/
namespace Photon.RangeSplit

theorem W_pos : 0 < W := by unfold W; exact Nat.two_pow_pos 64
theorem one_lt_W : 1 < W := by unfold W; exact Nat.one_lt_two_pow (by decide)

/-- `ceil = floor + [rem ≠ 0]` -/
theorem ceil_div (x iv : Nat) (h : 0 < iv) :
    (x + iv - 1) / iv = x / iv + (if x % iv = 0 then 0 else 1) := by
  have h1 := Nat.div_add_mod x iv
  have h2 := Nat.mod_lt x h
  generalize x / iv = q at h1 ⊢
  generalize x % iv = r at h1 h2 ⊢
  split
  · next h0 =>
    apply Nat.div_eq_of_lt_le
    · rw [Nat.add_zero, Nat.mul_comm]; omega
    · rw [Nat.add_zero, Nat.add_mul, Nat.mul_comm]; omega
  · next h0 =>
    apply Nat.div_eq_of_lt_le
    · rw [Nat.add_mul, Nat.mul_comm]; omega
    · rw [Nat.add_mul, Nat.add_mul, Nat.mul_comm]; omega

/-- what `range_split::divide` computes when `x + iv ≤ 2^64` -/
theorem fixed_divide (iv x : Nat) (h : 0 < iv) (hx : x + iv ≤ W) :
    (fixedDiv iv).divide x = (x / iv, x % iv, x / iv + (if x % iv = 0 then 0 else 1)) := by
  simp only [fixedDiv]
  rw [Nat.mod_eq_of_lt (a := x + iv - 1) (b := W) (by omega), ceil_div x iv h]

/-- shift/mask divide = generic divide for `iv = 2^k` -/
theorem pow2_divide (k x : Nat) : (pow2Div k).divide x = (fixedDiv (2 ^ k)).divide x := by
  simp only [pow2Div, fixedDiv, Nat.shiftRight_eq_div_pow, Nat.and_two_pow_sub_one_eq_mod]
  have : 0 < 2 ^ k := Nat.two_pow_pos k
  have e : x + (2 ^ k - 1) = x + 2 ^ k - 1 := by omega
  rw [e]

theorem pow2_getLength (k i : Nat) : (pow2Div k).getLength i = (fixedDiv (2 ^ k)).getLength i := rfl

theorem pow2_multiply (k i : Nat) : (pow2Div k).multiply i = (fixedDiv (2 ^ k)).multiply i := by
  simp [pow2Div, fixedDiv, Nat.shiftLeft_eq]

/-- `init` only looks at `divide` and `getLength` -/
theorem init_congr (d d' : Div) (o l : Nat) (h1 : ∀ x, d.divide x = d'.divide x)
    (h2 : ∀ i, d.getLength i = d'.getLength i) : init d o l = init d' o l := by
  simp only [init, h1, h2]

theorem partsFrom_congr (d d' : Div) (s : Split) (h2 : ∀ i, d.getLength i = d'.getLength i) :
    ∀ n i, partsFrom d s i n = partsFrom d' s i n := by
  intro n; induction n with
  | zero => intro i; rfl
  | succ n ih => intro i; simp only [partsFrom, nextPart, h2, ih]

theorem alignedFrom_congr (d d' : Div) (h2 : ∀ i, d.getLength i = d'.getLength i) :
    ∀ n i, alignedFrom d i n = alignedFrom d' i n := by
  intro n; induction n with
  | zero => intro i; rfl
  | succ n ih => intro i; simp only [alignedFrom, h2, ih]

/-! ### tiling lemmas -/

theorem Tiles_append (iv : Nat) : ∀ (ps qs : List Sub) (x y z : Nat),
    Tiles iv x ps y → Tiles iv y qs z → Tiles iv x (ps ++ qs) z := by
  intro ps; induction ps with
  | nil => intro qs x y z h1 h2; simp only [Tiles] at h1; subst h1; simpa using h2
  | cons p r ih =>
    intro qs x y z h1 h2
    simp only [Tiles, List.cons_append] at h1 ⊢
    exact ⟨h1.1, h1.2.1, h1.2.2.1, ih qs _ y z h1.2.2.2 h2⟩

/-- the iterator of `all_parts`, started at block `i` with `n` elements to go, tiles
    `[i*iv, E)` when `aend = q + [t ≠ 0]` and `postface` is as `init` sets it -/
theorem parts_tile (iv : Nat) (hiv : 0 < iv) (d : Div) (hd : ∀ i, d.getLength i = iv) (s : Split)
    (q t E : Nat) (hE : E = q * iv + t) (ht : t < iv)
    (hpost : s.postface = if t = 0 then ⟨0, 0, 0⟩ else ⟨q, 0, t⟩) :
    ∀ n i, i + n = q + (if t = 0 then 0 else 1) → i + n < W →
      Tiles iv (i * iv) (partsFrom d s i n) (if n = 0 then i * iv else E) ∧
      Consecutive (partsFrom d s i n) ∧
      ((partsFrom d s i n).head?.map (·.i) = if n = 0 then none else some i) := by
  intro n; induction n with
  | zero => intro i _ _; simp [partsFrom, Tiles, Consecutive]
  | succ n ih =>
    intro i hin hw
    have hmod : (i + 1) % W = i + 1 := Nat.mod_eq_of_lt (by omega)
    obtain ⟨t1, t2, t3⟩ := ih (i + 1) (by omega) (by omega)
    simp only [partsFrom, hmod, Nat.add_one_ne_zero, if_false, List.head?_cons, Option.map_some]
    refine ⟨?_, ?_, rfl⟩
    · simp only [Tiles, nextPart, Sub.lo, Sub.hi, hd]
      by_cases h0 : t = 0
      · -- no postface: a full block
        simp only [h0, if_true] at hpost hin
        simp only [hpost, Nat.lt_irrefl, false_and, if_false]
        refine ⟨by omega, hiv, by omega, ?_⟩
        have e1 : i * iv + 0 + iv = (i + 1) * iv := by rw [Nat.add_mul]; omega
        rw [e1]
        by_cases hn : n = 0
        · subst hn
          have : i + 1 = q := by omega
          simp only [if_true] at t1
          rw [hE, h0, Nat.add_zero, ← this]; exact t1
        · simp only [hn, if_false] at t1; exact t1
      · simp only [h0, if_false] at hpost hin
        simp only [hpost]
        by_cases hq : q = i
        · -- the postface block: the last one
          have hn : n = 0 := by omega
          subst hn
          have htp : 0 < t := Nat.pos_of_ne_zero h0
          simp only [htp, hq, and_self, if_true, partsFrom, Tiles]
          refine ⟨by omega, trivial, by omega, ?_⟩
          rw [hE, hq]; omega
        · have : ¬ (0 < t ∧ q = i) := fun h => hq h.2
          simp only [this, if_false]
          refine ⟨by omega, hiv, by omega, ?_⟩
          have e1 : i * iv + 0 + iv = (i + 1) * iv := by rw [Nat.add_mul]; omega
          rw [e1]
          have hn : n ≠ 0 := by omega
          simp only [hn, if_false] at t1; exact t1
    · cases n with
      | zero => simp [partsFrom, Consecutive]
      | succ m =>
        simp only [partsFrom] at t3 t2 ⊢
        simp only [Consecutive]
        exact ⟨by simp [nextPart], t2⟩

/-- uniqueness of quotient and remainder -/
theorem divmod_unique (iv a b c e : Nat) (hb : b < iv) (he : e < iv) (h : a * iv + b = c * iv + e) :
    a = c ∧ b = e := by
  have hiv : 0 < iv := by omega
  have h1 : (a * iv + b) / iv = a := by
    rw [Nat.mul_comm, Nat.mul_add_div hiv, Nat.div_eq_of_lt hb, Nat.add_zero]
  have h2 : (c * iv + e) / iv = c := by
    rw [Nat.mul_comm, Nat.mul_add_div hiv, Nat.div_eq_of_lt he, Nat.add_zero]
  have hac : a = c := by rw [← h1, ← h2, h]
  subst hac
  exact ⟨rfl, by omega⟩

/-- shape of `init` when the range lies inside one block (`aend = abegin + 1`) -/
theorem init_single (iv o l a r m t : Nat)
    (hd1 : (fixedDiv iv).divide o = (a, r, a + if r = 0 then 0 else 1))
    (hd2 : (fixedDiv iv).divide (o + l) = (a + m, t, a + m + if t = 0 then 0 else 1))
    (hmodE : (o + l) % W = o + l) (hm1 : (a + 1) % W = a + 1)
    (hs : m + (if t = 0 then 0 else 1) = 1) :
    init (fixedDiv iv) o l =
      { b := o, e := o + l, abegin := a, aend := a + 1, apbegin := a + (if r = 0 then 0 else 1),
        apend := a + m, brem := r, erem := t,
        smallNote := if r ≠ 0 ∧ t ≠ 0 then ⟨a, r, l⟩ else ⟨0, 0, 0⟩,
        preface := if r ≠ 0 ∧ t = 0 then ⟨a, r, l⟩ else ⟨0, 0, 0⟩,
        first := ⟨a, r, l⟩,
        postface := if r = 0 ∧ t ≠ 0 then ⟨a, r, l⟩ else ⟨0, 0, 0⟩ } := by
  simp only [init, hmodE, hd1, hd2, hm1]
  by_cases h0 : t = 0
  · have hm : m = 1 := by simpa [h0] using hs
    subst hm
    by_cases hr0 : r = 0 <;> simp [h0, hr0]
  · have hm : m = 0 := by simpa [h0] using hs
    subst hm
    by_cases hr0 : r = 0 <;> simp [h0, hr0]

/-- shape of `init` when the range touches at least two blocks -/
theorem init_multi (iv o l a r m t : Nat) (hr : r < iv)
    (hd1 : (fixedDiv iv).divide o = (a, r, a + if r = 0 then 0 else 1))
    (hd2 : (fixedDiv iv).divide (o + l) = (a + m, t, a + m + if t = 0 then 0 else 1))
    (hmodE : (o + l) % W = o + l) (hm1 : (a + 1) % W = a + 1) (hiv : iv < W)
    (hs : m + (if t = 0 then 0 else 1) ≠ 1) :
    init (fixedDiv iv) o l =
      { b := o, e := o + l, abegin := a, aend := a + m + (if t = 0 then 0 else 1),
        apbegin := a + (if r = 0 then 0 else 1),
        apend := a + m, brem := r, erem := t,
        smallNote := ⟨0, 0, 0⟩,
        preface := if r = 0 then ⟨0, 0, 0⟩ else ⟨a, r, iv - r⟩,
        first := ⟨a, r, iv - r⟩,
        postface := if t = 0 then ⟨0, 0, 0⟩ else ⟨a + m, 0, t⟩ } := by
  have hne : ¬ (a + 1 = a + m + if t = 0 then 0 else 1) := by omega
  have e1 : (iv + W - r) % W = iv - r := by
    have : iv + W - r = (iv - r) + W := by omega
    rw [this, Nat.add_mod_right, Nat.mod_eq_of_lt (by omega)]
  have hg : ∀ i, (fixedDiv iv).getLength i = iv := fun _ => rfl
  simp only [init, hmodE, hd1, hd2, hm1, hne, if_false, hg, e1]
  by_cases h0 : t = 0 <;> by_cases hr0 : r = 0 <;> simp [h0, hr0] <;> omega

/-- the tail of `all_parts` = the aligned blocks followed by the postface (if any) -/
theorem partsFrom_eq_aligned (d : Div) (s : Split) (q t : Nat)
    (hpost : s.postface = if t = 0 then ⟨0, 0, 0⟩ else ⟨q, 0, t⟩) :
    ∀ k i, i + k = q → q + 1 < W →
      partsFrom d s i (k + (if t = 0 then 0 else 1)) =
        alignedFrom d i k ++ (if t = 0 then [] else [⟨q, 0, t⟩]) := by
  intro k; induction k with
  | zero =>
    intro i hi hw
    by_cases h0 : t = 0
    · simp [h0, partsFrom, alignedFrom]
    · have htp : 0 < t := Nat.pos_of_ne_zero h0
      simp only [h0, if_false] at hpost
      simp [h0, partsFrom, alignedFrom, nextPart, hpost, htp]; omega
  | succ k ih =>
    intro i hi hw
    have hmod : (i + 1) % W = i + 1 := Nat.mod_eq_of_lt (by omega)
    have e : k + 1 + (if t = 0 then 0 else 1) = (k + (if t = 0 then 0 else 1)) + 1 := by omega
    rw [e]
    simp only [partsFrom, alignedFrom, hmod, List.cons_append]
    rw [ih (i + 1) (by omega) hw]
    congr 1
    simp only [nextPart]
    by_cases h0 : t = 0
    · simp [h0] at hpost; simp [hpost]
    · simp only [h0, if_false] at hpost
      have : ¬ (0 < t ∧ q = i) := by omega
      simp [hpost, this]

/-- the two shapes of `init` inside the no-wrap domain, with quotients and remainders named:
    `o = a*iv + r`, `o + l = (a+m)*iv + t` -/
theorem shape (iv o l : Nat) (h : NoWrap iv o l) :
    ∃ a r m t, r < iv ∧ t < iv ∧ o = a * iv + r ∧ r + l = m * iv + t ∧ a + m + 1 < W ∧
      ((m + (if t = 0 then 0 else 1) = 1 ∧ init (fixedDiv iv) o l =
          { b := o, e := o + l, abegin := a, aend := a + 1, apbegin := a + (if r = 0 then 0 else 1),
            apend := a + m, brem := r, erem := t,
            smallNote := if r ≠ 0 ∧ t ≠ 0 then ⟨a, r, l⟩ else ⟨0, 0, 0⟩,
            preface := if r ≠ 0 ∧ t = 0 then ⟨a, r, l⟩ else ⟨0, 0, 0⟩,
            first := ⟨a, r, l⟩,
            postface := if r = 0 ∧ t ≠ 0 then ⟨a, r, l⟩ else ⟨0, 0, 0⟩ }) ∨
       (m + (if t = 0 then 0 else 1) ≠ 1 ∧ init (fixedDiv iv) o l =
          { b := o, e := o + l, abegin := a, aend := a + m + (if t = 0 then 0 else 1),
            apbegin := a + (if r = 0 then 0 else 1),
            apend := a + m, brem := r, erem := t,
            smallNote := ⟨0, 0, 0⟩,
            preface := if r = 0 then ⟨0, 0, 0⟩ else ⟨a, r, iv - r⟩,
            first := ⟨a, r, iv - r⟩,
            postface := if t = 0 then ⟨0, 0, 0⟩ else ⟨a + m, 0, t⟩ })) := by
  obtain ⟨hiv, hivW, hw⟩ := h
  have h1 := Nat.div_add_mod o iv
  have h2 := Nat.div_add_mod (o + l) iv
  have h3 : o / iv ≤ (o + l) / iv := Nat.div_le_div_right (by omega)
  have hrl := Nat.mod_lt o hiv
  have htl := Nat.mod_lt (o + l) hiv
  obtain ⟨m, hm⟩ : ∃ m, (o + l) / iv = o / iv + m := ⟨(o + l) / iv - o / iv, by omega⟩
  have hd1 := fixed_divide iv o hiv (by omega)
  have hd2 := fixed_divide iv (o + l) hiv (by omega)
  have hmodE : (o + l) % W = o + l := Nat.mod_eq_of_lt (by omega)
  rw [hm] at hd2 h2
  generalize o / iv = a at *
  generalize o % iv = r at *
  generalize (o + l) % iv = t at *
  have ho : o = a * iv + r := by rw [Nat.mul_comm]; omega
  have hrel : r + l = m * iv + t := by
    rw [Nat.mul_add, Nat.mul_comm iv a, Nat.mul_comm iv m] at h2; omega
  have hbound : a + m + 1 < W := by
    have : a + m + 1 ≤ (a + m + 1) * iv := Nat.le_mul_of_pos_right _ hiv
    rw [Nat.add_mul, Nat.add_mul] at this; omega
  have hm1 : (a + 1) % W = a + 1 := Nat.mod_eq_of_lt (by omega)
  refine ⟨a, r, m, t, hrl, htl, ho, hrel, hbound, ?_⟩
  by_cases hs : m + (if t = 0 then 0 else 1) = 1
  · exact Or.inl ⟨hs, init_single iv o l a r m t hd1 hd2 hmodE hm1 hs⟩
  · exact Or.inr ⟨hs, init_multi iv o l a r m t hrl hd1 hd2 hmodE hm1 hivW hs⟩

theorem alignedPartsCount_eq (s : Split) (h1 : s.apbegin < W) (h2 : s.apend < W) :
    alignedPartsCount s = s.apend - s.apbegin := by
  simp only [alignedPartsCount, alignedBounds, Nat.mod_eq_of_lt h1]
  by_cases hg : s.apbegin > s.apend
  · simp only [hg, if_true]
    have : s.apbegin + W - s.apbegin = W := by omega
    rw [this, Nat.mod_self]; omega
  · simp only [hg, if_false]
    have : s.apend + W - s.apbegin = (s.apend - s.apbegin) + W := by omega
    rw [this, Nat.add_mod_right]; exact Nat.mod_eq_of_lt (by omega)

theorem allPartsCount_eq (s : Split) (h1 : s.first.i ≤ s.aend) (h2 : s.aend < W) :
    allPartsCount s = s.aend - s.first.i := by
  simp only [allPartsCount, Nat.mod_eq_of_lt (show s.first.i < W by omega)]
  have : s.aend + W - s.first.i = (s.aend - s.first.i) + W := by omega
  rw [this, Nat.add_mod_right]; exact Nat.mod_eq_of_lt (by omega)

theorem alignedFrom_succ (d : Div) (i n : Nat) (h : i + 1 < W) :
    alignedFrom d i (n + 1) = ⟨i, 0, d.getLength i⟩ :: alignedFrom d (i + 1) n := by
  simp only [alignedFrom, Nat.mod_eq_of_lt h]

theorem filter_pos_of_Tiles (iv : Nat) : ∀ (ps : List Sub) (x y : Nat), Tiles iv x ps y →
    ps.filter (fun p => decide (0 < p.len)) = ps := by
  intro ps; induction ps with
  | nil => intro _ _ _; rfl
  | cons p r ih =>
    intro x y h
    simp only [Tiles] at h
    simp only [List.filter_cons, h.2.1, decide_true, if_true]
    rw [ih _ _ h.2.2.2]

end Photon.RangeSplit
