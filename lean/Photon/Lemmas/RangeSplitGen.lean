import Photon.Model.RangeSplit
import Photon.Lemmas.RangeSplit

/-!
# Tiling of `basic_range_split` for ANY divider that satisfies the hooks' contract

`fs/range-split.h` is a CRTP base: `range_split`, `range_split_power2` and `range_split_vi`
only provide `divide / multiply / get_length`.  Here the tiling property is proved once, for an
abstract `Div` that meets the contract `DivOk` (prefix positions `multiply`, positive lengths,
`divide` inverts `multiply`), and then instantiated for the variable-interval splitter.
-/
namespace Photon.RangeSplit

/-- tiling with variable block lengths: block `i` spans `[P i, P i + L i)` -/
def TilesV (P L : Nat → Nat) : Nat → List Sub → Nat → Prop
  | x, [], y => x = y
  | x, p :: r, y => P p.i + p.off = x ∧ 0 < p.len ∧ p.off + p.len ≤ L p.i ∧
      TilesV P L (P p.i + p.off + p.len) r y

/-- contract of the three hooks for a space of `N` blocks `0 … N-1` -/
structure DivOk (d : Div) (N : Nat) : Prop where
  hN : N + 1 < W
  hPW : d.multiply N < W
  hP : ∀ i, i < N → d.multiply (i + 1) = d.multiply i + d.getLength i
  hL : ∀ i, i < N → 0 < d.getLength i
  hdiv : ∀ x, x ≤ d.multiply N → ∃ a r, d.divide x = (a, r, if 0 < r then a + 1 else a) ∧
    d.multiply a + r = x ∧ a ≤ N ∧ (a < N → r < d.getLength a) ∧ (a = N → r = 0)

theorem DivOk.mono {d : Div} {N : Nat} (h : DivOk d N) :
    ∀ j i, i ≤ j → j ≤ N → d.multiply i ≤ d.multiply j := by
  intro j
  induction j with
  | zero => intro i hi _; have : i = 0 := by omega
            subst this; exact Nat.le_refl _
  | succ j ih =>
    intro i hi hj
    by_cases he : i = j + 1
    · subst he; exact Nat.le_refl _
    · have := ih i (by omega) (by omega)
      have := h.hP j (by omega)
      omega

theorem DivOk.succ_le {d : Div} {N : Nat} (h : DivOk d N) (i j : Nat) (hij : i < j) (hj : j ≤ N) :
    d.multiply i + d.getLength i ≤ d.multiply j := by
  have := h.hP i (by omega)
  have := h.mono j (i + 1) (by omega) hj
  omega

/-- elements after the first, when the range ends on a block boundary (`postface` empty) -/
theorem partsFrom_tilesV_exact (d : Div) (N : Nat) (h : DivOk d N) (s : Split) (q : Nat) (hq : q ≤ N)
    (hpf : s.postface.len = 0) :
    ∀ n i, i + n = q →
      TilesV d.multiply d.getLength (d.multiply i) (partsFrom d s i n) (d.multiply q) := by
  intro n
  induction n with
  | zero => intro i hi; simp only [Nat.add_zero] at hi; subst hi; simp [partsFrom, TilesV]
  | succ n ih =>
    intro i hi
    have hiN : i < N := by omega
    have hW := h.hN
    have hm : (i + 1) % W = i + 1 := Nat.mod_eq_of_lt (by omega)
    simp only [partsFrom, nextPart, hpf, Nat.lt_irrefl, false_and, if_false, TilesV, hm, Nat.add_zero]
    refine ⟨trivial, h.hL i hiN, Nat.zero_add _ ▸ Nat.le_refl _, ?_⟩
    rw [← h.hP i hiN]
    exact ih (i + 1) (by omega)

/-- elements after the first, when the range ends inside block `q` (`postface = (q,0,t)`) -/
theorem partsFrom_tilesV_post (d : Div) (N : Nat) (h : DivOk d N) (s : Split) (q t : Nat) (hq : q < N)
    (ht : 0 < t) (htl : t ≤ d.getLength q) (hpf : s.postface = ⟨q, 0, t⟩) :
    ∀ n i, i + n = q →
      TilesV d.multiply d.getLength (d.multiply i) (partsFrom d s i (n + 1)) (d.multiply q + t) := by
  intro n
  induction n with
  | zero =>
    intro i hi; simp only [Nat.add_zero] at hi; subst hi
    simp only [partsFrom, nextPart, hpf, ht, and_self, if_true, TilesV, Nat.add_zero]
    refine ⟨trivial, ?_, ?_, trivial⟩ <;> first | trivial | omega
  | succ n ih =>
    intro i hi
    have hiN : i < N := by omega
    have hW := h.hN
    have hm : (i + 1) % W = i + 1 := Nat.mod_eq_of_lt (by omega)
    have hne : ¬ (0 < t ∧ q = i) := by omega
    rw [partsFrom]
    simp only [nextPart, hpf, hne, if_false, TilesV, hm, Nat.add_zero]
    refine ⟨trivial, h.hL i hiN, Nat.zero_add _ ▸ Nat.le_refl _, ?_⟩
    rw [← h.hP i hiN]
    exact ih (i + 1) (by omega)

/-- **generic tiling**: for every divider meeting the contract, every range `[o, o+l)` inside
    the space, the elements of `all_parts()` tile the range block by block. -/
theorem tilesV_generic (d : Div) (N : Nat) (h : DivOk d N) (o l : Nat) (hl : 0 < l)
    (hend : o + l ≤ d.multiply N) :
    let ps := allParts d (init d o l)
    ps ≠ [] ∧ TilesV d.multiply d.getLength o ps (o + l) := by
  have hW := h.hN
  have hPW := h.hPW
  obtain ⟨a, r, hd1, hb, haN, hrl, hrN⟩ := h.hdiv o (by omega)
  obtain ⟨q, t, hd2, he, hqN, htl, htN⟩ := h.hdiv (o + l) hend
  have hmodE : (o + l) % W = o + l := Nat.mod_eq_of_lt (by omega)
  -- a ≤ q
  have haq : a ≤ q := by
    apply Classical.byContradiction; intro hc
    have hqa : q < a := by omega
    have h1 := h.succ_le q a hqa haN
    have := htl (by omega)
    omega
  have haN' : a < N := by
    apply Classical.byContradiction; intro hc
    have : a = N := by omega
    have hr0 := hrN this
    have : q = N := by omega
    have := htN this
    subst_vars; omega
  have hrl' := hrl haN'
  have hm1 : (a + 1) % W = a + 1 := Nat.mod_eq_of_lt (by omega)
  have hLW : d.getLength a < W := by
    have := h.hP a haN'
    have := h.mono N (a + 1) (by omega) (Nat.le_refl _)
    omega
  intro ps
  by_cases hs : a + 1 = (if 0 < t then q + 1 else q)
  · -- one block
    have hfirst : (init d o l).first = ⟨a, r, l⟩ ∧ (init d o l).aend = a + 1 := by
      have hd2' := hd2
      generalize (if 0 < t then q + 1 else q) = X at hs hd2'
      simp only [init, hmodE, hd1, hd2']
      rw [if_pos (hm1.trans hs)]
      constructor <;> (repeat' split) <;> first | rfl | exact hs.symm
    have hps : ps = [⟨a, r, l⟩] := by
      have hc : (a + 1 + W - a % W) % W = 1 := by
        rw [Nat.mod_eq_of_lt (by omega : a < W)]
        have : a + 1 + W - a = 1 + W := by omega
        rw [this, Nat.add_mod_right]; exact Nat.mod_eq_of_lt one_lt_W
      simp only [ps, allParts, allPartsCount, hfirst.1, hfirst.2, hc, Nat.one_ne_zero, if_false,
        Nat.sub_self, partsFrom]
    rw [hps]
    refine ⟨by simp, ?_⟩
    simp only [TilesV]
    refine ⟨hb, hl, ?_, by omega⟩
    by_cases ht : 0 < t
    · simp only [ht, if_true] at hs
      have hqa : q = a := by omega
      subst hqa
      have := htl haN'
      omega
    · simp only [ht, if_false] at hs
      subst hs
      have := h.hP a haN'
      omega
  · -- at least two blocks
    have hq' : a + 2 ≤ (if 0 < t then q + 1 else q) := by
      by_cases ht : 0 < t
      · simp only [ht, if_true] at hs ⊢
        by_cases hqa : q = a
        · omega
        · omega
      · simp only [ht, if_false] at hs ⊢
        have ht0 : t = 0 := by omega
        by_cases hqa : q = a
        · subst hqa; omega
        · omega
    have hplen : (d.getLength a + W - r) % W = d.getLength a - r := by
      have : d.getLength a + W - r = (d.getLength a - r) + W := by omega
      rw [this, Nat.add_mod_right]; exact Nat.mod_eq_of_lt (by omega)
    have hfirst : (init d o l).first = ⟨a, r, d.getLength a - r⟩ ∧
        (init d o l).aend = (if 0 < t then q + 1 else q) ∧
        (init d o l).postface = (if 0 < t then ⟨q, 0, t⟩ else ⟨0, 0, 0⟩) := by
      simp only [init, hmodE, hd1, hd2]
      rw [if_neg (by rw [hm1]; exact hs)]
      refine ⟨?_, rfl, ?_⟩
      · by_cases hr : 0 < r
        · have : ¬ (a = a + 1) := by omega
          simp only [hr, if_true, this, if_false, hplen]
          have : 0 < d.getLength a - r := by omega
          simp [this]
        · have hr0 : r = 0 := by omega
          simp [hr0]
      · by_cases ht : 0 < t
        · simp [ht]
        · simp [ht]
    obtain ⟨hf1, hf2, hf3⟩ := hfirst
    have hcnt : allPartsCount (init d o l) = (if 0 < t then q + 1 else q) - a := by
      simp only [allPartsCount, hf1, hf2]
      rw [Nat.mod_eq_of_lt (by omega : a < W)]
      have hlt : (if 0 < t then q + 1 else q) < W := by split <;> omega
      have : (if 0 < t then q + 1 else q) + W - a = ((if 0 < t then q + 1 else q) - a) + W := by omega
      rw [this, Nat.add_mod_right]; exact Nat.mod_eq_of_lt (by omega)
    have hps : ps = ⟨a, r, d.getLength a - r⟩ ::
        partsFrom d (init d o l) (a + 1) ((if 0 < t then q + 1 else q) - a - 1) := by
      have : ¬ ((if 0 < t then q + 1 else q) - a = 0) := by omega
      simp only [ps, allParts, hcnt, this, if_false, hf1, hm1]
    rw [hps]
    refine ⟨by simp, ?_⟩
    simp only [TilesV]
    refine ⟨hb, by omega, by omega, ?_⟩
    have hnext : d.multiply a + r + (d.getLength a - r) = d.multiply (a + 1) := by
      have := h.hP a haN'; omega
    rw [hnext, ← he]
    by_cases ht : 0 < t
    · simp only [ht, if_true] at hq' hf3 ⊢
      have hqN' : q < N := by
        apply Classical.byContradiction; intro hc
        have := htN (by omega); omega
      have hcount : q + 1 - a - 1 = (q - a - 1) + 1 := by omega
      rw [hcount]
      exact partsFrom_tilesV_post d N h _ q t hqN' ht (Nat.le_of_lt (htl hqN')) hf3 (q - a - 1) (a + 1) (by omega)
    · simp only [ht, if_false] at hq' hf3 ⊢
      have ht0 : t = 0 := by omega
      subst ht0
      rw [Nat.add_zero]
      exact partsFrom_tilesV_exact d N h _ q hqN (by rw [hf3]) (q - a - 1) (a + 1) (by omega)

end Photon.RangeSplit
