/-!
# Specification automaton of the Go-style channel (`thread/go.h`), property C09

One vCPU: every channel operation is atomic between two blocking points and takes effect right
before it returns, so the API call/return events of a run, in execution order, must be accepted by
this automaton (a bounded FIFO for `capacity > 0`, a rendezvous for `capacity = 0`).
Values are tags chosen by the harness; the theorems assume the tags handed to `send` are distinct.
-/
namespace Photon.Chan

structure Pending where
  t : Nat
  v : Nat
  callAt : Nat
  to : Option Nat          -- timeout in µs, none = infinite; `some 0` also stands for try_send
  try_ : Bool
  deriving DecidableEq, Repr

structure RPending where
  t : Nat
  callAt : Nat
  to : Option Nat
  try_ : Bool
  deriving DecidableEq, Repr

structure St where
  cap : Nat := 0
  now : Nat := 0
  closed : Bool := false
  buf : List Nat := []               -- buffered channel content, oldest first
  sends : List Pending := []         -- send calls that have not returned
  recvs : List RPending := []        -- recv calls that have not returned
  taken : List Nat := []             -- unbuffered: values taken by a receiver whose sender has not returned yet
  slot : List Nat := []              -- unbuffered: values placed by a try_send that already returned true
  -- history (ghost)
  offered : List Nat := []           -- every value ever handed to send/try_send
  sentOk : List Nat := []            -- values whose send/try_send returned true, in return order
  recvd : List Nat := []             -- values returned by successful recv/try_recv, in return order
  deriving Repr

inductive Ev where
  | init (cap : Nat)
  | callSend (t v : Nat) (to : Option Nat) (try_ : Bool)
  | retSend (t : Nat) (ok : Bool)
  | callRecv (t : Nat) (to : Option Nat) (try_ : Bool)
  | retRecv (t : Nat) (ok : Bool) (v : Nat)
  | close
  | tick (now : Nat)
  | quiescent
  deriving Repr

def timedOut (callAt : Nat) (to : Option Nat) (now : Nat) : Bool :=
  match to with
  | some us => decide (callAt + us ≤ now)
  | none => false

/-- guard: `none` = accepted -/
def pre (s : St) (e : Ev) : Option String :=
  match e with
  | .init _ => none
  | .callSend t _ _ _ => if s.sends.any (·.t == t) ∨ s.recvs.any (·.t == t) then some "thread already inside a channel operation" else none
  | .callRecv t _ _ => if s.sends.any (·.t == t) ∨ s.recvs.any (·.t == t) then some "thread already inside a channel operation" else none
  | .retSend t ok =>
    match s.sends.find? (·.t == t) with
    | none => some "send returned without a call"
    | some p =>
      if ok then
        if s.closed ∧ s.cap > 0 then some "send reported true on a closed channel"
        else if s.cap > 0 then (if s.buf.length < s.cap then none else some "send reported true although the buffer is full")
        else if p.try_ then
          (if s.recvs.any (fun r => !r.try_) then none else some "try_send on an unbuffered channel reported true without a waiting receiver")
        else if s.taken.contains p.v then none
        else some "send reported true but no receiver has taken the value (lost or overwritten)"
      else
        if s.closed then none
        else if p.try_ then none
        else if timedOut p.callAt p.to s.now then none
        else some "send reported false without close() and before its timeout"
  | .retRecv t ok v =>
    match s.recvs.find? (·.t == t) with
    | none => some "recv returned without a call"
    | some r =>
      if ok then
        if s.recvd.contains v then some "a value was received twice"
        else if s.cap > 0 then
          (match s.buf with
           | [] => some "recv returned a value although the buffer is empty"
           | h :: _ => if h = v then none else some "recv returned a value that is not the oldest buffered one")
        else if s.sends.any (fun p => p.v == v ∧ !p.try_) ∨ s.slot.contains v then none
        else some "recv returned a value that no sender is offering"
      else
        if s.closed ∧ (s.cap = 0 ∨ s.buf = []) then none
        else if r.try_ then (if s.cap > 0 ∧ s.buf ≠ [] then some "try_recv failed although an item is buffered" else none)
        else if timedOut r.callAt r.to s.now then none
        else some "recv reported false without close() (and drained buffer) and before its timeout"
  | .close => none
  | .tick n => if n < s.now then some "clock went backwards" else none
  | .quiescent =>
    -- a blocked sender or receiver is released as soon as a partner, a free slot or an item exists
    if s.cap > 0 then
      if s.recvs ≠ [] ∧ (s.buf ≠ [] ∨ s.closed) then some "a receiver is blocked although an item is buffered (or the channel is closed)"
      else if s.sends ≠ [] ∧ (s.buf.length < s.cap ∨ s.closed) then some "a sender is blocked although a slot is free (or the channel is closed)"
      else none
    else
      if s.sends ≠ [] ∧ s.recvs ≠ [] then some "a sender and a receiver are both blocked on an unbuffered channel"
      else if (s.sends ≠ [] ∨ s.recvs ≠ []) ∧ s.closed then some "blocked on a closed channel"
      else none

/-- effect of an accepted event -/
def eff (s : St) (e : Ev) : St :=
  match e with
  | .init c => { cap := c }
  | .callSend t v to tr => { s with sends := s.sends ++ [⟨t, v, s.now, to, tr⟩], offered := s.offered ++ [v] }
  | .callRecv t to tr => { s with recvs := s.recvs ++ [⟨t, s.now, to, tr⟩] }
  | .retSend t ok =>
    match s.sends.find? (·.t == t) with
    | none => s
    | some p =>
      let s1 := { s with sends := s.sends.filter (·.t != t) }
      if ok then
        if s.cap > 0 then { s1 with buf := s.buf ++ [p.v], sentOk := s.sentOk ++ [p.v] }
        else if p.try_ then { s1 with slot := s.slot ++ [p.v], sentOk := s.sentOk ++ [p.v] }
        else { s1 with taken := s.taken.erase p.v, sentOk := s.sentOk ++ [p.v] }
      else s1
  | .retRecv t ok v =>
    let s1 := { s with recvs := s.recvs.filter (·.t != t) }
    if ok then
      if s.cap > 0 then { s1 with buf := s.buf.drop 1, recvd := s.recvd ++ [v] }
      else if s.slot.contains v then { s1 with slot := s.slot.erase v, recvd := s.recvd ++ [v] }
      else { s1 with taken := s.taken ++ [v], recvd := s.recvd ++ [v] }
    else s1
  | .close => { s with closed := true }
  | .tick n => { s with now := n }
  | .quiescent => s

def step (s : St) (e : Ev) : Except String St :=
  match pre s e with
  | some m => .error m
  | none => .ok (eff s e)

def run (s : St) : List Ev → Except String St
  | [] => .ok s
  | e :: es => match step s e with
    | .ok s' => run s' es
    | .error m => .error m

end Photon.Chan
