import Photon.Model.RangeSplit
/-!
# Model of the file adaptors (`fs/aligned-file.cpp`, `fs/xfile.cpp`), property C16

A plain file is its byte list; `pread`/`pwrite`/`ftruncate` have POSIX semantics (short read at end of file,
zero fill of holes). The alignment adaptor and the composers are modelled as the sequences of underlay requests
the C++ issues, computed with the same quantities as `range_split*` (offsets and lengths are `off_t`/`size_t`
values far below 2^63 here, so the arithmetic is plain `Nat`; the wrap-around behaviour of the splitters is C15's
subject). Every underlay request is also logged, so that the alignment clause is a statement about the log.
-/
namespace Photon.File

abbrev Bytes := List Nat

def pread (f : Bytes) (off cnt : Nat) : Bytes := (f.drop off).take cnt

/-- zero-extend to at least `n` bytes -/
def extend (f : Bytes) (n : Nat) : Bytes := f ++ List.replicate (n - f.length) 0

def pwrite (f : Bytes) (off : Nat) (d : Bytes) : Bytes :=
  let g := extend f (off + d.length)
  g.take off ++ d ++ g.drop (off + d.length)

def ftruncate (f : Bytes) (n : Nat) : Bytes := (extend f n).take n

/-- one logged underlay request: kind (0 read, 1 write, 2 truncate), sub-file, offset, length -/
structure Req where
  kind : Nat
  file : Nat
  off : Nat
  len : Nat
  deriving DecidableEq, Repr

/-! ## alignment adaptor -/

def alignedBegin (A off : Nat) : Nat := off / A * A
def alignedEnd (A off cnt : Nat) : Nat := (off + cnt + A - 1) / A * A
def isAligned (A off cnt : Nat) : Bool := off % A == 0 && cnt % A == 0
/-- `rs.small_note`: the whole range lies inside one block and both ends are unaligned -/
def smallNote (A off cnt : Nat) : Bool :=
  decide (off / A + 1 = (off + cnt + A - 1) / A) && decide (off % A ≠ 0) && decide ((off + cnt) % A ≠ 0)

/-- `AlignedFileAdaptor::pread` (65-86): result (`none` = -1) and the underlay requests.
    `memOk`: the adaptor does not require aligned memory, or the caller's buffer is aligned. -/
def alignedPread (A : Nat) (memOk : Bool) (f : Bytes) (off cnt : Nat) : Option Bytes × List Req :=
  if cnt = 0 then (some [], [])
  else if isAligned A off cnt && memOk then (some (pread f off cnt), [⟨0, 0, off, cnt⟩])
  else
    let ab := alignedBegin A off
    let alen := alignedEnd A off cnt - ab
    let ptr := pread f ab alen
    let br := off % A
    if ptr.length < br then (none, [⟨0, 0, ab, alen⟩])
    else (some ((ptr.drop br).take (min (ptr.length - br) cnt)), [⟨0, 0, ab, alen⟩])

/-- overwrite `buf` from position `pos` with `d` (`buf` long enough) -/
def blit (buf : Bytes) (pos : Nat) (d : Bytes) : Bytes := buf.take pos ++ d ++ buf.drop (pos + d.length)

/-- does `pwrite` read the last block first? only if file data follows the end of the written range inside it -/
def lastReadCond (A off cnt filesize : Nat) : Bool :=
  !smallNote A off cnt && decide ((off + cnt) % A > 0) && decide (filesize > (alignedEnd A off cnt - A) + (off + cnt) % A)

/-- the underlay requests of `AlignedFileAdaptor::pwrite` on the bounce-buffer path -/
def pwriteLog (A off cnt filesize : Nat) : List Req :=
  let ab := alignedBegin A off
  let ae := alignedEnd A off cnt
  let suppose := if off + cnt > filesize then off + cnt else filesize
  (if off % A > 0 then [(⟨0, 0, ab, A⟩ : Req)] else []) ++
  (if lastReadCond A off cnt filesize then [(⟨0, 0, ae - A, A⟩ : Req)] else []) ++
  [⟨1, 0, ab, ae - ab⟩] ++
  (if suppose < ab + (ae - ab) then [(⟨2, 0, suppose, 0⟩ : Req)] else [])

/-- `AlignedFileAdaptor::pwrite` (87-136). `junk` is the content of the freshly allocated bounce buffer
    (`alignedEnd - alignedBegin` bytes of anything). Returns (count or none, new file, requests). -/
def alignedPwrite (A : Nat) (memOk : Bool) (f : Bytes) (off : Nat) (d junk : Bytes) : Option Nat × Bytes × List Req :=
  let cnt := d.length
  if cnt = 0 then (some 0, f, [])
  else if isAligned A off cnt && memOk then (some cnt, pwrite f off d, [⟨1, 0, off, cnt⟩])
  else
    let ab := alignedBegin A off
    let ae := alignedEnd A off cnt
    let alen := ae - ab
    let br := off % A
    let filesize := f.length
    let suppose := if off + cnt > filesize then off + cnt else filesize
    -- first block: read, zero-fill what the file does not have
    let buf1 :=
      if br > 0 then
        let r := pread f ab A
        blit junk 0 (r ++ List.replicate (A - r.length) 0)
      else junk
    -- last block
    let lo := ae - A
    let buf2 := if lastReadCond A off cnt filesize then blit buf1 (lo - ab) (pread f lo A) else buf1
    let buf3 := blit buf2 br d
    let f1 := pwrite f ab (buf3.take alen)
    let f2 := if suppose < ab + alen then ftruncate f1 suppose else f1
    (some cnt, f2, pwriteLog A off cnt filesize)

/-! ## composers: the flat position → (sub-file, inner offset) maps and the request sequences -/

/-- the parts `for (auto& x : rs.all_parts())` visits, computed by the C15 model of `range_split` /
    `range_split_power2` (they agree: `C15_power2_eq`): (block index, inner offset, length) -/
def parts (U off cnt : Nat) : List RangeSplit.Sub :=
  RangeSplit.allParts (RangeSplit.fixedDiv U) (RangeSplit.init (RangeSplit.fixedDiv U) off cnt)

/-- `FixedSizeLinearFile::pio` as reads: clip at the composite size `n*U`, then one read per part -/
def linearPread (U : Nat) (fs : List Bytes) (off cnt : Nat) : Option Bytes × List Req :=
  let size := fs.length * U
  if off ≥ size then (none, [])
  else
    let cnt := if off + cnt > size then size - off else cnt
    let ps := parts U off cnt
    (some (ps.flatMap fun p => pread (fs.getD p.i []) p.off p.len), ps.map fun p => ⟨0, p.i, p.off, p.len⟩)

/-- `StripeFile::pio`: stripe `j` lives in file `j % n` at row `j / n` -/
def stripePread (S : Nat) (fs : List Bytes) (rows off cnt : Nat) : Option Bytes × List Req :=
  let n := fs.length
  let size := n * rows * S
  if off ≥ size then (none, [])
  else
    let cnt := if off + cnt > size then size - off else cnt
    let ps := parts S off cnt
    (some (ps.flatMap fun p => pread (fs.getD (p.i % n) []) (p.i / n * S + p.off) p.len),
     ps.map fun p => ⟨0, p.i % n, p.i / n * S + p.off, p.len⟩)

/-- write the parts one after the other -/
def writeParts (loc : Nat → Nat × Nat) : List RangeSplit.Sub → List Bytes → Bytes → List Bytes
  | [], fs, _ => fs
  | p :: ps, fs, d =>
    let (i, base) := loc p.i
    writeParts loc ps (fs.set i (pwrite (fs.getD i []) (base + p.off) (d.take p.len))) (d.drop p.len)

def linearPwrite (U : Nat) (fs : List Bytes) (off : Nat) (d : Bytes) : Option Nat × List Bytes × List Req :=
  let size := fs.length * U
  if off ≥ size then (none, fs, [])
  else
    let cnt := if off + d.length > size then size - off else d.length
    let ps := parts U off cnt
    (some cnt, writeParts (fun j => (j, 0)) ps fs (d.take cnt), ps.map fun p => ⟨1, p.i, p.off, p.len⟩)

def stripePwrite (S : Nat) (fs : List Bytes) (rows off : Nat) (d : Bytes) : Option Nat × List Bytes × List Req :=
  let n := fs.length
  let size := n * rows * S
  if off ≥ size then (none, fs, [])
  else
    let cnt := if off + d.length > size then size - off else d.length
    let ps := parts S off cnt
    (some cnt, writeParts (fun j => (j % n, j / n * S)) ps fs (d.take cnt),
     ps.map fun p => ⟨1, p.i % n, p.i / n * S + p.off, p.len⟩)

/-- key points of `VariableSizeLinearFile`: 0, the running sums of the sub-file sizes, UINT64_MAX -/
def keyPoints (sizes : List Nat) : List Nat :=
  (sizes.foldl (fun (acc : List Nat × Nat) s => (acc.1 ++ [acc.2 + s], acc.2 + s)) ([0], 0)).1 ++ [2 ^ 64 - 1]

/-- the parts visited for a variable-size composite, computed by the C15 model of `range_split_vi`
    (an empty sub-file inside the range gets a zero-length request, as in the C++) -/
def viParts (sizes : List Nat) (off cnt : Nat) : List RangeSplit.Sub :=
  let kp := keyPoints sizes
  RangeSplit.allParts (RangeSplit.viDiv kp) (RangeSplit.init (RangeSplit.viDiv kp) off cnt)

def vlinearPread (fs : List Bytes) (off cnt : Nat) : Option Bytes × List Req :=
  let sizes := fs.map List.length
  let size := sizes.sum
  if off ≥ size then (none, [])
  else
    let cnt := if off + cnt > size then size - off else cnt
    let ps := viParts sizes off cnt
    (some (ps.flatMap fun p => pread (fs.getD p.i []) p.off p.len), ps.map fun p => ⟨0, p.i, p.off, p.len⟩)

def vlinearPwrite (fs : List Bytes) (off : Nat) (d : Bytes) : Option Nat × List Bytes × List Req :=
  let sizes := fs.map List.length
  let size := sizes.sum
  if off ≥ size then (none, fs, [])
  else
    let cnt := if off + d.length > size then size - off else d.length
    let ps := viParts sizes off cnt
    (some cnt, writeParts (fun j => (j, 0)) ps fs (d.take cnt), ps.map fun p => ⟨1, p.i, p.off, p.len⟩)

/-- the flat view of a fixed-size linear composite -/
def linearFlat (fs : List Bytes) : Bytes := fs.flatten
/-- the flat view of a stripe composite: stripe `j` of the flat file is row `j / n` of file `j % n` -/
def stripeFlat (S : Nat) (fs : List Bytes) (rows : Nat) : Bytes :=
  (List.range (fs.length * rows)).flatMap fun j => pread (fs.getD (j % fs.length) []) (j / fs.length * S) S

end Photon.File
