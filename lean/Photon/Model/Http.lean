/-!
# Specification model of HTTP/1.1 message framing (`net/http/message.cpp`, `headers.cpp`, `body.cpp`), property C13

A pure function of the *whole* byte string of a message: the start line, the header multimap (in the order the
library iterates it: sorted by case-insensitive key), the framing decision and the decoded body. By construction the
result cannot depend on how the bytes were split across `recv()` calls; the correspondence check feeds the real
incremental parser and body readers with the same bytes under many fragmentations and read sizes and compares.
-/
namespace Photon.Http

abbrev Bytes := List Nat

def bs (s : String) : Bytes := s.toUTF8.toList.map (·.toNat)

def CR : Nat := 13
def LF : Nat := 10

/-- `Parser::extract_until_char`: (bytes before the first `c`, rest after it); all of it if `c` does not occur -/
def untilChar (c : Nat) : Bytes → Bytes × Bytes
  | [] => ([], [])
  | b :: r => if b = c then ([], r) else let (x, y) := untilChar c r; (b :: x, y)

def skipOne (c : Nat) : Bytes → Bytes
  | b :: r => if b = c then r else b :: r
  | [] => []
def skipAll (c : Nat) : Bytes → Bytes
  | b :: r => if b = c then skipAll c r else b :: r
  | [] => []
def skipPrefix (p : Bytes) (b : Bytes) : Bytes := if p.isPrefixOf b then b.drop p.length else b

/-- index of the first occurrence of `pat` -/
def findSub (pat : Bytes) : Bytes → Option Nat
  | [] => if pat = [] then some 0 else none
  | b :: r => if pat.isPrefixOf (b :: r) then some 0 else (findSub pat r).map (· + 1)

def lower (b : Nat) : Nat := if 65 ≤ b ∧ b ≤ 90 then b + 32 else b
/-- `estring_view::icmp < 0` -/
def iless : Bytes → Bytes → Bool
  | [], [] => false
  | [], _ :: _ => true
  | _ :: _, [] => false
  | a :: x, b :: y => if lower a < lower b then true else if lower b < lower a then false else iless x y
def ieq (a b : Bytes) : Bool := a.map lower == b.map lower

def insertSorted (kv : Bytes × Bytes) : List (Bytes × Bytes) → List (Bytes × Bytes)
  | [] => [kv]
  | h :: t => if iless kv.1 h.1 then kv :: h :: t else h :: insertSorted kv t
def sortHeaders (l : List (Bytes × Bytes)) : List (Bytes × Bytes) := l.foldr insertSorted []

/-- `HeadersBase::parse`: lines `key: value\r\n` until a line starting with CR -/
def parseHeaders : Nat → Bytes → List (Bytes × Bytes)
  | 0, _ => []
  | fuel + 1, b =>
    match b with
    | [] => []
    | c :: _ =>
      if c = CR then []
      else
        let (k, r1) := untilChar 58 b
        let r2 := skipAll 32 r1
        let (v, r3) := untilChar CR r2
        (k, v) :: parseHeaders fuel (skipOne LF r3)

def lookup (hs : List (Bytes × Bytes)) (key : Bytes) : Option Bytes := (hs.find? fun kv => ieq kv.1 key).map (·.2)

def isDigit (b : Nat) : Bool := 48 ≤ b && b ≤ 57
def decVal : Bytes → Nat → Nat
  | b :: r, acc => if isDigit b then decVal r (acc * 10 + (b - 48)) else acc
  | [], acc => acc
def hexDigit (b : Nat) : Option Nat :=
  if 48 ≤ b ∧ b ≤ 57 then some (b - 48)
  else if 97 ≤ b ∧ b ≤ 102 then some (b - 87)
  else if 65 ≤ b ∧ b ≤ 70 then some (b - 55)
  else none
def hexVal : Bytes → Nat → Nat
  | b :: r, acc => match hexDigit b with | some d => hexVal r (acc * 16 + d) | none => acc
  | [], acc => acc

/-- the chunked transfer coding as the reader understands it: `size-line CRLF data CRLF` …, a zero size ends the
    body; an empty line (the CRLF after a chunk's data) is skipped. `none` = the input ended inside the coding. -/
def decodeChunked : Nat → Bytes → Option Bytes
  | 0, _ => none
  | fuel + 1, b =>
    match findSub [CR, LF] b with
    | none => none
    | some p =>
      let line := b.take p
      let rest := b.drop (p + 2)
      if p = 0 then decodeChunked fuel rest            -- the CRLF that ends a chunk's data
      else
        let n := hexVal line 0
        if n = 0 then some []
        else if rest.length < n then none
        else (decodeChunked fuel (rest.drop n)).map (rest.take n ++ ·)

/-- what a reader that drains the body gets when the input ends inside the chunked coding: the decoded prefix -/
def decodeChunkedPrefix : Nat → Bytes → Bytes
  | 0, _ => []
  | fuel + 1, b =>
    match findSub [CR, LF] b with
    | none => []
    | some p =>
      let line := b.take p
      let rest := b.drop (p + 2)
      if p = 0 then decodeChunkedPrefix fuel rest
      else
        let n := hexVal line 0
        if n = 0 then []
        else rest.take n ++ decodeChunkedPrefix fuel (rest.drop n)

def hexDigitChar (d : Nat) : Nat := if d < 10 then 48 + d else 87 + d
/-- lower-case hexadecimal, no leading zeros (`%zx`) -/
def toHex : Nat → Nat → Bytes
  | 0, _ => []
  | fuel + 1, n => if n < 16 then [hexDigitChar n] else toHex fuel (n / 16) ++ [hexDigitChar (n % 16)]
def hexOf (n : Nat) : Bytes := toHex (n + 1) n

/-- `ChunkedBodyWriteStream::write` for each chunk, then the terminating zero-size chunk written by `close` -/
def encodeChunk (c : Bytes) : Bytes := hexOf c.length ++ [CR, LF] ++ c ++ [CR, LF]
def encodeChunked (cs : List Bytes) : Bytes := (cs.map encodeChunk).flatten ++ [48, CR, LF, CR, LF]

inductive Framing where
  | chunked | length (n : Nat) | untilClose | none
  deriving Repr, DecidableEq

structure Parsed where
  start : List Bytes            -- request: [verb, target, version]; response: [code digits, reason, version]
  headers : List (Bytes × Bytes)
  framing : Framing
  body : Bytes
  deriving Repr

def abandon (hs : List (Bytes × Bytes)) (version : Bytes) : Bool :=
  let conn := (lookup hs (bs "Connection")).getD []
  conn == (bs "close") || (lookup hs (bs "Trailer")).any (· ≠ []) ||
  (version == (bs "1.0") && conn != (bs "keep-alive"))

def framingOf (hs : List (Bytes × Bytes)) (version : Bytes) (isHead : Bool) : Framing :=
  if lookup hs (bs "Transfer-Encoding") == some (bs "chunked") then .chunked
  else if isHead then .length 0
  else match lookup hs (bs "Content-Length") with
    | some v => .length (decVal v 0)
    | none => if abandon hs version then .untilClose else .length 0

def bodyOf (f : Framing) (after : Bytes) : Bytes :=
  match f with
  | .chunked => (decodeChunked (after.length + 1) after).getD (decodeChunkedPrefix (after.length + 1) after)
  | .length n => after.take n
  | .untilClose => after
  | .none => []

/-- a whole request: `none` when there is no header terminator -/
def parseRequest (whole : Bytes) : Option Parsed :=
  match findSub [CR, LF, CR, LF] whole with
  | none => none
  | some p =>
    let (verb, r1) := untilChar 32 whole
    let (target, r2) := untilChar 32 r1
    let (version, r3) := untilChar CR (skipPrefix (bs "HTTP/") r2)
    let hs := parseHeaders (whole.length + 1) (skipOne LF r3)
    let f := framingOf hs version false
    some { start := [verb, target, version], headers := sortHeaders hs, framing := f, body := bodyOf f (whole.drop (p + 4)) }

def parseResponse (whole : Bytes) (toHead : Bool) : Option Parsed :=
  match findSub [CR, LF, CR, LF] whole with
  | none => none
  | some p =>
    let (version, r1) := untilChar 32 (skipPrefix (bs "HTTP/") whole)
    let code := r1.takeWhile isDigit
    let r2 := skipOne 32 (r1.dropWhile isDigit)
    let (reason, r3) := untilChar CR r2
    let hs := parseHeaders (whole.length + 1) (skipOne LF r3)
    let f := framingOf hs version toHead
    some { start := [code, reason, version], headers := sortHeaders hs, framing := f, body := bodyOf f (whole.drop (p + 4)) }

/-! ## the incremental terminator search of `Message::append_bytes` -/

def TERM : Bytes := [CR, LF, CR, LF]

/-- the terminator search of `Message::append_bytes` (net/http/message.cpp 101-110): the new fragment is searched together with
    the last 3 bytes received before it; result = offset just behind the terminator in `buf ++ frag` -/
def appendFind (buf frag : Bytes) : Option Nat :=
  (findSub TERM (buf.drop (buf.length - 3) ++ frag)).map (· + (buf.length - 3) + 4)

/-- `receive_header`: fragments are appended one by one until the terminator has been seen -/
def scanFrags (buf : Bytes) : List Bytes → Option Nat
  | [] => none
  | f :: fs => match appendFind buf f with
    | some p => some p
    | none => scanFrags (buf ++ f) fs


end Photon.Http
