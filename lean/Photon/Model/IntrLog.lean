/-!
# Interrupt ledger across vCPUs (property C04, run-time validation of real multi-vCPU runs)

`harness/mv_sync.cpp` (`intrrace`): a sleeper on one vCPU, `thread_interrupt()` issued from another vCPU or a plain OS thread around
the moment the sleep times out. `issued` is stamped before `thread_interrupt()`, `delivered` after a sleep returned −1 with the
interrupter's errno, `stale` is the report that the *next*, unrelated sleep of the thread was cut short.
-/
namespace Photon.IntrLog

structure St where
  issued : Nat := 0
  delivered : Nat := 0
  deriving Repr

inductive Ev where
  | issued
  | delivered
  | stale
  | wrongResult      -- a sleep returned something else than 0 after its full time or −1 with the interrupter's errno
  deriving Repr

def pre (s : St) (e : Ev) : Option String :=
  match e with
  | .issued => none
  | .delivered => if s.delivered + 1 ≤ s.issued then none else some "a sleep reported an interrupt that nobody had issued"
  | .stale => some "an interrupt was delivered by a later, unrelated sleep"
  | .wrongResult => some "a sleep returned neither 0 after its time nor -1 with the interrupter's errno"

def eff (s : St) (e : Ev) : St :=
  match e with
  | .issued => { s with issued := s.issued + 1 }
  | .delivered => { s with delivered := s.delivered + 1 }
  | _ => s

def step (s : St) (e : Ev) : Except String St :=
  match pre s e with
  | some m => .error m
  | none => .ok (eff s e)

def run (s : St) : List Ev → Except String St
  | [] => .ok s
  | e :: es => match step s e with
    | .ok s' => run s' es
    | .error m => .error m

end Photon.IntrLog
