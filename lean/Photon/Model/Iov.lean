/-!
# Model of `common/iovector.{h,cpp}` (property C14)

An element is `(buf, off, len)`: `len` bytes starting `off` bytes into buffer `buf`
(the harness maps real pointers back to this form). A view is the list of its elements.
Operations are written element by element, as the C++ does them; every copy is reported as the
list of address ranges it touches, so that the theorems can speak about *addresses*
(`addrs`) and need no memory model and no aliasing hypotheses.
-/
namespace Photon.Iov

structure IoVec where
  buf : Nat
  off : Nat
  len : Nat
  deriving DecidableEq, Repr, Inhabited

abbrev View := List IoVec

/-- the byte addresses an element denotes, in order -/
def IoVec.addrs (e : IoVec) : List (Nat × Nat) := (List.range e.len).map fun i => (e.buf, e.off + i)

/-- the flat sequence of byte addresses a view denotes -/
def addrs (v : View) : List (Nat × Nat) := v.flatMap IoVec.addrs

/-- `iovector_view::sum` -/
def sum : View → Nat
  | [] => 0
  | e :: r => e.len + sum r

/-! ### shrink -/

/-- loop of `shrink_to` (iovector.cpp 38-48): returns (size left when the loop ends, new view) -/
def shrinkToAux : View → Nat → Nat × View
  | [], size => (size, [])
  | e :: r, size =>
    if size ≤ e.len then (0, [{ e with len := size }])
    else
      let (left, r') := shrinkToAux r (size - e.len)
      (left, e :: r')

/-- `iovector_view::shrink_to(size)` → (return value, view afterwards) -/
def shrinkTo (v : View) (size : Nat) : Nat × View :=
  if size = 0 then (0, [])
  else
    let (left, v') := shrinkToAux v size
    (size - left, v')

/-- loop of `shrink_less_than` (50-73) → (return, view) ; `none` = ran off the end (return 0, unchanged) -/
def shrinkLessAux : View → Nat → Option (Nat × View)
  | [], _ => none
  | e :: r, size =>
    if size ≤ e.len then some (e.len - size, [e])
    else
      match shrinkLessAux r (size - e.len) with
      | none => none
      | some (ret, r') => some (ret, e :: r')

/-- `iovector_view::shrink_less_than(size)` -/
def shrinkLessThan (v : View) (size : Nat) : Nat × View :=
  if size = 0 then
    match v with
    | [] => (0, [])
    | e :: _ => (e.len, [])
  else
    match shrinkLessAux v size with
    | none => (0, v)
    | some r => r

/-! ### extract front / back -/

/-- result of `do_extract_front/back`: `ret = none` is the C++ `-1` (callback refused) -/
structure Extract where
  ret : Option Nat
  rest : View
  pieces : List IoVec      -- the (ptr,size) pairs handed to the callback, in call order
  deriving DecidableEq, Repr

/-- callback capacity: `none` = accepts everything (discard / copy out); `some n` = a destination
    view with `n` slots -/
def refuses (cap : Option Nat) (taken : Nat) : Bool :=
  match cap with
  | none => false
  | some n => taken == n

/-- `ioview::do_extract_front` loop (iovector.cpp 146-173); `bytes` still wanted, `ps` pieces so far -/
def extractFrontLoop (cap : Option Nat) : View → Nat → List IoVec → Option Nat × View × List IoVec
  | [], bytes, ps => (some bytes, [], ps)
  | e :: r, bytes, ps =>
    if bytes ≤ e.len then
      if refuses cap ps.length then (none, e :: r, ps)
      else
        let ps' := ps ++ [⟨e.buf, e.off, bytes⟩]
        if e.len - bytes = 0 then (some 0, r, ps')
        else (some 0, ⟨e.buf, e.off + bytes, e.len - bytes⟩ :: r, ps')
    else
      if refuses cap ps.length then (none, e :: r, ps)
      else extractFrontLoop cap r (bytes - e.len) (ps ++ [⟨e.buf, e.off, e.len⟩])

/-- `iovector_view::extract_front(bytes[, buf | iov])` -/
def extractFront (cap : Option Nat) (v : View) (bytes : Nat) : Extract :=
  if bytes = 0 then ⟨some 0, v, []⟩
  else
    let (left, rest, ps) := extractFrontLoop cap v bytes []
    ⟨left.map (bytes - ·), rest, ps⟩

/-- `ioview::do_extract_back` loop (175-204) on the *reversed* element list -/
def extractBackLoop (cap : Option Nat) : View → Nat → List IoVec → Option Nat × View × List IoVec
  | [], bytes, ps => (some bytes, [], ps)
  | e :: r, bytes, ps =>
    if bytes ≤ e.len then
      if refuses cap ps.length then (none, e :: r, ps)
      else
        let ps' := ps ++ [⟨e.buf, e.off + e.len - bytes, bytes⟩]
        if e.len - bytes = 0 then (some 0, r, ps')
        else (some 0, ⟨e.buf, e.off, e.len - bytes⟩ :: r, ps')
    else
      if refuses cap ps.length then (none, e :: r, ps)
      else extractBackLoop cap r (bytes - e.len) (ps ++ [⟨e.buf, e.off, e.len⟩])

/-- `iovector_view::extract_back(bytes[, buf | iov])`; `pieces` in call order (back to front) -/
def extractBack (cap : Option Nat) (v : View) (bytes : Nat) : Extract :=
  if bytes = 0 then ⟨some 0, v, []⟩
  else
    let (left, rest, ps) := extractBackLoop cap v.reverse bytes []
    ⟨left.map (bytes - ·), rest.reverse, ps⟩

/-- where `extract_front(bytes, buf)` stores piece `k`: consecutive from `buf` -/
def frontDest : List IoVec → Nat → List (Nat × IoVec)
  | [], _ => []
  | p :: r, at_ => (at_, p) :: frontDest r (at_ + p.len)

/-- where `extract_back(bytes, buf)` stores its pieces: `buf += bytes`, then each piece at
    `buf -= size` (iovector.cpp 237-246) -/
def backDest : List IoVec → Nat → List (Nat × IoVec)
  | [], _ => []
  | p :: r, at_ => (at_ - p.len, p) :: backDest r (at_ - p.len)

/-- `iovector_view::extract_front_continuous` (iovector.h 120-133): piece, view afterwards -/
def extractFrontContinuous (v : View) (bytes : Nat) : Option IoVec × View :=
  match v with
  | [] => (none, v)
  | f :: r =>
    if f.len < bytes then (none, v)
    else
      let piece : IoVec := ⟨f.buf, f.off, bytes⟩
      if f.len - bytes = 0 then (some piece, r)
      else (some piece, ⟨f.buf, f.off + bytes, f.len - bytes⟩ :: r)

/-- `iovector_view::extract_back_continuous` (153-165) -/
def extractBackContinuous (v : View) (bytes : Nat) : Option IoVec × View :=
  match v.reverse with
  | [] => (none, v)
  | b :: r =>
    if b.len < bytes then (none, v)
    else
      let piece : IoVec := ⟨b.buf, b.off + (b.len - bytes), bytes⟩
      if b.len - bytes = 0 then (some piece, r.reverse)
      else (some piece, (⟨b.buf, b.off, b.len - bytes⟩ :: r).reverse)

/-- the owning `iovector::extract_front_continuous` (iovector.h 529-546):
    `direct p` = pointer into the front element; `copied ps` = a fresh buffer holding the pieces;
    `null` = not enough data -/
inductive Contig where
  | direct (p : IoVec)
  | copied (ps : List IoVec)
  | null
  deriving DecidableEq, Repr

def ownExtractFrontContinuous (v : View) (bytes : Nat) : Contig × View :=
  match extractFrontContinuous v bytes with
  | (some p, v') => (.direct p, v')
  | (none, _) =>
    if sum v < bytes then (.null, v)
    else
      let r := extractFront none v bytes
      (.copied r.pieces, r.rest)

def ownExtractBackContinuous (v : View) (bytes : Nat) : Contig × View :=
  match extractBackContinuous v bytes with
  | (some p, v') => (.direct p, v')
  | (none, _) =>
    if sum v < bytes then (.null, v)
    else
      let r := extractBack none v bytes
      (.copied r.pieces, r.rest)

/-! ### slice -/

/-- first loop of `slice` (iovector.cpp 92-97): skip whole elements before `offset` -/
def sliceSkip : View → Nat → Nat → View × Nat
  | [], _, pos => ([], pos)
  | e :: r, offset, pos => if pos + e.len > offset then (e :: r, pos) else sliceSkip r offset (pos + e.len)

/-- third loop (113-125): remaining full elements while slots remain → (ret, out elements) -/
def sliceRest : View → Nat → Nat → Nat × List IoVec
  | [], _, _ => (0, [])
  | _ :: _, _, 0 => (0, [])
  | e :: r, count, slots + 1 =>
    if count ≤ e.len then (count, [⟨e.buf, e.off, count⟩])
    else
      let (ret, out) := sliceRest r (count - e.len) slots
      (e.len + ret, e :: out)

/-- `iovector_view::slice(count, offset, out)` with `slots = out->iovcnt`; `none` = `-1` -/
def slice (v : View) (count offset slots : Nat) : Option (Nat × List IoVec) :=
  if slots = 0 then none
  else if count = 0 then some (0, [])
  else
    match sliceSkip v offset 0 with
    | ([], _) => some (0, [])
    | (e :: r, pos) =>
      let first : IoVec := ⟨e.buf, e.off + (offset - pos), e.len - (offset - pos)⟩
      if count ≤ first.len then some (count, [{ first with len := count }])
      else
        let (ret, out) := sliceRest r (count - first.len) (slots - 1)
        some (first.len + ret, first :: out)

/-! ### memcpy / pipe -/

/-- one `memcpy(dst, src, len)` issued by `_copy_pipe_iov` -/
structure Copy where
  dst : IoVec
  src : IoVec
  deriving DecidableEq, Repr

/-- advance an iterator by `n ≤ front.len` (`iov_iterator::operator+=`, `src_extractor::operator+=`) -/
def advance : View → Nat → View
  | [], _ => []
  | e :: r, n => if n < e.len then ⟨e.buf, e.off + n, e.len - n⟩ :: r else r

/-- `_copy_pipe_iov` (iovector.cpp 303-317): (bytes copied, memcpy calls, dest rest, src rest).
    The loop ends when `size`, the destination or the source is exhausted. -/
def copyPipe (size : Nat) (d s : View) : Nat × List Copy × View × View :=
  match size, d, s with
  | 0, d, s => (0, [], d, s)
  | _, [], s => (0, [], [], s)
  | _, d, [] => (0, [], d, [])
  | size + 1, df :: dr, sf :: sr =>
    let step := min (size + 1) (min df.len sf.len)
    let (n, cs, d', s') := copyPipe (size + 1 - step) (advance (df :: dr) step) (advance (sf :: sr) step)
    (step + n, ⟨⟨df.buf, df.off, step⟩, ⟨sf.buf, sf.off, step⟩⟩ :: cs, d', s')
termination_by size + d.length + s.length
decreasing_by
  simp only [advance]
  have : step = min (size + 1) (min df.len sf.len) := rfl
  split <;> split <;> simp only [List.length_cons] <;> omega

end Photon.Iov
