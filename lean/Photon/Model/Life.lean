/-!
# Thread lifecycle automaton (property C05)

Events are logged by the multi-vCPU harness around the real runtime, each stamped with a global atomic sequence
number; the history in stamp order must be accepted. A thread is `created`, `begin`s its entry function on some
vCPU, alternates `leave v` (about to call a blocking / migrating primitive) and `enter v'` (the call returned, now on
vCPU v'), `end`s with its return value, and — if joinable — is `joined` exactly once, after it ended, with that value.
-/
namespace Photon.Life

inductive Phase where
  | none | created | running (v : Nat) | outside | ended (val : Int) | joined (val : Int)
  deriving DecidableEq, Repr, Inhabited

structure St where
  ph : Nat → Phase := fun _ => .none
  ids : List Nat := []
  begun : Nat → Nat := fun _ => 0        -- how many times the entry function was entered
  deriving Inhabited

def upd {α} (f : Nat → α) (k : Nat) (v : α) : Nat → α := fun x => if x = k then v else f x

inductive Ev where
  | create (t : Nat)
  | begin_ (t v : Nat)
  | leave (t v : Nat)
  | enter (t v : Nat)
  | end_ (t v : Nat) (val : Int)
  | joined (t : Nat) (val : Int)
  | overlap (t : Nat)
  | count (v before after : Nat)
  | final
  deriving Repr

def pre (s : St) (e : Ev) : Option String :=
  match e with
  | .create t => if s.ph t ≠ .none then some "thread created twice" else none
  | .begin_ t _ => if s.ph t ≠ .created then some "entry function started for a thread that is not freshly created (run twice, or never created)" else none
  | .leave t v => if s.ph t ≠ .running v then some "thread observed running on a vCPU other than the one it last entered on" else none
  | .enter t _ => if s.ph t ≠ .outside then some "thread resumed while it is already running (two vCPUs at once) or after it ended" else none
  | .end_ t v _ => if s.ph t ≠ .running v then some "entry function returned on a vCPU the thread was not running on" else none
  | .joined t val =>
    match s.ph t with
    | .ended w => if w ≠ val then some "thread_join returned a value different from the entry function's" else none
    | .joined _ => some "thread joined twice"
    | _ => some "thread_join returned before the entry function returned"
  | .overlap _ => some "a thread was executing on two vCPUs at the same instant (or its entry ran twice)"
  | .count _ b a => if b ≠ a then some "vCPU thread count did not return to its initial value" else none
  | .final => if s.ids.any (fun t => match s.ph t with | .ended _ => false | .joined _ => false | _ => true)
              then some "a created thread never ran to completion (lost)" else none

def eff (s : St) (e : Ev) : St :=
  match e with
  | .create t => { s with ph := upd s.ph t .created, ids := s.ids ++ [t] }
  | .begin_ t v => { s with ph := upd s.ph t (.running v), begun := upd s.begun t (s.begun t + 1) }
  | .leave t _ => { s with ph := upd s.ph t .outside }
  | .enter t v => { s with ph := upd s.ph t (.running v) }
  | .end_ t _ val => { s with ph := upd s.ph t (.ended val) }
  | .joined t val => { s with ph := upd s.ph t (.joined val) }
  | _ => s

def step (s : St) (e : Ev) : Except String St :=
  match pre s e with
  | some m => .error m
  | none => .ok (eff s e)

def run (s : St) : List Ev → Except String St
  | [] => .ok s
  | e :: es => match step s e with
    | .ok s' => run s' es
    | .error m => .error m

end Photon.Life
