/-!
# Specification automaton of `ObjectCache` (`common/expirecontainer.{h,cpp}`), property C19

One vCPU: the harness logs every acquire / release call and return, every constructor begin / end
and every destructor call of the cached objects, in execution order; the history must be accepted
by this automaton. Keys and object ids are `Nat`.
-/
namespace Photon.ObjCache

structure Item where
  live : Option Nat := none        -- id of the live object
  refcnt : Nat := 0                -- acquirers that hold a reference (returned non-null, not yet released)
  constructing : Bool := false
  lastRelease : Nat := 0           -- when the reference count last dropped to 0 (expiry clock)
  recycling : Nat := 0             -- threads inside a recycling release of this key
  lastFail : Option Nat := none    -- when a constructor of this key last failed
  deriving Repr, Inhabited

structure St where
  now : Nat := 0
  lifespan : Nat := 0
  item : Nat → Item := fun _ => {}
  destroyed : List Nat := []       -- ghost: ids of destroyed objects
  deriving Inhabited

def upd {α} (f : Nat → α) (k : Nat) (v : α) : Nat → α := fun x => if x = k then v else f x

inductive Ev where
  | init (lifespan : Nat)
  | ctorBegin (k : Nat)
  | ctorEnd (k : Nat) (obj : Option Nat)
  | retAcquire (k : Nat) (obj : Option Nat)
  /-- acquire returned null *without having run the caller's constructor* (failure cooldown `cd`) -/
  | retAcquireNoCtor (k cd : Nat)
  | callRelease (k : Nat) (recycle : Bool)
  | retRelease (k : Nat) (recycle : Bool)
  | dtor (k obj : Nat)
  | tick (now : Nat)
  deriving Repr

def pre (s : St) (e : Ev) : Option String :=
  match e with
  | .init _ => none
  | .ctorBegin k =>
    let x := s.item k
    if x.constructing then some "constructor running twice at once for one key"
    else if x.live.isSome then some "constructor started although the key has a live object"
    else none
  | .ctorEnd k obj =>
    let x := s.item k
    if !x.constructing then some "constructor end without begin"
    else match obj with
      | some o => if s.destroyed.contains o then some "constructor produced an already destroyed object id" else none
      | none => none
  | .retAcquire k obj =>
    let x := s.item k
    match obj with
    | some o => if x.live ≠ some o then some "acquire returned an object that is not the key's live object" else none
    | none => if x.live.isSome ∧ !x.constructing then some "acquire returned null although the key has a live object" else none
  | .retAcquireNoCtor k cd =>
    -- only a failure younger than the caller's cooldown may answer for the constructor
    match (s.item k).lastFail with
    | some f => if s.now < f + cd then none else some "acquire returned null without trying the constructor although no failure lies within the cooldown"
    | none => some "acquire returned null without trying the constructor although no construction ever failed"
  | .callRelease k _ =>
    if (s.item k).refcnt = 0 then some "program error: release without a reference" else none
  | .retRelease k recycle =>
    -- `recycle` here is the *effective* flag: a recycling release issued while another one of the same key is
    -- already pending is demoted to a plain release by the cache (`if (item->_recycle) recycle = false`)
    if recycle ∧ (s.item k).refcnt ≠ 0 then some "a recycling release returned while another holder still has a reference" else none
  | .dtor k o =>
    let x := s.item k
    if x.live ≠ some o then some "destroyed an object that is not the key's live object"
    else if x.refcnt ≠ 0 then some "object destroyed while an acquirer still holds a reference"
    else if x.recycling = 0 ∧ ¬ (x.lastRelease + s.lifespan < s.now) then some "unreferenced object expired before its lifespan passed"
    else none
  | .tick n => if n < s.now then some "clock went backwards" else none

def eff (s : St) (e : Ev) : St :=
  match e with
  | .init l => { lifespan := l }
  | .ctorBegin k => { s with item := upd s.item k { s.item k with constructing := true } }
  | .ctorEnd k obj =>
    let lf : Option Nat := if obj.isNone then some s.now else (s.item k).lastFail
    { s with item := upd s.item k { s.item k with constructing := false, live := obj, lastFail := lf } }
  | .retAcquire k obj =>
    match obj with
    | some _ => { s with item := upd s.item k { s.item k with refcnt := (s.item k).refcnt + 1 } }
    | none => s
  | .retAcquireNoCtor _ _ => s
  | .callRelease k recycle =>
    let x := s.item k
    { s with item := upd s.item k { x with refcnt := x.refcnt - 1,
                                           lastRelease := if x.refcnt = 1 then s.now else x.lastRelease,
                                           recycling := if recycle ∧ x.recycling = 0 then 1 else x.recycling } }
  | .retRelease k recycle =>
    let x := s.item k
    { s with item := upd s.item k { x with recycling := if recycle then 0 else x.recycling } }
  | .dtor k o => { s with item := upd s.item k { s.item k with live := none }, destroyed := s.destroyed ++ [o] }
  | .tick n => { s with now := n }

def step (s : St) (e : Ev) : Except String St :=
  match pre s e with
  | some m => .error m
  | none => .ok (eff s e)

def run (s : St) : List Ev → Except String St
  | [] => .ok s
  | e :: es => match step s e with
    | .ok s' => run s' es
    | .error m => .error m

end Photon.ObjCache
