/-!
# Object ledger of an ObjectCache used across vCPUs (property C19, run-time validation of real multi-vCPU runs)

`harness/mv_obj.cpp` stamps, with a global atomic counter: `ctorBegin k` / `ctorEnd k o` inside the constructor the cache runs
(`o = 0`: it failed), `acquired k o` after `acquire()` returned object `o`, `releasing k o` before `release()` is called,
`destroyed k o` inside the object's destructor. With this placement the references the log shows never exceed the real ones, so a
destruction the log shows as "while referenced" is one.
-/
namespace Photon.ObjLog

structure St where
  live : List (Nat × Nat) := []        -- (key, object) constructed and not destroyed
  refs : List Nat := []                -- one entry per reference held (object ids, with multiplicity)
  ctor : List Nat := []                -- keys whose constructor is running
  deriving Repr

inductive Ev where
  | ctorBegin (k : Nat)
  | ctorEnd (k o : Nat)
  | acquired (k o : Nat)
  | releasing (k o : Nat)
  | destroyed (k o : Nat)
  | dead                       -- an acquirer found the object it was given already destroyed
  deriving Repr

def liveOf (s : St) (k : Nat) : Option Nat := (s.live.find? (·.1 == k)).map (·.2)

def pre (s : St) (e : Ev) : Option String :=
  match e with
  | .ctorBegin k =>
    -- (an older object of the key may still be alive at this moment: expiry and a recycling release take the item out of the
    -- cache under the lock and destroy the object after releasing it, when nobody can reach it any more)
    if s.ctor.contains k then some "the constructor for a key started while another one is running for it" else none
  | .ctorEnd k _ => if s.ctor.contains k then none else some "constructor end without begin"
  | .acquired k o => if liveOf s k = some o then none else some "acquire() returned an object that is not the key's live object"
  | .releasing _ o => if s.refs.contains o then none else some "release without a reference"
  | .destroyed k o =>
    if s.refs.contains o then some "an object was destroyed while an acquirer still holds a reference"
    else if s.live.contains (k, o) then none else some "an object was destroyed twice (or one that was never constructed)"
  | .dead => some "an acquirer was handed (or kept holding) an object that had been destroyed"

def eff (s : St) (e : Ev) : St :=
  match e with
  | .ctorBegin k => { s with ctor := k :: s.ctor }
  | .ctorEnd k o => { s with ctor := s.ctor.erase k, live := if o = 0 then s.live else (k, o) :: s.live }
  | .acquired _ o => { s with refs := o :: s.refs }
  | .releasing _ o => { s with refs := s.refs.erase o }
  | .destroyed k o => { s with live := s.live.erase (k, o) }
  | .dead => s

def step (s : St) (e : Ev) : Except String St :=
  match pre s e with
  | some m => .error m
  | none => .ok (eff s e)

def run (s : St) : List Ev → Except String St
  | [] => .ok s
  | e :: es => match step s e with
    | .ok s' => run s' es
    | .error m => .error m

end Photon.ObjLog
