/-!
# Model of `fs/path.cpp` (`Path::iterator`, `Path::level_valid`) and `fs/subfs.cpp` (`PathCat`)
Property C20. Paths are C strings: `List Char` without NUL.
-/
namespace Photon.Path

abbrev Comp := List Char

/-- `Path::iterator` (path.h 44-113, path.cpp 52-66): skip slashes, take the run up to the next
    slash, stop at the first empty run (= end of string). `cur` is the run being read, reversed. -/
def compsAux : List Char → List Char → List Comp
  | [], cur => if cur = [] then [] else [cur.reverse]
  | c :: cs, cur =>
    if c = '/' then (if cur = [] then compsAux cs [] else cur.reverse :: compsAux cs [])
    else compsAux cs (c :: cur)

/-- the components `for (auto& name : Path(p))` visits -/
def comps (p : List Char) : List Comp := compsAux p []

/-- `Path::level_valid` (path.cpp 68-93) as written: the loop body on one name, `level : Int`.
    `none` = `return false`. -/
def levelStep (level : Int) (name : Comp) : Option Int :=
  let size := name.length
  if size = 0 then some level
  else if size = 1 ∧ name.head? = some '.' then some level                 -- "."
  else if size = 2 ∧ name.head? = some '.' ∧ name[1]? = some '.' then       -- ".."
    (if level - 1 < 0 then none else some (level - 1))
  else some (level + 1)                                                      -- any other name

def levelLoop : Int → List Comp → Bool
  | _, [] => true
  | level, n :: ns =>
    match levelStep level n with
    | none => false
    | some l' => levelLoop l' ns

def levelValid (p : List Char) : Bool := levelLoop 0 (comps p)

/-- `sizeof(PathCat::buf)` -/
def pathMax : Nat := 4096

/-- `SubFileSystem::PathCat` (subfs.cpp 78-106): `none` = the operation receives `nullptr`
    (rejected); `some q` = the underlying filesystem receives `q`. `base` is `base_path`
    after `init` (it ends with '/'). -/
def pathCat (base p : List Char) : Option (List Char) :=
  if base.length = 0 then some p
  else if p.length + base.length ≥ pathMax - 2 then none
  else if levelValid p then some (base ++ p) else none

/-! ### specification -/

/-- running depth below the base never negative: "." neutral, ".." −1, any other non-empty
    name +1 -/
def staysInsideFrom : Nat → List Comp → Bool
  | _, [] => true
  | d, c :: cs =>
    if c = [] ∨ c = ['.'] then staysInsideFrom d cs
    else if c = ['.', '.'] then (match d with | 0 => false | d' + 1 => staysInsideFrom d' cs)
    else staysInsideFrom (d + 1) cs

def staysInside (cs : List Comp) : Bool := staysInsideFrom 0 cs

/-- lexical resolution of a component list on a stack (innermost directory first);
    `none` = tried to go above the starting directory -/
def resolveFrom : List Comp → List Comp → Option (List Comp)
  | st, [] => some st
  | st, c :: cs =>
    if c = [] ∨ c = ['.'] then resolveFrom st cs
    else if c = ['.', '.'] then (match st with | [] => none | _ :: st' => resolveFrom st' cs)
    else resolveFrom (c :: st) cs

end Photon.Path
