/-!
# WorkPool task automaton (property C08)

Events are logged by the multi-vCPU harness around the real `photon::WorkPool`, each with a global atomic stamp:
`submit k` (before `call`/`async_call` is invoked), `begin k` / `end k` (inside the task body, on a worker vCPU),
`callret k` (after `call()` returned), `deleted k` (destructor of the async task object), and the pool destruction.
-/
namespace Photon.Pool

structure Task where
  submitted : Bool := false
  async : Bool := false
  begun : Nat := 0
  ended : Bool := false
  returned : Bool := false
  deleted : Nat := 0
  deriving Repr, Inhabited

structure St where
  task : Nat → Task := fun _ => {}
  ids : List Nat := []
  destroying : Bool := false
  destroyed : Bool := false

def upd {α} (f : Nat → α) (k : Nat) (v : α) : Nat → α := fun x => if x = k then v else f x

inductive Ev where
  | submit (k : Nat) (async : Bool)
  | begin_ (k : Nat)
  | end_ (k : Nat)
  | callret (k : Nat)
  | deleted (k : Nat)
  | twice (k : Nat)
  | destroyBegin
  | destroyEnd
  | final
  deriving Repr

def unfinished (s : St) : List Nat :=
  s.ids.filter fun k => let t := s.task k; !(t.ended && (!t.async || t.deleted == 1))

def pre (s : St) (e : Ev) : Option String :=
  match e with
  | .submit k _ => if (s.task k).submitted then some "task id used twice" else if s.destroying then some "program error: submit during destruction" else none
  | .begin_ k =>
    let t := s.task k
    if !t.submitted then some "a task ran that was never submitted"
    else if t.begun ≠ 0 then some "a task was executed twice"
    else if s.destroyed then some "a task ran after the pool was destroyed"
    else none
  | .end_ k => if (s.task k).begun ≠ 1 ∨ (s.task k).ended then some "task end without a (single) begin" else none
  | .callret k =>
    let t := s.task k
    if t.async then some "program error: callret for an async task"
    else if !t.ended then some "call() returned before its task finished"
    else if t.returned then some "call() returned twice"
    else none
  | .deleted k =>
    let t := s.task k
    if !t.async then some "a call() task object was deleted by the pool"
    else if !t.ended then some "an async task object was deleted before (or without) running"
    else if t.deleted ≠ 0 then some "an async task object was deleted twice"
    else none
  | .twice _ => some "a task body was entered twice"
  | .destroyBegin => none
  | .destroyEnd => if unfinished s ≠ [] then some "the pool was destroyed before every accepted task had finished (and every async task object was deleted)" else none
  | .final => if unfinished s ≠ [] then some "an accepted task never ran to completion" else none

def eff (s : St) (e : Ev) : St :=
  match e with
  | .submit k a => { s with task := upd s.task k { submitted := true, async := a }, ids := s.ids ++ [k] }
  | .begin_ k => { s with task := upd s.task k { s.task k with begun := (s.task k).begun + 1 } }
  | .end_ k => { s with task := upd s.task k { s.task k with ended := true } }
  | .callret k => { s with task := upd s.task k { s.task k with returned := true } }
  | .deleted k => { s with task := upd s.task k { s.task k with deleted := (s.task k).deleted + 1 } }
  | .destroyBegin => { s with destroying := true }
  | .destroyEnd => { s with destroyed := true }
  | _ => s

def step (s : St) (e : Ev) : Except String St :=
  match pre s e with
  | some m => .error m
  | none => .ok (eff s e)

def run (s : St) : List Ev → Except String St
  | [] => .ok s
  | e :: es => match step s e with
    | .ok s' => run s' es
    | .error m => .error m

end Photon.Pool
