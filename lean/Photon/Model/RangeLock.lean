/-!
# Model of `common/range-lock.h` (property C18)

The index `std::set<Range>` is a list kept in set order; a `LockHandle*` (a set iterator) is the
unique id of its element. Everything `RangeLock` does happens under `m_lock`, so each public call
is one atomic step, except that a conflicting `try_lock_wait*` parks on the conflicting element's
condition variable (`it->cond.wait(m_lock)` releases `m_lock` atomically — property C03) and
returns failure after it is notified by the element's destructor.
-/
namespace Photon.RangeLock

def MAXU : Nat := 2 ^ 64 - 1

structure Elem where
  id : Nat
  off : Nat
  len : Nat
  deriving DecidableEq, Repr, Inhabited

/-- `range_t::end()` = `sat_add(offset, length)` -/
def rend (off len : Nat) : Nat := min (off + len) MAXU
def Elem.end_ (e : Elem) : Nat := rend e.off e.len

structure State where
  index : List Elem := []
  parked : List (Nat × Nat) := []       -- (thread, id of the element whose `cond` it waits on)
  nextId : Nat := 0
  deriving Repr

/-- `m_index.lower_bound(r)`: split at the first element that is not `< r`, i.e. `end() > r.offset` -/
def lowerBound (l : List Elem) (off : Nat) : List Elem × List Elem :=
  match l with
  | [] => ([], [])
  | e :: r =>
    if e.end_ ≤ off then
      let (a, b) := lowerBound r off
      (e :: a, b)
    else ([], e :: r)

inductive LockResult where
  | acquired (id : Nat)
  | conflict (id off len : Nat)        -- parks on element `id`; (off,len) is what `try_lock_wait` reports
  deriving DecidableEq, Repr

/-- `try_lock_wait` / `try_lock_wait2` (range-lock.h 28-42, 61-76) by thread `t` -/
def tryLock (s : State) (t off len : Nat) : State × LockResult :=
  let (a, b) := lowerBound s.index off
  match b with
  | it :: _ =>
    if it.off < rend off len then
      ({ s with parked := s.parked ++ [(t, it.id)] },
       .conflict it.id it.off (min it.end_ (rend off len) - it.off))
    else
      ({ s with index := a ++ ⟨s.nextId, off, len⟩ :: b, nextId := s.nextId + 1 }, .acquired s.nextId)
  | [] => ({ s with index := a ++ [⟨s.nextId, off, len⟩], nextId := s.nextId + 1 }, .acquired s.nextId)

/-- erasing an element runs `~Range()` → `cond.notify_all()`: every thread parked on it is woken -/
def wake (parked : List (Nat × Nat)) (ids : List Nat) : List (Nat × Nat) × List Nat :=
  (parked.filter (fun p => !ids.contains p.2), (parked.filter (fun p => ids.contains p.2)).map (·.1))

/-- `unlock(LockHandle*)` (112-117) → (state, woken threads) -/
def unlockHandle (s : State) (id : Nat) : State × List Nat :=
  let (p, w) := wake s.parked [id]
  ({ s with index := s.index.filter (fun e => e.id != id), parked := p }, w)

/-- loop of `unlock(offset, length)` (47-56) from the lower bound on: erase what `r` contains,
    stop at the first element with `offset ≥ r.end()` -/
def unlockScan (l : List Elem) (off e_ : Nat) : List Elem × List Nat :=
  match l with
  | [] => ([], [])
  | x :: r =>
    if x.off < e_ then
      let (keep, gone) := unlockScan r off e_
      if off ≤ x.off ∧ e_ ≥ x.end_ then (keep, x.id :: gone) else (x :: keep, gone)
    else (x :: r, [])

/-- `unlock(offset, length)` (44-57) -/
def unlockRange (s : State) (off len : Nat) : State × List Nat :=
  let (a, b) := lowerBound s.index off
  let (keep, gone) := unlockScan b off (rend off len)
  let (p, w) := wake s.parked gone
  ({ s with index := a ++ keep, parked := p }, w)

/-- `prev_end(it)` / `next_offset(it)` (153-160) for the element with the given id -/
def prevEnd : List Elem → Nat → Nat → Nat
  | [], _, acc => acc
  | e :: r, id, acc => if e.id = id then acc else prevEnd r id e.end_

def nextOffset : List Elem → Nat → Nat
  | [] , _ => MAXU
  | e :: r, id => if e.id = id then (match r with | [] => MAXU | n :: _ => n.off) else nextOffset r id

/-- `adjust_range(h, offset, length)` (96-110): `none` = `-1` -/
def adjust (s : State) (id off len : Nat) : Option State :=
  match s.index.find? (fun e => e.id == id) with
  | none => none
  | some r0 =>
    let r1e := rend off len
    if (off < r0.off ∧ off < prevEnd s.index id 0) ∨ (r1e > r0.end_ ∧ r1e > nextOffset s.index id) then none
    else some { s with index := s.index.map fun e => if e.id = id then ⟨id, off, len⟩ else e }

/-! ### specification side -/

/-- the set order: every element ends before every later element begins -/
def Sorted (l : List Elem) : Prop := l.Pairwise fun a b => a.end_ ≤ b.off

/-- offsets are `uint64_t` -/
def U64 (l : List Elem) : Prop := ∀ e ∈ l, e.off ≤ MAXU

/-- the bytes an element holds, with the saturating end the implementation uses -/
def Elem.holds (e : Elem) (x : Nat) : Prop := e.off ≤ x ∧ x < e.end_

end Photon.RangeLock
