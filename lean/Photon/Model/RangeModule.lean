/-!
# Model of `fs/cache/full_file_cache/range_module.h` (property C17): a disjoint interval set

`intervals` is the `std::map<off_t, off_t>` in key order: a list of half-open `[lo, hi)` pairs. The operations are
written the way the C++ walks the map (find the first interval that can touch the argument, absorb / split while
they overlap). Offsets are `off_t` values far below 2^63: plain `Nat`.
-/
namespace Photon.RangeModule

abbrev Iv := Nat × Nat
abbrev RM := List Iv

/-- byte `x` is covered -/
def covered (m : RM) (x : Nat) : Bool := m.any fun iv => decide (iv.1 ≤ x ∧ x < iv.2)

/-- `addRange(left, right)`: intervals that overlap or touch `[left, right]` are merged into it -/
def addRange : RM → Nat → Nat → RM
  | [], l, r => if l < r then [(l, r)] else []
  | (a, b) :: rest, l, r =>
    if l ≥ r then (a, b) :: rest
    else if b < l then (a, b) :: addRange rest l r          -- strictly left of it, not even adjacent
    else if r < a then (l, r) :: (a, b) :: rest             -- strictly right of it: insert before
    else addRange rest (min l a) (max r b)                  -- overlapping or adjacent: absorb and continue

/-- `removeRange(left, right)`: trim / split what overlaps -/
def removeRange : RM → Nat → Nat → RM
  | [], _, _ => []
  | (a, b) :: rest, l, r =>
    if l ≥ r then (a, b) :: rest
    else if b ≤ l then (a, b) :: removeRange rest l r
    else if r ≤ a then (a, b) :: removeRange rest l r       -- (the C++ stops here: the map is sorted, nothing later can overlap)
    else
      (if a < l then [(a, l)] else []) ++ (if r < b then [(r, b)] else []) ++ removeRange rest l r

/-- the interval that contains `pos` -/
def findContaining (m : RM) (pos : Nat) : Option Iv := m.find? fun iv => decide (iv.1 ≤ pos ∧ pos < iv.2)

/-- `queryRefillRange(left, right)`: `(0,0)` when fully covered or empty, else the outer region still to fill -/
def queryRefillRange (m : RM) (left right : Nat) : Nat × Nat :=
  if left ≥ right then (0, 0)
  else
    let left' := match findContaining m left with | some iv => iv.2 | none => left
    if left' ≥ right then (0, 0)
    else
      let right' := match findContaining m (right - 1) with
        | some iv => if iv.1 > left' then iv.1 else right
        | none => right
      (left', right')

/-- canonical form: every interval non-empty, sorted, and separated by a gap (never adjacent) -/
def Canon : RM → Prop
  | [] => True
  | [(a, b)] => a < b
  | (a, b) :: (c, d) :: rest => a < b ∧ b < c ∧ Canon ((c, d) :: rest)

end Photon.RangeModule

/-! ## the cache store, abstractly: a filled-range map over a media file, refilled from an immutable source -/
namespace Photon.CacheStore
open Photon.RangeModule

structure Store where
  size : Nat                 -- size of the source file
  filled : RM                -- which byte ranges are present in the media file
  media : Nat → Nat
  src : Nat → Nat

/-- `do_refill_range` + the media write: bytes `[l, r)` are fetched from the source and recorded as filled -/
def refill (s : Store) (l r : Nat) : Store :=
  { s with filled := addRange s.filled l r, media := fun x => if l ≤ x ∧ x < r then s.src x else s.media x }

/-- whole-file eviction (`pool->evict`, quota/capacity eviction): the media file is truncated, nothing is filled -/
def evictAll (s : Store) : Store := { s with filled := [] }
/-- range eviction (`store->evict(off, len)`) -/
def evictRange (s : Store) (l r : Nat) : Store := { s with filled := removeRange s.filled l r }

/-- the count a read of `len` bytes at `off` returns: clipped at the source size, 0 at or after it -/
def clip (s : Store) (off len : Nat) : Nat := if off ≥ s.size then 0 else min len (s.size - off)

/-- `ICacheStore::preadv2`: clip, serve from the media if the range is filled, otherwise refill a region that the
    store chooses (`widen`: at least the region `queryRefillRange` asks for, e.g. rounded to the refill unit and
    clipped at the file size) and serve -/
def read (s : Store) (widen : Nat × Nat → Nat × Nat) (off len : Nat) : Store × List Nat :=
  let cnt := clip s off len
  if cnt = 0 then (s, [])
  else
    let q := queryRefillRange s.filled off (off + cnt)
    if q = (0, 0) then (s, (List.range cnt).map fun i => s.media (off + i))
    else
      let w := widen q
      let s' := refill s w.1 w.2
      (s', (List.range cnt).map fun i => s'.media (off + i))

/-- every filled byte of the media file equals the source's -/
def Coherent (s : Store) : Prop := ∀ x, covered s.filled x = true → s.media x = s.src x

end Photon.CacheStore

/-! ## acceptor for runs of the real cached file system (harness/hsim_cache.cpp) -/
namespace Photon.CacheLog

structure Pending where
  t : Nat
  off : Nat
  len : Nat
  faulted : Bool := false       -- a source fault was injected while this read was in flight
  deriving Repr

structure St where
  size : Nat := 0
  reads : List Pending := []

inductive Ev where
  | init (size : Nat)
  | callRead (t off len : Nat)
  | src (off len : Nat) (ret : Int) (injected : Bool)
  | retRead (t : Nat) (r : Int) (dataOk : Bool)
  | evict
  deriving Repr

def expected (size off len : Nat) : Nat := if off ≥ size then 0 else min len (size - off)

def pre (s : St) (e : Ev) : Option String :=
  match e with
  | .init _ => none
  | .callRead t _ _ => if s.reads.any (·.t == t) then some "thread already inside a read" else none
  | .src off len _ _ => if off + len > s.size ∧ s.size > 0 ∧ off ≥ s.size then some "the source was read at or beyond its size" else none
  | .retRead t r ok =>
    match s.reads.find? (·.t == t) with
    | none => some "read returned without a call"
    | some p =>
      if r < 0 then (if p.faulted then none else some "a cached read failed although no source read failed")
      else if r ≠ (expected s.size p.off p.len : Int) then some "a cached read returned a byte count different from the source's"
      else if !ok then some "a cached read returned bytes that differ from the source's"
      else none
  | .evict => none

def eff (s : St) (e : Ev) : St :=
  match e with
  | .init n => { size := n }
  | .callRead t off len => { s with reads := s.reads ++ [{ t := t, off := off, len := len }] }
  | .src _ _ _ inj => if inj then { s with reads := s.reads.map fun p => { p with faulted := true } } else s
  | .retRead t _ _ => { s with reads := s.reads.filter (·.t != t) }
  | .evict => s

def step (s : St) (e : Ev) : Except String St :=
  match pre s e with
  | some m => .error m
  | none => .ok (eff s e)

def run (s : St) : List Ev → Except String St
  | [] => .ok s
  | e :: es => match step s e with
    | .ok s' => run s' es
    | .error m => .error m

end Photon.CacheLog
