/-!
# Model of `fs/range-split.h` and `fs/range-split-vi.h` (property C15)

All arithmetic is `Nat` with explicit `% W` exactly where the C++ `uint64_t` expression can wrap.
The model is executable; `Driver` folds it over the same inputs as the C++ harness.
-/
namespace Photon.RangeSplit

/-- 2^64: the modulus of `uint64_t`. -/
def W : Nat := 2 ^ 64

/-- `photon::fs::sub_range` -/
structure Sub where
  i : Nat
  off : Nat
  len : Nat
  deriving DecidableEq, Repr, Inhabited

def Sub.clear (s : Sub) : Sub := { s with len := 0 }

/-- the three hooks of `basic_range_split<Derived>` -/
structure Div where
  /-- `divide(x, round_down, remainder, round_up)` -/
  divide : Nat → Nat × Nat × Nat
  /-- `get_length(i)` -/
  getLength : Nat → Nat
  /-- `multiply(i, 0)` -/
  multiply : Nat → Nat

/-- `range_split` (range-split.h 296-316) -/
def fixedDiv (iv : Nat) : Div where
  divide x := (x / iv, x % iv, ((x + iv - 1) % W) / iv)
  getLength _ := iv
  multiply i := (i * iv) % W

/-- `range_split_power2` (318-345); `k = interval_shift`, interval = `2^k` -/
def pow2Div (k : Nat) : Div where
  divide x := (x >>> k, x &&& (2 ^ k - 1), ((x + (2 ^ k - 1)) % W) >>> k)
  getLength _ := 2 ^ k
  multiply i := (i <<< k) % W

/-- `std::upper_bound(kp, kp+n, x) - kp`: number of leading elements `≤ x`
    (the key points are ascending, so this is the index of the first element `> x`). -/
def upperBound (kp : List Nat) (x : Nat) : Nat :=
  match kp with
  | [] => 0
  | p :: r => if p ≤ x then 1 + upperBound r x else 0

/-- `range_split_vi` (range-split-vi.h 29-71) -/
def viDiv (kp : List Nat) : Div where
  divide x :=
    let i := upperBound kp x
    let rd := i - 1
    let rem := x - kp.getD (i - 1) 0
    (rd, rem, if rem > 0 then i else rd)
  getLength i := kp.getD (i + 1) 0 - kp.getD i 0
  multiply i := kp.getD i 0

/-- the members of `basic_range_split` after `init` -/
structure Split where
  b : Nat
  e : Nat
  abegin : Nat
  aend : Nat
  apbegin : Nat
  apend : Nat
  brem : Nat
  erem : Nat
  smallNote : Sub
  preface : Sub
  first : Sub
  postface : Sub
  deriving DecidableEq, Repr, Inhabited

/-- `basic_range_split::init` (132-192), branch by branch.
    Members the C++ leaves unassigned are never read by the iterators in that case; the model
    gives them the default-constructed value `(0,0,0)` that the C++ constructor also gives. -/
def init (d : Div) (offset length : Nat) : Split :=
  let b := offset
  let e := (offset + length) % W
  let (abegin, brem, apbegin) := d.divide b
  let (apend, erem, aend) := d.divide e
  let z : Sub := ⟨0, 0, 0⟩
  if (abegin + 1) % W = aend then
    let first : Sub := ⟨abegin, brem, length⟩
    if abegin ≠ apbegin then
      if aend ≠ apend then
        { b, e, abegin, aend, apbegin, apend, brem, erem,
          smallNote := first, preface := z, first, postface := z }
      else
        { b, e, abegin, aend, apbegin, apend, brem, erem,
          smallNote := z, preface := first, first, postface := z }
    else
      if aend ≠ apend then
        { b, e, abegin, aend, apbegin, apend, brem, erem,
          smallNote := z, preface := z, first, postface := first }
      else
        { b, e, abegin, aend, apbegin, apend, brem, erem,
          smallNote := z, preface := z, first, postface := z }
  else
    let preface : Sub :=
      if abegin = apbegin then z else ⟨abegin, brem, (d.getLength abegin + W - brem) % W⟩
    let first : Sub := if preface.len > 0 then preface else ⟨apbegin, 0, d.getLength apbegin⟩
    let postface : Sub := if aend = apend then z else ⟨apend, 0, erem⟩
    { b, e, abegin, aend, apbegin, apend, brem, erem, smallNote := z, preface, first, postface }

/-- the `k`-th element (k ≥ 1) produced by `all_parts_t::iterator::operator++` (263-272) -/
def nextPart (d : Div) (s : Split) (i : Nat) : Sub :=
  ⟨i, 0, if 0 < s.postface.len ∧ s.postface.i = i then s.postface.len else d.getLength i⟩

/-- number of iterations of `for (auto& x : rs.all_parts())`: the iterator starts at `first.i`
    and is incremented (mod 2^64) until it equals `aend` -/
def allPartsCount (s : Split) : Nat := (s.aend + W - s.first.i % W) % W

/-- successive `operator++` of the `all_parts` iterator, `n` more elements starting at index `i` -/
def partsFrom (d : Div) (s : Split) : Nat → Nat → List Sub
  | _, 0 => []
  | i, n + 1 => nextPart d s i :: partsFrom d s ((i + 1) % W) n

/-- `all_parts()` as a list (240-290) -/
def allParts (d : Div) (s : Split) : List Sub :=
  if allPartsCount s = 0 then []
  else s.first :: partsFrom d s ((s.first.i + 1) % W) (allPartsCount s - 1)

/-- `aligned_parts()` iteration bounds (227-237): `end()` returns `apbegin` when
    `apbegin > apend` (small note, or an empty un-aligned range) -/
def alignedBounds (s : Split) : Nat × Nat :=
  (s.apbegin, if s.apbegin > s.apend then s.apbegin else s.apend)

def alignedPartsCount (s : Split) : Nat :=
  let (b, e) := alignedBounds s
  (e + W - b % W) % W

/-- successive `operator++` of the `aligned_parts` iterator -/
def alignedFrom (d : Div) : Nat → Nat → List Sub
  | _, 0 => []
  | i, n + 1 => ⟨i, 0, d.getLength i⟩ :: alignedFrom d ((i + 1) % W) n

/-- `aligned_parts()` as a list (194-238) -/
def alignedParts (d : Div) (s : Split) : List Sub :=
  alignedFrom d s.apbegin (alignedPartsCount s)

/-- the processing order recommended by the header (`___example_of_range_split___`) -/
def classified (d : Div) (s : Split) : List Sub :=
  if s.smallNote.len > 0 then [s.smallNote]
  else
    (if s.preface.len > 0 then [s.preface] else []) ++ alignedParts d s ++
    (if s.postface.len > 0 then [s.postface] else [])

/-! ### the specification side -/

/-- global byte range denoted by a part, for a fixed interval -/
def Sub.lo (iv : Nat) (p : Sub) : Nat := p.i * iv + p.off
def Sub.hi (iv : Nat) (p : Sub) : Nat := p.i * iv + p.off + p.len

/-- `Tiles iv x ps y`: the parts `ps`, in order, are non-empty, each lies inside one block of
    length `iv`, the first begins at global offset `x`, each next begins where the previous ended,
    and the last ends at `y`. -/
def Tiles (iv : Nat) : Nat → List Sub → Nat → Prop
  | x, [], y => x = y
  | x, p :: r, y => p.lo iv = x ∧ 0 < p.len ∧ p.off + p.len ≤ iv ∧ Tiles iv (p.hi iv) r y

/-- block indices of consecutive parts are consecutive -/
def Consecutive : List Sub → Prop
  | a :: b :: r => a.i + 1 = b.i ∧ Consecutive (b :: r)
  | _ => True

/-- the domain on which no C++ expression of `init` wraps (file offsets are `off_t`);
    `iv < W` because the interval is itself a `uint64_t` -/
def NoWrap (iv offset length : Nat) : Prop := 0 < iv ∧ iv < W ∧ offset + length + iv < W

instance (iv o l : Nat) : Decidable (NoWrap iv o l) := by unfold NoWrap; infer_instance

end Photon.RangeSplit
