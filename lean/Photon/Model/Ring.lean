import Std.Data.HashMap
import Std.Data.HashSet
/-!
# Model of the lock-free ring queues (`common/lockfree_queue.h`), property C07 — sequential semantics

`head` and `tail` are the monotone claim counters; a slot is addressed by `counter % cap` (`idx(x) = x & mask`, the
capacity is a power of two ≥ 2). `push`/`pop` are `LockfreeSPSCRingQueue::push/pop`, which is also what the MPMC and
batch-MPMC queues do when their steps are not interleaved (the MPMC turn marks are modelled too: `mark`).
-/
namespace Photon.Ring

structure Ring where
  cap : Nat
  head : Nat := 0
  tail : Nat := 0
  slot : Nat → Nat := fun _ => 0
  /-- MPMC per-slot turn mark: `2*turn` = free for the writer of that turn, `2*turn+1` = written -/
  mark : Nat → Nat := fun _ => 0

def upd (f : Nat → Nat) (k v : Nat) : Nat → Nat := fun x => if x = k then v else f x

/-- `1 << (64 - clz(c-1))` for c > 1, else 2 -/
def capacityOf (c : Nat) : Nat :=
  if c ≤ 1 then 2 else
    let rec go (fuel p : Nat) : Nat := match fuel with
      | 0 => p
      | f + 1 => if p ≥ c then p else go f (p * 2)
    go 64 1

def full (r : Ring) : Bool := decide (r.tail - r.head ≥ r.cap)
def empty (r : Ring) : Bool := decide (r.head = r.tail)

def push (r : Ring) (x : Nat) : Ring × Bool :=
  if full r then (r, false)
  else ({ r with slot := upd r.slot (r.tail % r.cap) x, tail := r.tail + 1,
                  mark := upd r.mark (r.tail % r.cap) (2 * (r.tail / r.cap) + 1) }, true)

def pop (r : Ring) : Ring × Option Nat :=
  if empty r then (r, none)
  else ({ r with head := r.head + 1, mark := upd r.mark (r.head % r.cap) (2 * (r.head / r.cap) + 2) }, some (r.slot (r.head % r.cap)))

/-- `push_batch`: as many as fit, in order; returns the number written -/
def pushBatch (r : Ring) (xs : List Nat) : Ring × Nat :=
  let n := min xs.length (r.cap - (r.tail - r.head))
  ((xs.take n).foldl (fun r x => (push r x).1) r, n)

def popN : Nat → Ring → Ring × List Nat
  | 0, r => (r, [])
  | n + 1, r => match pop r with
    | (r', some x) => let (r'', xs) := popN n r'; (r'', x :: xs)
    | (_, none) => (r, [])

/-- `pop_batch`: up to `n` elements, oldest first -/
def popBatch (r : Ring) (n : Nat) : Ring × List Nat := popN (min n (r.tail - r.head)) r

/-- the queue content, oldest first -/
def abs (r : Ring) : List Nat := (List.range (r.tail - r.head)).map fun i => r.slot ((r.head + i) % r.cap)

def Inv (r : Ring) : Prop := 0 < r.cap ∧ r.head ≤ r.tail ∧ r.tail - r.head ≤ r.cap

/-- the MPMC writer's precondition on the slot it claims: `mark == last_turn_read(t)` -/
def writerMayClaim (r : Ring) : Bool := r.mark (r.tail % r.cap) == 2 * (r.tail / r.cap)
/-- the MPMC reader's precondition: `mark == this_turn_write(h)` -/
def readerMayClaim (r : Ring) : Bool := r.mark (r.head % r.cap) == 2 * (r.head / r.cap) + 1

end Photon.Ring

/-! ## acceptor for concurrent runs: what the consumers received, each in its own order -/
namespace Photon.RingLog

/-- The acceptor runs over logs of several 100 000 elements: the sets are hash containers (`Std.HashSet` / `Std.HashMap`), whose
    `contains_insert` / `getElem?_insert` lemmas carry the theorems. -/
structure St where
  produced : Std.HashMap Nat Nat := {}                 -- producer -> number of items it sent (sequence numbers 0..n-1)
  prods : List Nat := []
  recvd : Std.HashSet (Nat × Nat) := {}                -- (producer, seq) already received by somebody
  last : Std.HashMap (Nat × Nat) Nat := {}             -- (consumer, producer) -> last sequence number seen
  count : Nat := 0

inductive Ev where
  | produced (p n : Nat)
  | got (c p seq : Nat)
  | maxavail (n cap : Nat)
  | final
  deriving Repr

def sentBy (s : St) (p : Nat) : Nat := s.produced.getD p 0

def pre (s : St) (e : Ev) : Option String :=
  match e with
  | .produced _ _ => none
  | .got c p seq =>
    if seq ≥ sentBy s p then some "an element was received that was never sent"
    else if s.recvd.contains (p, seq) then some "an element was received twice"
    else match s.last[(c, p)]? with
      | some l => if seq ≤ l then some "elements of one producer were received out of order by a consumer" else none
      | none => none
  | .maxavail n cap => if n > cap then some "the queue held more elements than its capacity" else none
  | .final => if s.count ≠ (s.prods.map (sentBy s)).sum then some "not every element that was sent has been received (lost)" else none

def eff (s : St) (e : Ev) : St :=
  match e with
  | .produced p n => { s with produced := s.produced.insert p n, prods := s.prods ++ [p] }
  | .got c p seq => { s with recvd := s.recvd.insert (p, seq), last := s.last.insert (c, p) seq, count := s.count + 1 }
  | _ => s

def step (s : St) (e : Ev) : Except String St :=
  match pre s e with
  | some m => .error m
  | none => .ok (eff s e)

def run (s : St) : List Ev → Except String St
  | [] => .ok s
  | e :: es => match step s e with
    | .ok s' => run s' es
    | .error m => .error m

end Photon.RingLog
