/-!
# Specification automaton of the RPC stub (`rpc/rpc.cpp` StubImpl over `rpc/out-of-order-execution.cpp`), property C11

One vCPU. K photon threads call `Stub::do_call` on one stub whose stream is the harness' in-memory stream.
The events are everything that is visible *outside* the stub: the call/return of every `do_call`, every
`writev` of a request (with the tag the engine allocated), every header `read` and body `readv` on the stream
(with the thread that performs it, the response the bytes belong to, and the caller-owned buffer they are
written into), every `thread_interrupt(th, EINTR)` the reader sends, and the stub's `get_queue_count()` at
quiescence. The automaton accepts exactly the histories allowed by C11; the real histories must be accepted.
-/
namespace Photon.Rpc

structure Call where
  used : Bool := false
  t : Nat := 0
  callAt : Nat := 0
  to : Option Nat := none
  tag : Option Nat := none          -- tag of the request as it appeared on the wire
  sendFailed : Bool := false
  alive : Bool := false             -- `do_call` has not returned yet
  got : Option (Nat × Int) := none  -- response whose body was read into this call's buffer, and the byte count
  full : Bool := false              -- the whole body announced by the header was received
  deriving Repr, Inhabited

def upd {α} (f : Nat → α) (k : Nat) (v : α) : Nat → α := fun x => if x = k then v else f x

structure St where
  now : Nat := 0
  call : Nat → Call := fun _ => {}
  ks : List Nat := []
  inCall : Nat → Option Nat := fun _ => none     -- thread -> the call it is inside
  pending : Option (Nat × Nat × Nat) := none     -- (reader, response, tag): header read, body not yet collected
  reading : Option (Nat × Nat) := none           -- (reader, call): a body read into that call's buffer is in progress
  hdrs : List (Nat × Nat) := []                  -- history: (response, tag) of every header read
  psize : Nat := 0                               -- body size announced by the pending header
  closed : Bool := false

inductive Ev where
  | call (t k : Nat) (to : Option Nat)
  | sent (t tag k : Nat) (ok : Bool)
  | hdr (t rid tag size : Nat) (ok : Bool)
  | bodyBegin (t k : Nat)
  | bodyEnd (t rid k : Nat) (r : Int)
  | intr (target by_ : Nat)
  | ret (t k : Nat) (r : Int) (content : Option Nat)   -- content: which response's body the returned bytes equal
  | shutdown
  | canary (k : Nat)
  | tick (now : Nat)
  | quiescent (avail qcount : Nat) (closed reading : Bool)
  | final (qcount : Nat)
  deriving Repr

def readingInto (s : St) (k : Nat) : Bool :=
  match s.reading with
  | some (_, k') => k' == k
  | none => false

def readerIs (s : St) (t : Nat) : Bool :=
  match s.reading with
  | some (rd, _) => rd == t
  | none => false

/-- calls that have been sent and are still waiting for their response -/
def waiting (s : St) : List Nat :=
  s.ks.filter fun k => let c := s.call k; c.alive && c.tag.isSome && !c.sendFailed && c.got.isNone
/-- calls registered in the engine's map (the reader takes a call out of the map before it reads the body) -/
def outstanding (s : St) : List Nat :=
  s.ks.filter fun k => let c := s.call k; c.alive && c.tag.isSome && !c.sendFailed && c.got.isNone && !readingInto s k

/-- calls whose request is still being written: the engine may or may not have registered them yet -/
def unsent (s : St) : List Nat :=
  s.ks.filter fun k => (s.call k).alive && (s.call k).tag.isNone

def tagTaken (s : St) (tag k : Nat) : Bool :=
  s.ks.any fun k' => k' != k && (s.call k').alive && (s.call k').tag == some tag && !(s.call k').sendFailed

def preCall (s : St) (t k : Nat) : Option String :=
  if (s.inCall t).isSome then some "thread is already inside a call"
  else if (s.call k).used then some "call id used twice"
  else none
def effCall (s : St) (t k : Nat) (to : Option Nat) : St :=
  { s with call := upd s.call k { used := true, t := t, callAt := s.now, to := to, alive := true },
           ks := s.ks ++ [k], inCall := upd s.inCall t (some k) }

def preSent (s : St) (t tag k : Nat) (ok : Bool) : Option String :=
  let c := s.call k
  if s.inCall t ≠ some k ∨ !c.alive then some "request written by a thread that is not inside that call"
  else if c.tag.isSome then some "request written twice"
  else if ok ∧ tagTaken s tag k then some "tag is not unique among the outstanding calls"
  else none
def effSent (s : St) (tag k : Nat) (ok : Bool) : St :=
  { s with call := upd s.call k { s.call k with tag := some tag, sendFailed := !ok } }

def preHdr (s : St) (t rid : Nat) (ok : Bool) : Option String :=
  match s.inCall t with
  | none => some "stream read by a thread that is not inside a call"
  | some k =>
    if !((s.call k).alive && (s.call k).tag.isSome && !(s.call k).sendFailed) then some "stream read by a caller that has not sent its request"
    else if s.pending.isSome then some "a new header is read although the previous response was not collected"
    else if s.reading.isSome then some "header read while a body read is in progress"
    else if ok ∧ s.hdrs.any (·.1 == rid) then some "the same response was read twice"
    else none
def effHdr (s : St) (t rid tag size : Nat) (ok : Bool) : St :=
  if ok then { s with pending := some (t, rid, tag), hdrs := s.hdrs ++ [(rid, tag)], psize := size } else s

def preBodyBegin (s : St) (t k : Nat) : Option String :=
  match s.pending with
  | none => some "body read without a header"
  | some (rd, _, tag) =>
    let c := s.call k
    if rd ≠ t then some "body read by a thread that did not read the header"
    else if !c.used then some "response body read into a buffer that belongs to no call"
    else if !c.alive then some "response body read into the buffer of a call that has already returned"
    else if c.tag ≠ some tag ∨ c.sendFailed then some "response collected into the buffer of a call with a different tag"
    else if c.got.isSome then some "a second response collected into the same call"
    else none
def effBodyBegin (s : St) (t k : Nat) : St := { s with reading := some (t, k) }

def preBodyEnd (s : St) (t rid k : Nat) (r : Int) : Option String :=
  match s.pending with
  | none => some "body read without a header"
  | some (_, prid, _) =>
    if s.reading ≠ some (t, k) then some "body read ended that never began"
    else if !(s.call k).alive then some "a call returned while its response body was being received into its buffer"
    else if 0 < r ∧ rid ≠ prid then some "body bytes belong to a different response than the header"
    else none
def effBodyEnd (s : St) (k : Nat) (r : Int) : St :=
  match s.pending with
  | some (_, prid, _) => { s with call := upd s.call k { s.call k with got := some (prid, r), full := decide (r = (s.psize : Int)) },
                                  pending := none, reading := none }
  | none => s

def preIntr (s : St) (target : Nat) : Option String :=
  match s.inCall target with
  | none => some "the reader interrupted a thread that is not inside a call (its call has already returned)"
  | some k => if (s.call k).got.isNone then some "the reader interrupted a caller whose response has not been collected" else none

def preRet (s : St) (t k : Nat) (r : Int) (content : Option Nat) : Option String :=
  let c := s.call k
  if s.inCall t ≠ some k ∨ !c.alive then some "return of a call that is not in progress"
  else if readingInto s k then
    some "a call returned while its response body was being received into its buffer"
  else if readerIs s t then
    some "the reader returned in the middle of a body read"
  else if 0 ≤ r then
    match c.got with
    | none => some "call reported success but no response was collected for it"
    | some (rid, n) =>
      if n ≠ r then some "call reported a byte count different from the collected body"
      else if !c.full then some "call reported success although only a part of the response body was received"
      else if 0 < r ∧ content ≠ some rid then some "call reported success but its buffer does not hold its own response"
      else none
  else
    match s.pending with
    | some (rd, _, tag) =>
      -- the reader leaves with an uncollected header: allowed only if nobody is waiting for that tag
      if rd = t ∧ (waiting s).any (fun k' => k' != k && (s.call k').tag == some tag) then
        some "a failing reader dropped the response of another waiting call"
      else none
    | none => none
def effRet (s : St) (t k : Nat) : St :=
  { s with call := upd s.call k { s.call k with alive := false }, inCall := upd s.inCall t none,
           pending := (match s.pending with | some (rd, a, b) => if rd = t then none else some (rd, a, b) | none => none) }

def preQuiescent (s : St) (avail qcount : Nat) (closed reading : Bool) : Option String :=
  if qcount < (outstanding s).length ∨ (outstanding s).length + (unsent s).length < qcount then
    some "engine queue count differs from the number of outstanding calls"
  else if (waiting s) ≠ [] ∧ (closed ∨ s.closed) then some "the stream is broken but callers are still blocked"
  else if (waiting s) ≠ [] ∧ avail > 0 then some "response bytes are available but no caller is reading them"
  else if (waiting s) ≠ [] ∧ !reading then some "calls are outstanding but no caller is reading the stream (reader election stalled)"
  else if (s.ks.any fun k => (s.call k).alive && (s.call k).got.isSome) then some "a call whose response was collected is still blocked"
  else none

def pre (s : St) (e : Ev) : Option String :=
  match e with
  | .call t k _ => preCall s t k
  | .sent t tag k ok => preSent s t tag k ok
  | .hdr t rid _ _ ok => preHdr s t rid ok
  | .bodyBegin t k => preBodyBegin s t k
  | .bodyEnd t rid k r => preBodyEnd s t rid k r
  | .intr target _ => preIntr s target
  | .ret t k r content => preRet s t k r content
  | .shutdown => none
  | .canary _ => some "the response buffer of a returned call was modified"
  | .tick n => if n < s.now then some "clock went backwards" else none
  | .quiescent avail qcount closed reading => preQuiescent s avail qcount closed reading
  | .final qcount => if qcount ≠ 0 then some "engine queue not empty after every call returned" else none

def eff (s : St) (e : Ev) : St :=
  match e with
  | .call t k to => effCall s t k to
  | .sent _ tag k ok => effSent s tag k ok
  | .hdr t rid tag size ok => effHdr s t rid tag size ok
  | .bodyBegin t k => effBodyBegin s t k
  | .bodyEnd _ _ k r => effBodyEnd s k r
  | .intr _ _ => s
  | .ret t k _ _ => effRet s t k
  | .shutdown => { s with closed := true }
  | .canary _ => s
  | .tick n => { s with now := n }
  | .quiescent _ _ _ _ => s
  | .final _ => s

def step (s : St) (e : Ev) : Except String St :=
  match pre s e with
  | some m => .error m
  | none => .ok (eff s e)

def run (s : St) : List Ev → Except String St
  | [] => .ok s
  | e :: es => match step s e with
    | .ok s' => run s' es
    | .error m => .error m

end Photon.Rpc
