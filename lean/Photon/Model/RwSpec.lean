/-!
# API-level specification automaton of a reader-writer lock (`photon::qrwlock`, also `photon::rwlock`), property C06

One vCPU: every lock operation is atomic between two blocking points and takes effect right before it returns, so the API
call/return events of a run, in execution order, must be accepted by this automaton. (`photon::rwlock` is additionally followed
through its internal events by `Model/Sync.lean`.)
-/
namespace Photon.RwSpec

structure Pending where
  t : Nat
  write : Bool
  callAt : Nat
  to : Option Nat       -- none = infinite; try_lock = some 0
  try_ : Bool
  deriving Repr

structure St where
  now : Nat := 0
  readers : List Nat := []
  writer : Option Nat := none
  calls : List Pending := []
  intrs : List Nat := []            -- threads a thread_interrupt() was issued to and that have not returned from a lock call since
  deriving Repr

inductive Ev where
  | call (t : Nat) (write : Bool) (to : Option Nat) (try_ : Bool)
  | ret (t : Nat) (ok : Bool)
  | unlock (t : Nat)
  | interrupt (t : Nat)
  | overlap
  | tick (now : Nat)
  | quiescent
  deriving Repr

def timedOut (callAt : Nat) (to : Option Nat) (now : Nat) : Bool :=
  match to with
  | some us => decide (callAt + us ≤ now)
  | none => false

def free (s : St) : Bool := s.readers.isEmpty && s.writer.isNone
def holds (s : St) (t : Nat) : Bool := s.readers.contains t || s.writer == some t

def pre (s : St) (e : Ev) : Option String :=
  match e with
  | .call t _ _ _ =>
    if s.calls.any (·.t == t) then some "thread already inside a lock call"
    else if holds s t then some "the script locks recursively" else none
  | .ret t ok =>
    match s.calls.find? (·.t == t) with
    | none => some "lock returned without a call"
    | some p =>
      if ok then
        if p.write then (if free s then none else some "write lock granted while somebody holds the lock")
        else (if s.writer.isNone then none else some "read lock granted while a writer holds the lock")
      else
        if p.try_ then
          (if p.write then (if free s then some "try_lock(write) failed on a free lock" else none)
           else (if s.writer.isNone then some "try_lock(read) failed although no writer holds the lock" else none))
        else if timedOut p.callAt p.to s.now then none
        else if s.intrs.contains t then none
        else some "lock() failed before its timeout and without an interrupt"
  | .unlock t => if holds s t then none else some "unlock by a thread that does not hold the lock"
  | .interrupt _ => none
  | .overlap => some "a writer was inside together with another holder"
  | .tick n => if n < s.now then some "clock went backwards" else none
  | .quiescent =>
    -- after the last holder unlocks, a waiting writer or all waiting readers are admitted
    if free s ∧ s.calls.any (fun p => !p.try_) then some "the lock is free but lockers are still blocked (lost wake-up)" else none

def eff (s : St) (e : Ev) : St :=
  match e with
  | .call t w to tr => { s with calls := s.calls ++ [⟨t, w, s.now, to, tr⟩] }
  | .ret t ok =>
    match s.calls.find? (·.t == t) with
    | none => s
    | some p =>
      let s1 := { s with calls := s.calls.filter (·.t != t), intrs := s.intrs.erase t }
      if ok then (if p.write then { s1 with writer := some t } else { s1 with readers := t :: s.readers })
      else s1
  | .unlock t => if s.writer == some t then { s with writer := none } else { s with readers := s.readers.erase t }
  | .interrupt t => { s with intrs := t :: s.intrs }
  | .overlap => s
  | .tick n => { s with now := n }
  | .quiescent => s

def step (s : St) (e : Ev) : Except String St :=
  match pre s e with
  | some m => .error m
  | none => .ok (eff s e)

def run (s : St) : List Ev → Except String St
  | [] => .ok s
  | e :: es => match step s e with
    | .ok s' => run s' es
    | .error m => .error m

end Photon.RwSpec
