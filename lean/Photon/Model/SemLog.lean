/-!
# Token ledger of a semaphore used across vCPUs (property C02, run-time validation of real multi-vCPU runs)

`harness/mv_sync.cpp` stamps `signal n` before the call of `semaphore::signal(n)` and `got n` after `wait(n)` returned 0, with a
global atomic counter; in stamp order a `got` can therefore only use tokens whose `signal` is already in the log.
`late` is the report that a semaphore destroyed right after `wait()` returned was written to afterwards.
-/
namespace Photon.SemLog

structure St where
  signalled : Nat := 0
  taken : Nat := 0
  deriving Repr

inductive Ev where
  | signal (n : Nat)
  | got (n : Nat)
  | late
  | remaining (n : Nat)      -- nobody is inside the semaphore any more; `n` = its count
  deriving Repr

def pre (s : St) (e : Ev) : Option String :=
  match e with
  | .signal _ => none
  | .got n => if s.taken + n ≤ s.signalled then none else some "a waiter obtained tokens that had not been signalled (tokens created)"
  | .late => some "the semaphore was written to after wait() had returned and the waiter had destroyed it"
  | .remaining n => if s.taken + n = s.signalled then none
      else some "the tokens taken by successful waits plus the tokens left differ from the tokens signalled (a failed wait took tokens, or tokens were lost)"

def eff (s : St) (e : Ev) : St :=
  match e with
  | .signal n => { s with signalled := s.signalled + n }
  | .got n => { s with taken := s.taken + n }
  | .late => s
  | .remaining _ => s

def step (s : St) (e : Ev) : Except String St :=
  match pre s e with
  | some m => .error m
  | none => .ok (eff s e)

def run (s : St) : List Ev → Except String St
  | [] => .ok s
  | e :: es => match step s e with
    | .ok s' => run s' es
    | .error m => .error m

end Photon.SemLog
