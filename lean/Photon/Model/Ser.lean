/-!
# Model of the RPC serialization wire format (`rpc/serialize.h`), property C12

A message type is described by a `Schema`: the size `B` of its fixed body (the C++ struct itself, sent as the last
`B` bytes of the message) and, in declaration order, its variable-length fields: where in the body their length is
stored, whether they are claimed as a contiguous buffer or as an iovec view, and whether they belong to the first
("aligned") pass. `deserialize` is `DeserializerIOV::deserialize` on the flat byte string (fragmentation of the
input into iovec elements is below this model: `extract_front_continuous` / `extract_front` / `extract_back` are
proved equal to their flat effect in C14).
-/
namespace Photon.Ser

abbrev Bytes := List Nat

structure Field where
  iov : Bool        -- claimed with `extract_front(summed_size, &view)` instead of `extract_front_continuous(_len)`
  lenOff : Nat      -- offset, inside the body, of the 8-byte length (`_len`, or `summed_size`)
  aligned : Bool    -- processed in the first pass
  deriving Repr, DecidableEq

structure Schema where
  B : Nat
  fields : List Field
  scalars : List (Nat × Nat)     -- (offset, size) of the fixed fields the harness prints
  crc : Option Nat               -- offset of `CheckedMessage::m_checksum`
  deriving Repr

def leN (b : Bytes) (off : Nat) : Nat → Nat
  | 0 => 0
  | n + 1 => b.getD off 0 + 256 * leN b (off + 1) n
def le64 (b : Bytes) (off : Nat) : Nat := leN b off 8
def le32 (b : Bytes) (off : Nat) : Nat := leN b off 4

/-! ### CRC32C (Castagnoli), as `crc32c_extend(data, n, crc)`: no pre/post inversion -/
def crcBit (c : Nat) : Nat := if c % 2 = 1 then (c / 2) ^^^ 0x82F63B78 else c / 2
def crcByte (crc b : Nat) : Nat := crcBit (crcBit (crcBit (crcBit (crcBit (crcBit (crcBit (crcBit (crc ^^^ b))))))))
def crc32c (data : Bytes) (init : Nat) : Nat := data.foldl crcByte init

def putLe32 (b : Bytes) (off v : Nat) : Bytes :=
  b.take off ++ [v % 256, v / 256 % 256, v / 65536 % 256, v / 16777216 % 256] ++ b.drop (off + 4)

/-- `CheckedMessage::validate_checksum`: the hash runs over the remaining input and then over the body *in place*,
    whose checksum field holds the running value at that moment -/
def checksumOk (sch : Schema) (rest body : Bytes) : Bool :=
  match sch.crc with
  | none => true
  | some co =>
    let stored := le32 body co
    let h0 := crc32c rest 0
    let final := crc32c (putLe32 body co h0) h0
    stored == final

/-- claim the fields of one pass from the front of `rest`; returns the claimed byte strings (in pass order),
    what is left, and whether a claim failed (processing continues after a failure, as in the C++) -/
def claim (body : Bytes) : List Field → Bytes → List Bytes × Bytes × Bool
  | [], rest => ([], rest, false)
  | f :: fs, rest =>
    let n := le64 body f.lenOff
    if n ≤ rest.length then
      let (r, rest', bad) := claim body fs (rest.drop n)
      (rest.take n :: r, rest', bad)
    else
      -- not enough input: the field stays empty, nothing is consumed
      let (r, rest', _) := claim body fs rest
      ([] :: r, rest', true)

def scalarsOf (sch : Schema) (body : Bytes) : List Nat := sch.scalars.map fun (o, n) => leN body o n

/-- put the claimed strings of the two passes back into declaration order -/
def merge : List Field → List Bytes → List Bytes → List Bytes
  | [], _, _ => []
  | f :: fs, a, n =>
    if f.aligned then (a.headD []) :: merge fs a.tail n else (n.headD []) :: merge fs a n.tail

/-- `DeserializerIOV::deserialize<T>`: `none` = nullptr -/
def deserialize (sch : Schema) (wire : Bytes) : Option (List Bytes × List Nat) :=
  if wire.length < sch.B then none
  else
    let body := wire.drop (wire.length - sch.B)
    let rest := wire.take (wire.length - sch.B)
    if !checksumOk sch rest body then none
    else
      let (a, rest1, bad1) := claim body (sch.fields.filter (·.aligned)) rest
      let (n, _, bad2) := claim body (sch.fields.filter (!·.aligned)) rest1
      if bad1 || bad2 then none else some (merge sch.fields a n, scalarsOf sch body)

/-- `slice::anchor` (with the bounds check of the repaired tree): the sub-string, or the empty string when the slice
    does not lie inside the base buffer -/
def anchor (base : Bytes) (off len : Nat) : Bytes :=
  if off ≤ base.length ∧ len ≤ base.length - off then (base.drop off).take len else []

end Photon.Ser
