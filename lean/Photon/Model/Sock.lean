/-!
# Specification automaton of a connected socket stream (`net/kernel_socket.cpp`, `net/basic_socket.h`, the event engines), C10

One vCPU, virtual clock, REAL kernel sockets and the REAL event engine (`harness/hsim_sock.cpp`). The events are the API calls
and returns of `ISocketStream` (`read/readv/write/writev` = full-count kinds, `recv/send` = at-most kinds), `timeout()`,
`shutdown(write)`, `close`, clock ticks and quiescence points. Endpoints are numbered `2*conn + side`; the stream written at
endpoint `e` is read at `peer e`. The harness fills every write with the bytes `[W, W+n)` of a per-direction byte function and
compares what a read returns with that function at the offset it reports, so a read event carries `(off, dataok)`.
-/
namespace Photon.Sock

inductive Kind where
  | write | writev | send | sendv | read | readv | recv | recvv
  deriving DecidableEq, Repr

def Kind.isWrite : Kind → Bool
  | .write | .writev | .send | .sendv => true
  | _ => false
/-- `read`/`readv`/`write`/`writev` loop until the full count has been transferred -/
def Kind.full : Kind → Bool
  | .write | .writev | .read | .readv => true
  | _ => false

def peer (e : Nat) : Nat := if e % 2 = 0 then e + 1 else e - 1

structure Call where
  t : Nat
  kind : Kind
  ep : Nat
  req : Nat
  callAt : Nat
  to : Option Nat            -- the stream's timeout when the call was made
  deriving Repr

/-- the byte stream written at one endpoint -/
structure Dir where
  W : Nat := 0               -- bytes of write/send calls that have returned
  R : Nat := 0               -- bytes returned to the reader
  shut : Bool := false       -- the writer shut its write side down (or closed)
  rclosed : Bool := false    -- the reader's endpoint was closed
  wbroken : Bool := false    -- a full-count write failed: an unknown part of it was transferred
  rbroken : Bool := false    -- a full-count read failed: bytes it had already moved are gone
  segs : List (Nat × Nat) := []   -- ghost: (offset, length) of every delivery, in order
  deriving Repr

structure St where
  now : Nat := 0
  dir : Nat → Dir := fun _ => {}
  calls : List Call := []
  tmo : Nat → Option Nat := fun _ => none      -- per endpoint stream timeout (µs), none = infinite

inductive Ev where
  | call (t : Nat) (k : Kind) (ep req : Nat)
  | ret (t : Nat) (r : Int) (err : Nat) (off : Nat) (dataok : Bool)
  | setTimeout (ep : Nat) (to : Option Nat)
  | shutdown (ep : Nat)
  | close (ep : Nat)
  | tick (now : Nat)
  | quiescent
  | final
  | spurious          -- the engine reported readiness of a descriptor to a waiting thread although poll() says it is not ready
  deriving Repr

def ETIMEDOUT : Nat := 110

def timedOut (callAt : Nat) (to : Option Nat) (now : Nat) : Bool :=
  match to with
  | some us => decide (callAt + us ≤ now)
  | none => false

def overdue (c : Call) (now : Nat) : Bool :=
  match c.to with
  | some us => decide (c.callAt + us < now)
  | none => false

def setDir (s : St) (e : Nat) (d : Dir) : St := { s with dir := fun x => if x = e then d else s.dir x }

/-- bytes of the write call in progress on the stream written at `e` (0 if none) -/
def pendingW (s : St) (e : Nat) : Nat :=
  ((s.calls.filter (fun c => c.kind.isWrite && c.ep == e)).map (·.req)).sum
def writing (s : St) (e : Nat) : Bool := s.calls.any (fun c => c.kind.isWrite && c.ep == e)
def reading (s : St) (e : Nat) : Bool := s.calls.any (fun c => !c.kind.isWrite && c.ep == peer e)
def broken (d : Dir) : Bool := d.wbroken || d.rbroken

/-- end of stream is visible to the reader: write side shut, everything delivered, nothing being written -/
def atEof (s : St) (e : Nat) : Bool := (s.dir e).shut && decide ((s.dir e).R = (s.dir e).W) && !writing s e

def preRetWrite (s : St) (c : Call) (r : Int) (err : Nat) : Option String :=
  let d := s.dir c.ep
  if r < 0 then
    if err = ETIMEDOUT then (if timedOut c.callAt c.to s.now then none else some "write/send reported ETIMEDOUT before its timeout")
    else if d.rclosed || d.shut then none
    else some "write/send failed although the peer is open and the timeout has not expired"
  else
    let n := r.toNat
    if n > c.req then some "write/send returned more than requested"
    else if c.kind.full then (if n = c.req then none else some "write()/writev() returned a short count")
    else if c.req > 0 ∧ n = 0 then some "send() transferred nothing"
    else none

def preRetRead (s : St) (c : Call) (r : Int) (err : Nat) (off : Nat) (dataok : Bool) : Option String :=
  let e := peer c.ep
  let d := s.dir e
  if r < 0 then
    if err = ETIMEDOUT then (if timedOut c.callAt c.to s.now then none else some "read/recv reported ETIMEDOUT before its timeout")
    else if d.shut || d.rclosed then none
    else some "read/recv failed although the peer is open and the timeout has not expired"
  else
    let n := r.toNat
    if n > c.req then some "read/recv returned more than requested"
    else if broken d then none
    else if n > 0 ∧ (!dataok || off ≠ d.R) then some "the bytes returned are not the next bytes of the stream (lost, duplicated or reordered)"
    else if d.R + n > d.W + pendingW s e then some "more bytes were read than have been written"
    else if n = c.req then none
    else if c.kind.full then
      (if d.shut ∧ d.R + n = d.W ∧ !writing s e then none
       else some "read()/readv() returned a short count although the stream has not ended")
    else if n > 0 then none
    else if d.shut ∧ d.R = d.W ∧ !writing s e then none
    else some "recv() returned 0 although the stream has not ended"

/-- a blocked call that the state already allows to finish (evaluated at quiescence points) -/
def stuckCall (s : St) (c : Call) : Bool :=
  if c.kind.isWrite then
    -- the reader of the same stream is blocked too: the socket buffer cannot be both full and empty
    !broken (s.dir c.ep) && reading s c.ep
  else
    let e := peer c.ep
    let d := s.dir e
    if broken d then false
    else if atEof s e then true
    else if c.kind.full then decide (d.W - d.R ≥ c.req)
    else decide (c.req > 0 ∧ d.W - d.R ≥ 1)

def pre (s : St) (ev : Ev) : Option String :=
  match ev with
  | .call t _ _ _ => if s.calls.any (·.t == t) then some "thread already inside a stream call" else none
  | .ret t r err off dataok =>
    match s.calls.find? (·.t == t) with
    | none => some "return without a call"
    | some c => if c.kind.isWrite then preRetWrite s c r err else preRetRead s c r err off dataok
  | .setTimeout _ _ => none
  | .shutdown _ => none
  | .close _ => none
  | .tick n => if n < s.now then some "clock went backwards" else none
  | .quiescent =>
    if s.calls.any (fun c => overdue c s.now) then some "a call is still blocked past its timeout"
    else if s.calls.any (fun c => stuckCall s c) then
      some "a reader or writer is still blocked although bytes, end of stream or buffer space are available (lost readiness event)"
    else none
  | .final => if s.calls.isEmpty then none else some "a stream call never returned"
  | .spurious => some "a thread waiting for one descriptor was woken although that descriptor is not ready (event of another descriptor or direction)"

def eff (s : St) (ev : Ev) : St :=
  match ev with
  | .call t k ep req => { s with calls := s.calls ++ [⟨t, k, ep, req, s.now, s.tmo ep⟩] }
  | .ret t r _ off _ =>
    match s.calls.find? (·.t == t) with
    | none => s
    | some c =>
      let s1 := { s with calls := s.calls.filter (·.t != t) }
      if c.kind.isWrite then
        let d := s.dir c.ep
        if r < 0 then (if c.kind.full then setDir s1 c.ep { d with wbroken := true } else s1)
        else setDir s1 c.ep { d with W := d.W + r.toNat }
      else
        let e := peer c.ep
        let d := s.dir e
        if r < 0 then (if c.kind.full then setDir s1 e { d with rbroken := true } else s1)
        else if r.toNat = 0 then s1
        else setDir s1 e { d with R := d.R + r.toNat, segs := d.segs ++ [(off, r.toNat)] }
  | .setTimeout ep to => { s with tmo := fun x => if x = ep then to else s.tmo x }
  | .shutdown ep => setDir s ep { s.dir ep with shut := true }
  | .close ep =>
    let s1 := setDir s ep { s.dir ep with shut := true }
    setDir s1 (peer ep) { s1.dir (peer ep) with rclosed := true }
  | .tick n => { s with now := n }
  | .quiescent => s
  | .final => s
  | .spurious => s

def step (s : St) (e : Ev) : Except String St :=
  match pre s e with
  | some m => .error m
  | none => .ok (eff s e)

def run (s : St) : List Ev → Except String St
  | [] => .ok s
  | e :: es => match step s e with
    | .ok s' => run s' es
    | .error m => .error m

/-! ## The transfer loop `doio_loop` with `BufStep` / `BufStepV` (`net/basic_socket.h`) as a pure function

`rs` are the results of the successive kernel transfers: `some n` = n bytes moved (`some 0` = end of stream), `none` = failure
(after `doio_once` has dealt with EINTR / EAGAIN, i.e. a timeout or a real error). -/

/-- `doio_loop(iocb, BufStep(buf, count))`: `none` = −1, `some n` = n bytes. `calls` collects (offset, length) of every transfer
    request issued. -/
def ioLoop : List (Option Nat) → (count done : Nat) → List (Nat × Nat) → Option Nat × List (Nat × Nat)
  | [], _, done, log => (some done, log)
  | none :: _, count, done, log => (none, log ++ [(done, count)])
  | some 0 :: _, count, done, log => (some done, log ++ [(done, count)])
  | some (k+1) :: rest, count, done, log =>
    if k + 1 ≥ count then (some (done + (k + 1)), log ++ [(done, count)])
    else ioLoop rest (count - (k + 1)) (done + (k + 1)) (log ++ [(done, count)])

/-- an iovec array as (address, length) pairs; `skipEmpty keep v` = `BufStepV::skip_empty` -/
def skipEmpty (keep : Nat) : List (Nat × Nat) → List (Nat × Nat)
  | [] => []
  | (a, l) :: rest => if rest.length + 1 > keep ∧ l = 0 then skipEmpty keep rest else (a, l) :: rest

/-- `iovector_view::extract_front(n)` for `n ≤ sum`: drop n bytes from the front -/
def dropBytes : Nat → List (Nat × Nat) → List (Nat × Nat)
  | _, [] => []
  | n, (a, l) :: rest => if n ≥ l then dropBytes (n - l) rest else (a + n, l - n) :: rest

def total (v : List (Nat × Nat)) : Nat := (v.map (·.2)).sum

/-- `doio_loop(iocb, BufStepV(view))`; `log` collects the iovec array handed to every transfer -/
def ioLoopV : List (Option Nat) → List (Nat × Nat) → Nat → List (List (Nat × Nat)) → Option Nat × List (List (Nat × Nat))
  | [], _, done, log => (some done, log)
  | none :: _, v, _, log => (none, log ++ [v])
  | some 0 :: _, v, done, log => (some done, log ++ [v])
  | some (k+1) :: rest, v, done, log =>
    let v' := skipEmpty 0 (dropBytes (k + 1) v)
    if v'.isEmpty then (some (done + (k + 1)), log ++ [v])
    else ioLoopV rest v' (done + (k + 1)) (log ++ [v])

/-- the flat address sequence an iovec array denotes -/
def flat : List (Nat × Nat) → List Nat
  | [] => []
  | (a, l) :: rest => List.range' a l ++ flat rest

end Photon.Sock
