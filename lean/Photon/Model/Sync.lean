/-!
# Acceptor model of the scheduler wake-up contract and the synchronisation primitives
(`thread/thread.cpp`: `prepare_usleep`, `resume_threads`, `prelocked_thread_interrupt`,
`thread_interrupt`, `thread_yield`, `mutex`, `semaphore`, `condition_variable`, `waitq`)

Properties C01–C04, C06. One event = one hook point or one API call/return of the real runtime; the
harness logs them in execution order and `step` must accept every one of them. Threads, wait
queues and objects are `Nat` ids; nothing is bounded.
-/
namespace Photon.Sync

/-- the private "notified" error code of `waitq` -/
def NOTIFIED : Int := -1
def ETIMEDOUT : Int := 110
def EPERM : Int := 1

inductive TSt where
  | run        -- READY or RUNNING
  | sleep
  | done
  deriving DecidableEq, Repr, Inhabited

/-- the API operation a thread is inside of -/
inductive Op where
  | none
  | sleep (us : Option Nat)
  | yield
  | lock (m : Nat) (to : Option Nat)
  | trylock (m : Nat)
  | semwait (s : Nat) (n : Nat) (to : Option Nat) (interruptible : Bool)
  | cvwait (c : Nat) (m : Nat) (to : Option Nat)
  | notify (c : Nat) (all : Bool)
  | rwlock (rw : Nat) (write : Bool)
  | other
  deriving DecidableEq, Repr, Inhabited

structure Th where
  st : TSt := .run
  err : Int := 0
  q : Option Nat := none          -- wait queue it sleeps in
  dl : Option Nat := none         -- deadline (none = infinite)
  op : Op := .none
  callAt : Nat := 0
  shutdown : Bool := false
  /-- the shutdown flag as the current API call saw it when it started -/
  shutAtCall : Bool := false
  /-- ghost: the errnos of the interrupts that reached this thread since its current sleep or
      yield began (reset by the `sleep` / `yield` events) -/
  intrSince : List Int := []
  /-- ghost: did this thread's latest semaphore subtraction (inside the current call) succeed -/
  subOk : Bool := false
  /-- ghost: what the first `thread_usleep*` inside the current API call returned (ret, errno); for
      `condition_variable::wait` that is the sleep in the condition variable's queue — later sleeps of the
      same call (re-acquiring the mutex) do not change how the waiter was woken -/
  lastResume : Int × Int := (0, 0)
  resumed : Bool := false
  /-- ghost, for a notifier: waiters present when notify was called / woken by it so far -/
  nExpect : Nat := 0
  nWoken : Nat := 0
  deriving Repr, Inhabited

structure Mutex where
  owner : Option Nat := none
  /-- `mutex(retries, contending = true)`: unlock frees the mutex and only wakes the head waiter,
      which competes for it again, instead of handing ownership over -/
  contending : Bool := false
  deriving Repr, Inhabited

structure RW where
  readers : List Nat := []
  writer : Option Nat := none
  cv : Nat := 0          -- id of the internal condition variable's wait queue
  mtx : Nat := 0         -- id of the internal mutex
  deriving Repr, Inhabited

structure Sem where
  count : Nat := 0
  budget : Nat := 0               -- what the running resume pass may still hand out
  initial : Nat := 0
  signalled : Nat := 0
  taken : Nat := 0                -- by successful subtractions
  deriving Repr, Inhabited

def upd {α} (f : Nat → α) (k : Nat) (v : α) : Nat → α := fun x => if x = k then v else f x

structure St where
  now : Nat := 0
  th : Nat → Th := fun _ => {}
  tids : List Nat := []
  queue : Nat → List Nat := fun _ => []
  mutex : Nat → Mutex := fun _ => {}
  sem : Nat → Sem := fun _ => {}
  /-- a condition-variable wait has enqueued thread `t` and still owes the unlock of mutex `m` -/
  deferred : Option (Nat × Nat) := none
  /-- `MUTEX_UNLOCK` named this head waiter; its wake-up must be the next event -/
  handoff : Option Nat := none
  /-- registered semaphores with their in-order-resume flag, and registered mutexes -/
  semIds : List (Nat × Bool) := []
  rw : Nat → RW := fun _ => {}
  rwIds : List Nat := []
  mutexIds : List Nat := []

inductive Ev where
  | create (t : Nat)
  | die (t : Nat)
  | call (t : Nat) (op : Op)
  | retSleep (t : Nat) (r e : Int)
  | retYield (t : Nat) (r : Int)
  | retLock (t m : Nat) (r e : Int)
  | retTryLock (t m : Nat) (r : Int)
  | callUnlock (t m : Nat)
  | retSemWait (t s : Nat) (r e : Int)
  | retCvWait (t c m : Nat) (r e : Int)
  | callNotify (t c : Nat)
  | retNotify (t c : Nat) (r : Int) (all : Bool)
  | sleep (t : Nat) (q : Option Nat) (dl : Option Nat)
  | wakeTimeout (t : Nat)
  | wakeIntr (t : Nat) (e : Int) (by_ : Nat)
  | intrNoSleep (t : Nat) (stored : Bool) (e : Int) (by_ : Nat)
  | resume (t : Nat) (r e : Int)
  | yield (t : Nat)
  | yieldRet (t : Nat) (r : Int)
  | mutexTry (m : Nat) (ok : Bool) (t : Nat)
  | mutexUnlock (m : Nat) (newOwner head : Option Nat) (by_ : Nat)
  | semAdd (s n cnt : Nat)
  | semSub (s n : Nat) (ok : Bool) (by_ : Nat)
  | semResume (s demand t : Nat)
  | semPass (s cnt : Nat)
  | semInit (s count : Nat) (inorder : Bool)
  | mutexInit (m : Nat) (contending : Bool)
  | rwInit (rw cv mtx : Nat)
  | retRwLock (t rw : Nat) (write : Bool) (r : Int)
  | callRwUnlock (t rw : Nat)
  | tick (now : Nat)
  | quiescent
  | setShutdown (t : Nat)
  deriving Repr

abbrev R := Except String St

def fail (msg : String) : R := .error msg

def setTh (s : St) (t : Nat) (x : Th) : St := { s with th := upd s.th t x }

/-- the demand a thread parked in a semaphore registered (`CURRENT->semaphore_count`) -/
def demandOf (x : Th) : Nat :=
  match x.op with
  | .semwait _ n _ _ => n
  | _ => 0

/-! ### guards (`pre…`: `none` = accepted, `some msg` = rejected) and effects (`eff…`) per event -/

def dequeue (s : St) (t : Nat) (q : Option Nat) : St :=
  match q with
  | some k => { s with queue := upd s.queue k ((s.queue k).erase t) }
  | none => s

-- create / die / shutdown / call
def preCreate (s : St) (t : Nat) : Option String :=
  -- a thread structure may be re-used (same address) once the previous thread has died
  if s.tids.contains t ∧ (s.th t).st ≠ .done then some "thread created twice"
  else if (s.th t).st = .sleep then some "create of a thread that is sleeping"
  else none
def effCreate (s : St) (t : Nat) : St :=
  { s with tids := if s.tids.contains t then s.tids else s.tids ++ [t], th := upd s.th t {} }

def preDie (s : St) (t : Nat) : Option String :=
  if (s.th t).st ≠ .run then some "die: thread not running" else none
def effDie (s : St) (t : Nat) : St := setTh s t { s.th t with st := .done }

def effSetShutdown (s : St) (t : Nat) : St := setTh s t { s.th t with shutdown := true }

def preCall (s : St) (t : Nat) : Option String :=
  if (s.th t).st ≠ .run then some "call by a thread that is not running" else none
def effCall (s : St) (t : Nat) (op : Op) : St :=
  let expect := match op with | .notify c _ => (s.queue c).length | _ => 0
  setTh s t { s.th t with op := op, callAt := s.now, shutAtCall := (s.th t).shutdown, subOk := false,
                          nExpect := expect, nWoken := 0, resumed := false }

-- `prepare_usleep`
/-- the deadline is never earlier than what the API call asked for (shutdown caps it at 10 ms) -/
def sleepDlOk (x : Th) (now : Nat) (dl : Option Nat) : Bool :=
  match x.op with
  | .sleep us =>
    (match us, dl with
     | some us, some d => if x.shutAtCall then decide (now ≤ d) || us == 0 else decide (x.callAt + us ≤ d) || us == 0  -- `Timeout(0)` is the expiration 0
     | none, none => true
     | none, some d => x.shutAtCall && decide (now ≤ d)
     | some _, none => false)
  | _ => true

/-- primitive-specific guards on the queue being entered -/
def parkGuard (s : St) (op : Op) (q : Option Nat) : Option String :=
  match q with
  | none => none
  | some q' =>
    match op with
    | .lock m _ => if q' = m ∧ (s.mutex m).owner = none then some "mutex: parking although the mutex is free" else none
    | .semwait sm n _ _ =>
      if q' = sm ∧ n ≤ (s.sem sm).count then some "semaphore: parking although the count covers the demand" else none
    | _ => none

def preSleep (s : St) (t : Nat) (q dl : Option Nat) : Option String :=
  if (s.th t).st ≠ .run then some "sleep: thread not running"
  else if !sleepDlOk (s.th t) s.now dl then some "sleep: deadline earlier than requested"
  else parkGuard s (s.th t).op q

/-- what a sleeping thread still owes: a condition-variable wait (directly, or inside
    `rwlock::lock` on the lock's internal condition variable) has enqueued the thread and will
    release the mutex as the deferred action of the context switch -/
def deferredOf (s : St) (t : Nat) (q : Option Nat) : Option (Nat × Nat) :=
  match (s.th t).op with
  | .cvwait c m _ => if q = some c then some (t, m) else s.deferred   -- (not when it parks on the mutex to re-acquire it)
  | .rwlock rw _ => if q = some (s.rw rw).cv then some (t, (s.rw rw).mtx) else s.deferred
  | _ => s.deferred

def enqueue (s : St) (t : Nat) (q : Option Nat) : St :=
  match q with
  | some k => { s with queue := upd s.queue k (s.queue k ++ [t]) }
  | none => s

def effSleep (s : St) (t : Nat) (q dl : Option Nat) : St :=
  -- `prepare_usleep` discards an interrupt reason recorded while the thread was runnable
  { enqueue (setTh s t { s.th t with st := .sleep, q := q, dl := dl, err := 0, intrSince := [] }) t q with
    deferred := deferredOf s t q }

-- `resume_threads`: expiry
def preWakeTimeout (s : St) (t : Nat) : Option String :=
  let x := s.th t
  if x.st ≠ .sleep then some "timeout wake-up of a thread that is not sleeping"
  else match x.dl with
    | none => some "timeout wake-up of a thread with no deadline"
    | some d => if s.now < d then some "timeout wake-up before the deadline" else none
def effWakeTimeout (s : St) (t : Nat) : St :=
  let x := s.th t
  dequeue (setTh s t { x with st := .run, q := none }) t x.q

-- `prelocked_thread_interrupt`
/-- is `by_` inside `notify_one/all(c)` and `t` a waiter of `c`? -/
def notifies (s : St) (by_ t : Nat) : Option (Nat × Bool) :=
  match (s.th by_).op with
  | .notify c all => if (s.th t).q = some c then some (c, all) else none
  | _ => none
def preWakeIntr (s : St) (t : Nat) (by_ : Nat) : Option String :=
  if (s.th t).st ≠ .sleep then some "interrupt wake-up of a thread that is not sleeping"
  else match notifies s by_ t with
    | some (c, _) => if (s.queue c).head? ≠ some t then some "condition variable: notify woke a waiter that is not the head of the queue" else none
    | none => none
def effWakeIntr (s : St) (t : Nat) (e : Int) (by_ : Nat) : St :=
  let x := s.th t
  let s1 := dequeue (setTh s t { x with st := .run, q := none, err := e, intrSince := x.intrSince ++ [e] }) t x.q
  match notifies s by_ t with
  | some _ => if by_ = t then s1 else setTh s1 by_ { s1.th by_ with nWoken := (s1.th by_).nWoken + 1 }
  | none => s1

-- `thread_interrupt` on a thread that is not sleeping
def storesIntr (s : St) (t by_ : Nat) : Bool :=
  decide (t ≠ by_) && decide ((s.th t).st = .run) && decide ((s.th t).err = 0)
def preIntrNoSleep (s : St) (t : Nat) (stored : Bool) (by_ : Nat) : Option String :=
  if (s.th t).st = .sleep then some "interrupt took the not-sleeping path for a sleeping thread"
  else if stored ≠ storesIntr s t by_ then some "interrupt of a non-sleeping thread: stored/not stored differs from the model"
  else none
def effIntrNoSleep (s : St) (t : Nat) (stored : Bool) (e : Int) : St :=
  let x := s.th t
  if stored then setTh s t { x with err := e, intrSince := x.intrSince ++ [e] } else s

-- return of `thread_usleep*` (`set_error_number`)
def preResume (s : St) (t : Nat) (r e : Int) : Option String :=
  let x := s.th t
  if x.st ≠ .run then some "resume of a thread that is not running"
  else
    let expect : Int × Int := if x.err = 0 then (0, 0) else (-1, x.err)
    if (r, if r < 0 then e else 0) ≠ expect then some "sleep returned a value different from the pending wake-up reason"
    else none
def effResume (s : St) (t : Nat) (r e : Int) : St :=
  setTh s t { s.th t with err := 0, dl := none, resumed := true,
                          lastResume := if (s.th t).resumed then (s.th t).lastResume else (r, if r < 0 then e else 0) }

-- `thread_yield`
def preYield (s : St) (t : Nat) : Option String :=
  if (s.th t).st ≠ .run then some "yield by a thread that is not running" else none
def effYield (s : St) (t : Nat) : St := setTh s t { s.th t with err := 0, intrSince := [] }
def preYieldRet (s : St) (t : Nat) (r : Int) : Option String :=
  if r ≠ (s.th t).err then some "yield returned a value different from the pending reason" else none

-- API returns
def preRetSleep (s : St) (t : Nat) (r : Int) : Option String :=
  let x := s.th t
  -- r = 0 ⇒ the requested time has elapsed (a thread shut down before the call never returns 0
  -- from a sleep that could block)
  let okTime : Bool := match x.op with
    | .sleep (some us) => if r = 0 then decide (x.callAt + us ≤ s.now) && (!x.shutAtCall || us == 0) else true
    | .sleep none => r ≠ 0
    | _ => true
  if x.shutAtCall ∧ ¬ (s.now ≤ x.callAt + 10000) then some "a shut-down thread blocked for more than 10 ms"
  else if !okTime then some "sleep returned 0 before the requested time elapsed"
  else none
def effRet (s : St) (t : Nat) : St := setTh s t { s.th t with op := .none }

-- mutex
def preMutexTry (s : St) (m : Nat) (ok : Bool) : Option String :=
  if ok ≠ decide ((s.mutex m).owner = none) then some "mutex: CAS outcome differs from the model's owner" else none
def effMutexTry (s : St) (m : Nat) (ok : Bool) (t : Nat) : St :=
  if ok then { s with mutex := upd s.mutex m { (s.mutex m) with owner := some t } } else s

def unlocker (s : St) (m by_ : Nat) : Nat :=
  match s.deferred with
  | some (t, m') => if m' = m then t else by_
  | none => by_
def preMutexUnlock (s : St) (m : Nat) (newOwner head : Option Nat) (by_ : Nat) : Option String :=
  if (s.mutex m).owner ≠ some (unlocker s m by_) then some "mutex: unlocked by a thread that is not the owner"
  else if head ≠ (s.queue m).head? then some "mutex: hand-off target is not the head of the queue"
  else if newOwner ≠ (if (s.mutex m).contending then none else head) then some "mutex: new owner is not the head waiter (nobody, for a contending mutex)"
  else none
def effMutexUnlock (s : St) (m : Nat) (newOwner head : Option Nat) : St :=
  { s with mutex := upd s.mutex m { (s.mutex m) with owner := newOwner },
           deferred := (match s.deferred with | some (_, m') => if m' = m then none else s.deferred | none => none),
           handoff := head }

def okDeadline (to : Option Nat) (callAt now : Nat) (r e : Int) : Bool :=
  match to with
  | some us => if r ≠ 0 ∧ e = ETIMEDOUT then decide (callAt + us ≤ now) else true
  | none => !(decide (r ≠ 0) && decide (e = ETIMEDOUT))

def preRetLock (s : St) (t m : Nat) (r e : Int) : Option String :=
  let x := s.th t
  let mx := s.mutex m
  if r = 0 ∧ mx.owner ≠ some t then some "mutex: lock() returned 0 but the caller is not the owner"
  else if r ≠ 0 ∧ mx.owner = some t then some "mutex: lock() failed but the caller is the owner"
  else if r ≠ 0 ∧ (s.queue m).contains t then some "mutex: failed lock() left the caller in the wait queue"
  else
    let okErr : Bool := match x.op with
      | .lock _ to => okDeadline to x.callAt s.now r e
      | _ => true
    if !okErr then some "mutex: ETIMEDOUT before the deadline" else none

def preRetTryLock (s : St) (t m : Nat) (r : Int) : Option String :=
  let mx := s.mutex m
  if r = 0 ∧ mx.owner ≠ some t then some "mutex: try_lock() returned 0 but the caller is not the owner"
  else if r ≠ 0 ∧ mx.owner = some t then some "mutex: try_lock() failed but the caller became the owner"
  else none

def preCallUnlock (s : St) (t m : Nat) : Option String :=
  if (s.mutex m).owner ≠ some t then some "program error: unlock by a non-owner" else none

-- semaphore
def effSemInit (s : St) (sm c : Nat) (inorder : Bool) : St :=
  { s with sem := upd s.sem sm { count := c, initial := c }, semIds := s.semIds ++ [(sm, inorder)] }
def effMutexInit (s : St) (m : Nat) (contending : Bool) : St :=
  { s with mutexIds := s.mutexIds ++ [m], mutex := upd s.mutex m { (s.mutex m) with contending := contending } }
def preSemAdd (s : St) (sm n cnt : Nat) : Option String :=
  if cnt ≠ (s.sem sm).count + n then some "semaphore: count after signal differs from the model" else none
def effSemAdd (s : St) (sm n cnt : Nat) : St :=
  let x := s.sem sm
  { s with sem := upd s.sem sm { x with count := cnt, signalled := x.signalled + n } }
def preSemSub (s : St) (sm n : Nat) (ok : Bool) : Option String :=
  if ok ≠ decide (n ≤ (s.sem sm).count) then some "semaphore: subtraction outcome differs from the model's count" else none
def effSemSub (s : St) (sm n : Nat) (ok : Bool) (by_ : Nat) : St :=
  let x := s.sem sm
  let s1 := setTh s by_ { s.th by_ with subOk := ok }
  if ok then { s1 with sem := upd s.sem sm { x with count := x.count - n, taken := x.taken + n } } else s1
/-- start of `try_resume(cnt)`: the pass may hand out `cnt` tokens -/
def preSemPass (s : St) (sm cnt : Nat) : Option String :=
  if cnt ≠ (s.sem sm).count then some "semaphore: resume pass started with a count different from the model" else none
def effSemPass (s : St) (sm cnt : Nat) : St := { s with sem := upd s.sem sm { (s.sem sm) with budget := cnt } }
def preSemResume (s : St) (sm demand t : Nat) : Option String :=
  let x := s.sem sm
  if ¬ (s.queue sm).contains t then some "semaphore: resumed a thread that is not waiting on it"
  else if demand ≠ demandOf (s.th t) then some "semaphore: resumed waiter's demand differs from what it asked"
  else if demand > x.budget then some "semaphore: resumed a waiter whose demand exceeds the available count"
  else none
def effSemResume (s : St) (sm demand t : Nat) : St :=
  let x := s.sem sm
  { s with sem := upd s.sem sm { x with budget := x.budget - demand }, handoff := some t }
def preRetSemWait (s : St) (t sm : Nat) (r e : Int) : Option String :=
  let x := s.th t
  if r ≠ 0 ∧ (s.queue sm).contains t then some "semaphore: failed wait left the caller in the queue"
  else if r = 0 ∧ demandOf x ≠ 0 ∧ x.subOk = false then some "semaphore: wait() returned 0 without taking its tokens"
  else if r ≠ 0 ∧ x.subOk = true then some "semaphore: failed wait() took tokens"
  else
    let okErr : Bool := match x.op with
      | .semwait _ _ to _ => okDeadline to x.callAt s.now r e
      | _ => true
    if !okErr then some "semaphore: ETIMEDOUT before the deadline"
    else match x.op with
      | .semwait _ _ _ true =>
        -- an interruptible wait by a thread that was shut down before the call is cut short by the 10 ms bound
        if x.shutAtCall ∧ ¬ (s.now ≤ x.callAt + 10000) then some "a shut-down thread blocked for more than 10 ms in a semaphore wait" else none
      | _ => none

-- condition variable
/-- `waitq_translate_errno`: what `wait()` reports for what the underlying sleep returned -/
def translate (lr : Int × Int) : Int × Int :=
  if lr.1 = 0 then (-1, ETIMEDOUT) else if lr.2 = NOTIFIED then (0, 0) else (-1, lr.2)
def preRetNotify (s : St) (t : Nat) (r : Int) (all : Bool) : Option String :=
  let x := s.th t
  let want : Nat := if all then x.nExpect else (if x.nExpect = 0 then 0 else 1)
  if x.nWoken ≠ want then some "condition variable: notify woke a number of waiters different from the model"
  else if r ≠ (want : Int) then some "condition variable: notify's return value differs from the number of waiters woken"
  else none
def preRetCvWait (s : St) (t m : Nat) (r e : Int) : Option String :=
  let x := s.th t
  if (s.mutex m).owner ≠ some t then some "condition variable: wait() returned without holding the lock"
  else if (r, if r < 0 then e else 0) ≠ translate x.lastResume then some "condition variable: wait() result is not the translation of how it was woken"
  else
    let okErr : Bool := match x.op with
      | .cvwait _ _ to => okDeadline to x.callAt s.now r e
      | _ => true
    if !okErr then some "condition variable: ETIMEDOUT before the deadline" else none

-- reader-writer lock (ghost holder sets driven by the API returns)
def effRwInit (s : St) (rw cv mtx : Nat) : St :=
  { s with rw := upd s.rw rw { cv := cv, mtx := mtx }, rwIds := s.rwIds ++ [rw] }
def preRetRwLock (s : St) (t rw : Nat) (write : Bool) (r : Int) : Option String :=
  let x := s.rw rw
  if r ≠ 0 then (if (s.queue x.cv).contains t then some "rwlock: failed lock() left the caller in the wait queue" else none)
  else if x.writer ≠ none then some "rwlock: lock granted while a writer holds it"
  else if write ∧ x.readers ≠ [] then some "rwlock: write lock granted while readers hold it"
  else none
def effRetRwLock (s : St) (t rw : Nat) (write : Bool) (r : Int) : St :=
  let x := s.rw rw
  let s1 := setTh s t { s.th t with op := .none }
  if r ≠ 0 then s1
  else if write then { s1 with rw := upd s.rw rw { x with writer := some t } }
  else { s1 with rw := upd s.rw rw { x with readers := t :: x.readers } }
def preCallRwUnlock (s : St) (t rw : Nat) : Option String :=
  let x := s.rw rw
  if x.writer = some t ∨ x.readers.contains t then none else some "program error: rwlock unlock by a non-holder"
def effCallRwUnlock (s : St) (t rw : Nat) : St :=
  let x := s.rw rw
  if x.writer = some t then { s with rw := upd s.rw rw { x with writer := none } }
  else { s with rw := upd s.rw rw { x with readers := x.readers.erase t } }
/-- the value of `rwlock::state` the holder sets correspond to -/
def rwStateOf (x : RW) : Int := if x.writer.isSome then -1 else (x.readers.length : Int)
def stuckRw (s : St) (rw : Nat) : Bool :=
  let x := s.rw rw
  decide (x.writer = none) && x.readers.isEmpty && !(s.queue x.cv).isEmpty

/-- lost wake-ups visible at a quiescence point: a waiter is parked although the object's state
    already satisfies its wake condition -/
def stuckMutex (s : St) (m : Nat) : Bool := decide ((s.mutex m).owner = none) && !(s.queue m).isEmpty
def stuckSem (s : St) (sm : Nat) (inorder : Bool) : Bool :=
  let c := (s.sem sm).count
  if inorder then
    match s.queue sm with
    | [] => false
    | h :: _ => decide (demandOf (s.th h) ≤ c)
  else (s.queue sm).any fun t => decide (demandOf (s.th t) ≤ c)
def stuckAtQuiescence (s : St) : List String :=
  (s.mutexIds.filterMap fun m => if stuckMutex s m then some s!"mutex {m} is free but has parked waiters" else none) ++
  (s.semIds.filterMap fun (sm, inorder) =>
    if stuckSem s sm inorder then
      some s!"semaphore {sm}: count {(s.sem sm).count} covers the demand of a parked waiter (head waiter in in-order mode)"
    else none) ++
  (s.rwIds.filterMap fun rw => if stuckRw s rw then some s!"rwlock {rw} is free but has parked waiters" else none)

-- time and quiescence
def preTick (s : St) (n : Nat) : Option String := if n < s.now then some "clock went backwards" else none
def overdue (s : St) : List Nat :=
  s.tids.filter fun t => decide ((s.th t).st = .sleep) && (match (s.th t).dl with | some d => decide (d ≤ s.now) | none => false)
def preQuiescent (s : St) : Option String :=
  -- every sleeper whose deadline has passed must have been woken by the resume pass
  if overdue s ≠ [] then some "a sleeping thread is past its deadline at quiescence"
  else if s.deferred.isSome then some "condition variable: deferred unlock never ran"
  else if s.mutexIds.any (stuckMutex s) then some "lost wake-up: a free mutex has parked waiters at quiescence"
  else if s.semIds.any (fun p => stuckSem s p.1 p.2) then some "lost wake-up: the semaphore count covers a parked waiter's demand at quiescence"
  else if s.rwIds.any (stuckRw s) then some "lost wake-up: the reader-writer lock is free but has parked waiters at quiescence"
  else none

/-- the guard of an event -/
def pre (s : St) (e : Ev) : Option String :=
  match e with
  | .create t => preCreate s t
  | .die t => preDie s t
  | .setShutdown _ => none
  | .call t _ => preCall s t
  | .sleep t q dl => preSleep s t q dl
  | .wakeTimeout t => preWakeTimeout s t
  | .wakeIntr t _ b => preWakeIntr s t b
  | .intrNoSleep t stored _ by_ => preIntrNoSleep s t stored by_
  | .resume t r e => preResume s t r e
  | .yield t => preYield s t
  | .yieldRet t r => preYieldRet s t r
  | .retSleep t r _ => preRetSleep s t r
  | .retYield _ _ => none
  | .mutexTry m ok _ => preMutexTry s m ok
  | .mutexUnlock m no hd by_ => preMutexUnlock s m no hd by_
  | .retLock t m r e => preRetLock s t m r e
  | .retTryLock t m r => preRetTryLock s t m r
  | .callUnlock t m => preCallUnlock s t m
  | .semInit _ _ _ => none
  | .mutexInit m _ => if s.queue m ≠ [] then some "mutex registered while threads already wait on it" else none
  | .rwInit _ _ _ => none
  | .retRwLock t rw w r => preRetRwLock s t rw w r
  | .callRwUnlock t rw => preCallRwUnlock s t rw
  | .semAdd sm n cnt => preSemAdd s sm n cnt
  | .semSub sm n ok _ => preSemSub s sm n ok
  | .semResume sm d t => preSemResume s sm d t
  | .semPass sm c => preSemPass s sm c
  | .retSemWait t sm r e => preRetSemWait s t sm r e
  | .callNotify _ _ => none
  | .retNotify t _ r all => preRetNotify s t r all
  | .retCvWait t _ m r e => preRetCvWait s t m r e
  | .tick n => preTick s n
  | .quiescent => preQuiescent s

/-- the state change of an (accepted) event -/
def eff (s : St) (e : Ev) : St :=
  match e with
  | .create t => effCreate s t
  | .die t => effDie s t
  | .setShutdown t => effSetShutdown s t
  | .call t op => effCall s t op
  | .sleep t q dl => effSleep s t q dl
  | .wakeTimeout t => effWakeTimeout s t
  | .wakeIntr t e b => effWakeIntr s t e b
  | .intrNoSleep t stored e _ => effIntrNoSleep s t stored e
  | .resume t r e => effResume s t r e
  | .yield t => effYield s t
  | .yieldRet _ _ => s
  | .retSleep t _ _ => effRet s t
  | .retYield t _ => effRet s t
  | .mutexTry m ok t => effMutexTry s m ok t
  | .mutexUnlock m no hd _ => effMutexUnlock s m no hd
  | .retLock t _ _ _ => effRet s t
  | .retTryLock t _ _ => effRet s t
  | .callUnlock _ _ => s
  | .semInit sm c io => effSemInit s sm c io
  | .mutexInit m c => effMutexInit s m c
  | .rwInit rw cv mtx => effRwInit s rw cv mtx
  | .retRwLock t rw w r => effRetRwLock s t rw w r
  | .callRwUnlock t rw => effCallRwUnlock s t rw
  | .semAdd sm n cnt => effSemAdd s sm n cnt
  | .semSub sm n ok b => effSemSub s sm n ok b
  | .semResume sm d t => effSemResume s sm d t
  | .semPass sm c => effSemPass s sm c
  | .retSemWait t _ _ _ => effRet s t
  | .callNotify _ _ => s
  | .retNotify t _ _ _ => effRet s t
  | .retCvWait t _ _ _ _ => effRet s t
  | .tick n => { s with now := n }
  | .quiescent => s

/-- one event of the trace -/
def stepCore (s : St) (e : Ev) : R :=
  match pre s e with
  | some m => .error m
  | none => .ok (eff s e)

/-- a pending hand-off (a mutex unlock or a semaphore resume named the waiter to wake) must be
    completed by the very next event -/
def step (s : St) (e : Ev) : R :=
  -- a condition-variable wait that has enqueued its thread owes the unlock of its mutex:
  -- releasing the lock and becoming a waiter is one step, nothing may come in between
  match s.deferred, e with
  | some (_, m), .mutexUnlock m' _ _ _ => if m = m' then stepH s e else fail "condition variable: another mutex was unlocked before the deferred unlock"
  | some _, _ => fail "condition variable: an event came between enqueueing the waiter and releasing its lock"
  | none, _ => stepH s e
where stepH (s : St) (e : Ev) : R :=
  match s.handoff, e with
  | some h, .wakeIntr t _ _ => if t = h then stepCore { s with handoff := none } e else fail "handoff: another thread was woken"
  | some _, _ => fail "mutex unlock named a head waiter but did not wake it next"
  | none, _ => stepCore s e

/-- run a trace -/
def run (s : St) : List Ev → R
  | [] => .ok s
  | e :: es => match step s e with
    | .ok s' => run s' es
    | .error m => .error m

def Reachable (s : St) : Prop := ∃ tr, run {} tr = .ok s

end Photon.Sync


