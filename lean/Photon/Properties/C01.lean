import Photon.Properties.C04
/-!
# C01 — Mutex: one owner at a time, and lock() result always matches ownership

Model: `Photon/Model/Sync.lean`. The owner word is `(s.mutex m).owner : Option Nat`; the theorems
say which events may change it and what the API may return.
-/
namespace Photon.Sync

/-- **C01, lock() returns 0 exactly when the caller is the owner.** -/
theorem C01_ret_iff_owner (s s' : St) (t m : Nat) (r e : Int) (h : step s (.retLock t m r e) = .ok s') :
    (r = 0 ↔ (s.mutex m).owner = some t) ∧ (r ≠ 0 → ¬ (s.queue m).contains t) := by
  obtain ⟨s0, _, _, _, hq, hm, _, _, hp, _⟩ := step_ok s s' _ h
  simp only [pre, preRetLock, hm, hq] at hp
  by_cases h1 : r = 0 ∧ (s.mutex m).owner ≠ some t
  · rw [if_pos h1] at hp; exact absurd hp (by simp)
  · by_cases h2 : r ≠ 0 ∧ (s.mutex m).owner = some t
    · rw [if_neg h1, if_pos h2] at hp; exact absurd hp (by simp)
    · by_cases h3 : r ≠ 0 ∧ (s.queue m).contains t
      · rw [if_neg h1, if_neg h2, if_pos h3] at hp; exact absurd hp (by simp)
      · refine ⟨⟨fun hr => ?_, fun ho => ?_⟩, fun hr hc => h3 ⟨hr, hc⟩⟩
        · by_cases ho : (s.mutex m).owner = some t
          · exact ho
          · exact absurd ⟨hr, ho⟩ h1
        · by_cases hr : r = 0
          · exact hr
          · exact absurd ⟨hr, ho⟩ h2

/-- the same for try_lock -/
theorem C01_try_ret_iff_owner (s s' : St) (t m : Nat) (r : Int) (h : step s (.retTryLock t m r) = .ok s') :
    (r = 0 ↔ (s.mutex m).owner = some t) := by
  obtain ⟨s0, _, _, _, _, hm, _, _, hp, _⟩ := step_ok s s' _ h
  simp only [pre, preRetTryLock, hm] at hp
  by_cases h1 : r = 0 ∧ (s.mutex m).owner ≠ some t
  · rw [if_pos h1] at hp; exact absurd hp (by simp)
  · by_cases h2 : r ≠ 0 ∧ (s.mutex m).owner = some t
    · rw [if_neg h1, if_pos h2] at hp; exact absurd hp (by simp)
    · refine ⟨fun hr => ?_, fun ho => ?_⟩
      · by_cases ho : (s.mutex m).owner = some t
        · exact ho
        · exact absurd ⟨hr, ho⟩ h1
      · by_cases hr : r = 0
        · exact hr
        · exact absurd ⟨hr, ho⟩ h2

/-- **C01, one owner at a time.** Two lock()/try_lock() calls that returned 0 with no unlock of the
    mutex in between were made by the same thread: the owner changes only by a successful CAS from
    "free", or by the unlock hand-off performed by (or deferred on behalf of) the current owner. -/
theorem C01_owner_change (s s' : St) (ev : Ev) (m : Nat) (h : step s ev = .ok s')
    (hne : (s'.mutex m).owner ≠ (s.mutex m).owner) :
    (∃ t, ev = .mutexTry m true t ∧ (s.mutex m).owner = none ∧ (s'.mutex m).owner = some t) ∨
    (∃ no hd b, ev = .mutexUnlock m no hd b ∧ (s.mutex m).owner = some (unlocker s m b) ∧
        hd = (s.queue m).head? ∧ no = (if (s.mutex m).contending then none else hd) ∧ (s'.mutex m).owner = no) := by
  obtain ⟨s0, hth, g1, g2, hq, hm, g5, hdf, hp, hs'⟩ := step_ok s s' _ h
  rw [hs'] at hne ⊢
  cases ev <;> simp only [eff] at hne ⊢
  case mutexTry m' ok t =>
    simp only [pre, preMutexTry, hm] at hp
    simp only [effMutexTry, hm] at hne ⊢
    cases ok with
    | false => exfalso; apply hne; simp [hm]
    | true =>
      simp only [if_true, upd] at hne ⊢
      by_cases hmm : m = m'
      · subst hmm
        simp only [if_true] at hne ⊢
        left; refine ⟨t, rfl, ?_, rfl⟩
        by_cases ho : (s.mutex m).owner = none
        · exact ho
        · simp [ho] at hp
      · exfalso; apply hne; simp [hm, Ne.symm hmm, hmm]
  case mutexUnlock m' no hd b =>
    simp only [pre, preMutexUnlock, hm, hq] at hp
    simp only [effMutexUnlock, hm, upd] at hne ⊢
    by_cases hmm : m = m'
    · subst hmm
      simp only [if_true] at hne ⊢
      right
      have hu : unlocker s0 m b = unlocker s m b := by simp [unlocker, hdf]
      rw [hu] at hp
      by_cases c1 : (s.mutex m).owner ≠ some (unlocker s m b)
      · simp [c1] at hp
      · by_cases c2 : hd ≠ (s.queue m).head?
        · simp [c1, c2] at hp
        · by_cases c3 : no ≠ (if (s.mutex m).contending then none else hd)
          · simp [c1, c2, c3] at hp
          · simp only [ne_eq, Decidable.not_not] at c1 c2 c3
            exact ⟨no, hd, b, rfl, c1, c2, c3, rfl⟩
    · exfalso; apply hne; simp [hm, Ne.symm hmm, hmm]
  all_goals (exfalso; apply hne)
  case semSub sm n ok b => simp only [effSemSub]; split <;> simp [setTh, hm]
  case sleep t q dl =>
    cases q <;> simp [effSleep, enqueue, setTh, hm]
  case intrNoSleep t st e b => simp only [effIntrNoSleep]; split <;> simp [setTh, hm]
  case wakeTimeout t => simp [effWakeTimeout, dequeue, setTh, hm]; split <;> simp [hm]
  case rwInit rw cv mtx => simp [effRwInit, hm]
  case mutexInit m' c => simp only [effMutexInit, upd, hm]; split <;> simp_all
  case retRwLock t rw w r => simp only [effRetRwLock]; split; simp [setTh, hm]; split <;> simp [setTh, hm]
  case callRwUnlock t rw => simp only [effCallRwUnlock]; split <;> simp [hm]
  case wakeIntr t e b =>
    have hw : (wokenState s0 t e).mutex = s.mutex := by simp only [wokenState, dequeue]; split <;> simp [setTh, hm]
    rcases effWakeIntr_form s0 t e b with hf | hf <;> rw [hf] <;> simp [setTh, hw]
  all_goals simp [effCreate, effDie, effCall, effSetShutdown, effResume, effYield, effRet, effSemInit, effSemAdd,
      effSemResume, effSemPass, effMutexInit, setTh, hm]

/-! ### wait-queue bookkeeping and "a free mutex has no parked locker" -/

/-- membership in a wait queue is exact: a thread is in queue `k` only while it sleeps with `q = k`,
    and at most once -/
structure InvQ (s : St) : Prop where
  mem : ∀ k t, t ∈ s.queue k → (s.th t).st = .sleep ∧ (s.th t).q = some k
  nodup : ∀ k, (s.queue k).Nodup
  /-- a thread parked inside `lock(m)` on `m`'s own queue implies that `m` is held -/
  held : ∀ m t to, (s.mutex m).contending = false → t ∈ s.queue m → (s.th t).op = .lock m to → (s.mutex m).owner ≠ none

theorem invQ_init : InvQ {} := ⟨by intro k t h; simp at h, by intro k; simp, by intro m t to _ h; simp at h⟩

theorem not_in_queue_of_run (s : St) (h : InvQ s) (t : Nat) (hr : (s.th t).st ≠ .sleep) (k : Nat) :
    t ∉ s.queue k := fun hm => hr (h.mem k t hm).1

theorem invQ_setTh_same (s : St) (h : InvQ s) (t : Nat) (x : Th)
    (h1 : x.st = (s.th t).st) (h2 : x.q = (s.th t).q)
    (h3 : ∀ m to, x.op = .lock m to → (s.th t).op = .lock m to ∨ t ∉ s.queue m) : InvQ (setTh s t x) := by
  constructor
  · intro k t' hm
    simp only [setTh, upd] at hm ⊢
    split
    · next heq => subst heq; have := h.mem k t' hm; rw [h1, h2]; exact this
    · exact h.mem k t' hm
  · exact h.nodup
  · intro m t' to hc hm hop
    simp only [setTh, upd] at hm hop ⊢
    split at hop
    · next heq =>
      subst heq
      rcases h3 m to hop with h4 | h4
      · exact h.held m t' to hc hm h4
      · exact absurd hm h4
    · exact h.held m t' to hc hm hop

/-- waking `t`: it leaves the queue it was in and becomes runnable -/
theorem wake_invQ (s : St) (h : InvQ s) (t : Nat) (x : Th) (h1 : x.st = .run) (h2 : x.q = none)
    (h3 : x.op = (s.th t).op) : InvQ (dequeue (setTh s t x) t (s.th t).q) := by
  have hsub : ∀ k t', t' ∈ (dequeue (setTh s t x) t (s.th t).q).queue k → t' ∈ s.queue k ∧ t' ≠ t := by
    intro k t' hm
    unfold dequeue at hm
    cases hq : (s.th t).q with
    | none =>
      rw [hq] at hm
      refine ⟨hm, ?_⟩
      intro heq; subst heq
      have := (h.mem k t' hm).2; rw [hq] at this; exact absurd this (by simp)
    | some kq =>
      rw [hq] at hm
      simp only [setTh, upd] at hm
      by_cases hk : k = kq
      · subst hk
        simp only [if_true] at hm
        exact ⟨List.mem_of_mem_erase hm, fun heq => by
          subst heq; exact (List.Nodup.mem_erase_iff (h.nodup k)).mp hm |>.1 rfl⟩
      · simp only [hk, if_false] at hm
        refine ⟨hm, ?_⟩
        intro heq; subst heq
        have := (h.mem k t' hm).2; rw [hq] at this; exact hk (Option.some.inj this).symm
  have hth : (dequeue (setTh s t x) t (s.th t).q).th = upd s.th t x := by
    unfold dequeue; split <;> rfl
  have hmx : (dequeue (setTh s t x) t (s.th t).q).mutex = s.mutex := by
    unfold dequeue; split <;> rfl
  constructor
  · intro k t' hm
    obtain ⟨hm', hne⟩ := hsub k t' hm
    rw [hth]; simp only [upd, hne, if_false]; exact h.mem k t' hm'
  · intro k
    unfold dequeue
    split
    · simp only [setTh, upd]; split
      · exact List.Nodup.erase _ (h.nodup _)
      · exact h.nodup k
    · exact h.nodup k
  · intro m t' to hc hm hop
    obtain ⟨hm', hne⟩ := hsub m t' hm
    rw [hth] at hop; simp only [upd, hne, if_false] at hop
    rw [hmx] at hc ⊢; exact h.held m t' to hc hm' hop

theorem eff_invQ (s : St) (e : Ev) (hp : pre s e = none) (h : InvQ s) : InvQ (eff s e) := by
  cases e <;> simp only [eff]
  case create t =>
    simp only [pre, preCreate] at hp
    have hns : (s.th t).st ≠ .sleep := by
      intro hs
      by_cases hc : s.tids.contains t = true ∧ (s.th t).st ≠ .done
      · rw [if_pos hc] at hp; exact absurd hp (by simp)
      · rw [if_neg hc, if_pos hs] at hp; exact absurd hp (by simp)
    have hnq := not_in_queue_of_run s h t hns
    constructor
    · intro k t' hm
      simp only [effCreate, upd] at hm ⊢
      split
      · next heq => subst heq; exact absurd hm (hnq k)
      · exact h.mem k t' hm
    · exact h.nodup
    · intro m t' to hc hm hop
      simp only [effCreate, upd] at hm hop ⊢
      split at hop
      · next heq => subst heq; exact absurd hm (hnq m)
      · exact h.held m t' to hc hm hop
  case die t =>
    simp only [pre, preDie] at hp
    have hr : (s.th t).st = .run := by
      by_cases c : (s.th t).st = .run
      · exact c
      · rw [if_pos c] at hp; exact absurd hp (by simp)
    have hnq := not_in_queue_of_run s h t (by rw [hr]; simp)
    constructor
    · intro k t' hm
      simp only [effDie, setTh, upd] at hm ⊢
      split
      · next heq => subst heq; exact absurd hm (hnq k)
      · exact h.mem k t' hm
    · exact h.nodup
    · intro m t' to hc hm hop
      simp only [effDie, setTh, upd] at hm hop ⊢
      split at hop
      · next heq => subst heq; exact absurd hm (hnq m)
      · exact h.held m t' to hc hm hop
  case setShutdown t => exact invQ_setTh_same s h t _ rfl rfl (fun m to ho => Or.inl ho)
  case call t op =>
    simp only [pre, preCall] at hp
    have hr : (s.th t).st = .run := by
      by_cases c : (s.th t).st = .run
      · exact c
      · rw [if_pos c] at hp; exact absurd hp (by simp)
    exact invQ_setTh_same s h t _ rfl rfl
      (fun m to _ => Or.inr (not_in_queue_of_run s h t (by rw [hr]; simp) m))
  case resume t r e => exact invQ_setTh_same s h t _ rfl rfl (fun m to ho => Or.inl ho)
  case yield t => exact invQ_setTh_same s h t _ rfl rfl (fun m to ho => Or.inl ho)
  case yieldRet t r => exact h
  case retSleep t r e => exact invQ_setTh_same s h t _ rfl rfl (fun m to ho => by simp at ho)
  case retYield t r => exact invQ_setTh_same s h t _ rfl rfl (fun m to ho => by simp at ho)
  case retLock t m r e => exact invQ_setTh_same s h t _ rfl rfl (fun m to ho => by simp at ho)
  case retTryLock t m r => exact invQ_setTh_same s h t _ rfl rfl (fun m to ho => by simp at ho)
  case retSemWait t sm r e => exact invQ_setTh_same s h t _ rfl rfl (fun m to ho => by simp at ho)
  case retCvWait t c m r e => exact invQ_setTh_same s h t _ rfl rfl (fun m to ho => by simp at ho)
  case intrNoSleep t stored e by_ =>
    unfold effIntrNoSleep; split
    · exact invQ_setTh_same s h t _ rfl rfl (fun m to ho => Or.inl ho)
    · exact h
  case callUnlock t m => exact h
  case callNotify t c => exact h
  case retNotify t c r a => exact invQ_setTh_same s h t _ rfl rfl (fun m to ho => by simp at ho)
  case quiescent => exact h
  case tick n => exact ⟨h.mem, h.nodup, h.held⟩
  case semInit sm c io => exact ⟨h.mem, h.nodup, h.held⟩
  case mutexInit m c =>
    refine ⟨h.mem, h.nodup, ?_⟩
    intro m' t' to hc hm hop
    simp only [effMutexInit, upd] at hc ⊢
    split
    · next heq =>
      subst heq
      -- registering a mutex does not touch its owner; a mutex is registered before it is used
      exfalso
      simp only [pre] at hp
      by_cases hq : s.queue m' ≠ []
      · rw [if_pos hq] at hp; exact absurd hp (by simp)
      · simp only [ne_eq, Decidable.not_not] at hq
        simp only [effMutexInit] at hm
        rw [hq] at hm; simp at hm
    · next hneq => simp only [hneq, if_false] at hc; exact h.held m' t' to hc hm hop
  case rwInit rw cv => exact ⟨h.mem, h.nodup, h.held⟩
  case retRwLock t rw w r =>
    have h1 : InvQ (setTh s t { s.th t with op := .none }) :=
      invQ_setTh_same s h t _ rfl rfl (fun m to ho => by simp at ho)
    simp only [effRetRwLock]; split
    · exact h1
    · split <;> exact ⟨h1.mem, h1.nodup, h1.held⟩
  case callRwUnlock t rw => simp only [effCallRwUnlock]; split <;> exact ⟨h.mem, h.nodup, h.held⟩
  case semAdd sm n c => exact ⟨h.mem, h.nodup, h.held⟩
  case semSub sm n ok by_ =>
    have h1 : InvQ (setTh s by_ { s.th by_ with subOk := ok }) :=
      invQ_setTh_same s h by_ _ rfl rfl (fun m to ho => Or.inl ho)
    unfold effSemSub; split
    · exact ⟨h1.mem, h1.nodup, h1.held⟩
    · exact h1
  case semResume sm d t => exact ⟨h.mem, h.nodup, h.held⟩
  case semPass sm c => exact ⟨h.mem, h.nodup, h.held⟩
  case mutexTry m ok t =>
    unfold effMutexTry; split
    · refine ⟨h.mem, h.nodup, ?_⟩
      intro m' t' to hc hm hop
      simp only [upd] at hc ⊢; split
      · simp
      · next hneq => simp only [hneq, if_false] at hc; exact h.held m' t' to hc hm hop
    · exact h
  case mutexUnlock m no hd by_ =>
    simp only [pre, preMutexUnlock] at hp
    by_cases c1 : (s.mutex m).owner ≠ some (unlocker s m by_)
    · rw [if_pos c1] at hp; exact absurd hp (by simp)
    · by_cases c2 : hd ≠ (s.queue m).head?
      · rw [if_neg c1, if_pos c2] at hp; exact absurd hp (by simp)
      · by_cases c3 : no ≠ (if (s.mutex m).contending then none else hd)
        · rw [if_neg c1, if_neg c2, if_pos c3] at hp; exact absurd hp (by simp)
        · simp only [ne_eq, Decidable.not_not] at c2 c3
          refine ⟨h.mem, h.nodup, ?_⟩
          intro m' t' to hc hm hop
          simp only [effMutexUnlock, upd] at hm hc ⊢
          split
          · next heq =>
            subst heq
            simp only [if_true] at hc
            rw [c3, hc, c2]
            simp only [Bool.false_eq_true, if_false]
            cases hq : s.queue m' with
            | nil => rw [hq] at hm; simp at hm
            | cons a r => simp
          · next hneq => simp only [hneq, if_false] at hc; exact h.held m' t' to hc hm hop
  case sleep t q dl =>
    simp only [pre, preSleep] at hp
    have hr : (s.th t).st = .run := by
      by_cases c : (s.th t).st = .run
      · exact c
      · rw [if_pos c] at hp; exact absurd hp (by simp)
    have hnq := not_in_queue_of_run s h t (by rw [hr]; simp)
    -- the queue/thread part of the effect
    have key : InvQ (match q with
        | some k => { (setTh s t { s.th t with st := .sleep, q := q, dl := dl, err := 0, intrSince := [] }) with
                      queue := upd s.queue k (s.queue k ++ [t]) }
        | none => setTh s t { s.th t with st := .sleep, q := q, dl := dl, err := 0, intrSince := [] }) := by
      cases q with
      | none =>
        constructor
        · intro k t' hm
          simp only [setTh, upd] at hm ⊢
          split
          · next heq => subst heq; exact absurd hm (hnq k)
          · exact h.mem k t' hm
        · exact h.nodup
        · intro m t' to hc hm hop
          simp only [setTh, upd] at hm hop ⊢
          split at hop
          · next heq => subst heq; exact absurd hm (hnq m)
          · exact h.held m t' to hc hm hop
      | some k =>
        constructor
        · intro k' t' hm
          simp only [setTh, upd] at hm ⊢
          by_cases hk : k' = k
          · subst hk
            simp only [if_true, List.mem_append, List.mem_singleton] at hm
            rcases hm with hm | hm
            · have := h.mem k' t' hm
              split
              · next heq => subst heq; exact absurd hm (hnq k')
              · exact this
            · subst hm; simp
          · simp only [hk, if_false] at hm
            split
            · next heq => subst heq; exact absurd hm (hnq k')
            · exact h.mem k' t' hm
        · intro k'
          simp only [upd]
          split
          · next heq => subst heq; exact List.nodup_append.mpr ⟨h.nodup _, by simp, by
              intro a ha b hb; simp at hb; subst hb; intro hab; subst hab; exact hnq _ ha⟩
          · exact h.nodup k'
        · intro m t' to hc hm hop
          simp only [setTh, upd] at hm hop ⊢
          by_cases htt : t' = t
          · subst htt
            simp only [if_true] at hop
            by_cases hk : m = k
            · subst hk
              -- the guard of `sleep`: parking inside lock(m) on m's queue requires an owner
              intro hown
              by_cases c2 : (!sleepDlOk (s.th t') s.now dl) = true
              · rw [if_neg (by rw [hr]; simp), if_pos c2] at hp; exact absurd hp (by simp)
              · rw [if_neg (by rw [hr]; simp), if_neg c2, hop] at hp
                simp only [parkGuard] at hp
                rw [if_pos ⟨trivial, hown⟩] at hp
                exact absurd hp (by simp)
            · simp only [hk, if_false] at hm; exact absurd hm (hnq m)
          · simp only [htt, if_false] at hop
            have hm' : t' ∈ s.queue m := by
              by_cases hk : m = k
              · subst hk; simp only [if_true, List.mem_append, List.mem_singleton] at hm
                rcases hm with hm | hm
                · exact hm
                · exact absurd hm htt
              · simp only [hk, if_false] at hm; exact hm
            exact h.held m t' to hc hm' hop
    cases q <;> exact ⟨key.mem, key.nodup, key.held⟩
  case wakeTimeout t =>
    exact wake_invQ s h t { s.th t with st := .run, q := none } rfl rfl rfl
  case wakeIntr t e by_ =>
    have h1 : InvQ (wokenState s t e) :=
      wake_invQ s h t { s.th t with st := .run, q := none, err := e, intrSince := (s.th t).intrSince ++ [e] } rfl rfl rfl
    rcases effWakeIntr_form s t e by_ with hf | hf <;> rw [hf]
    · exact h1
    · exact invQ_setTh_same _ h1 by_ _ rfl rfl (fun m to ho => Or.inl ho)

theorem invQ_congr (s s0 : St) (h : InvQ s) (h1 : s0.th = s.th) (h2 : s0.queue = s.queue)
    (h3 : s0.mutex = s.mutex) : InvQ s0 :=
  ⟨by rw [h1, h2]; exact h.mem, by rw [h2]; exact h.nodup, by rw [h1, h2, h3]; exact h.held⟩

theorem step_invQ (s s' : St) (e : Ev) (h : step s e = .ok s') (hi : InvQ s) : InvQ s' := by
  obtain ⟨s0, hth, _, _, hq, hm, _, _, hp, hs'⟩ := step_ok s s' e h
  rw [hs']; exact eff_invQ s0 e hp (invQ_congr s s0 hi hth hq hm)

theorem run_invQ : ∀ (tr : List Ev) (s s' : St), run s tr = .ok s' → InvQ s → InvQ s' := by
  intro tr; induction tr with
  | nil => intro s s' h hi; simp [run] at h; rw [← h]; exact hi
  | cons e es ih =>
    intro s s' h hi
    simp only [run] at h
    cases hs : step s e with
    | error m => rw [hs] at h; exact absurd h (by simp)
    | ok s1 => rw [hs] at h; exact ih s1 s' h (step_invQ s s1 e hs hi)

theorem reachable_invQ (s : St) (h : Reachable s) : InvQ s := by
  obtain ⟨tr, htr⟩ := h
  exact run_invQ tr {} s htr invQ_init

/-- **C01, the mutex is never left stuck.** In every reachable state (any number of threads and
    mutexes, timeouts and interrupts anywhere in the acquisition protocol): if a mutex is free, no
    thread is parked inside `lock()` on it — so a failed (timed-out or interrupted) lock leaves
    nothing behind, and a waiter can only be asleep while somebody owns the mutex. -/
theorem C01_not_stuck (s : St) (hr : Reachable s) (m : Nat) (hnc : (s.mutex m).contending = false)
    (hfree : (s.mutex m).owner = none)
    (t : Nat) (ht : t ∈ s.queue m) (to : Option Nat) : (s.th t).op ≠ .lock m to :=
  fun hop => (reachable_invQ s hr).held m t to hnc ht hop hfree

/-- a thread is in at most one wait queue, exactly while it sleeps there -/
theorem C01_queue_exact (s : St) (hr : Reachable s) (k t : Nat) (ht : t ∈ s.queue k) :
    (s.th t).st = .sleep ∧ (s.th t).q = some k ∧ (s.queue k).Nodup :=
  ⟨((reachable_invQ s hr).mem k t ht).1, ((reachable_invQ s hr).mem k t ht).2, (reachable_invQ s hr).nodup k⟩

/-- **C01, unlock hands the mutex to exactly one waiter.** The unlock event is accepted only when
    issued on behalf of the owner; the new owner is the head of the wait queue (nobody if it is
    empty), and the head's wake-up must be the very next event. -/
theorem C01_unlock_handoff (s s' : St) (m : Nat) (no hd : Option Nat) (b : Nat)
    (h : step s (.mutexUnlock m no hd b) = .ok s') :
    (s.mutex m).owner = some (unlocker s m b) ∧ hd = (s.queue m).head? ∧
    (s'.mutex m).owner = (if (s.mutex m).contending then none else hd) ∧ s'.handoff = hd := by
  have hch := step_ok s s' _ h
  obtain ⟨s0, hth, _, _, hq, hm, _, hdf, hp, hs'⟩ := hch
  simp only [pre, preMutexUnlock, hm, hq] at hp
  have hu : unlocker s0 m b = unlocker s m b := by simp [unlocker, hdf]
  rw [hu] at hp
  by_cases c1 : (s.mutex m).owner ≠ some (unlocker s m b)
  · rw [if_pos c1] at hp; exact absurd hp (by simp)
  · by_cases c2 : hd ≠ (s.queue m).head?
    · rw [if_neg c1, if_pos c2] at hp; exact absurd hp (by simp)
    · by_cases c3 : no ≠ (if (s.mutex m).contending then none else hd)
      · rw [if_neg c1, if_neg c2, if_pos c3] at hp; exact absurd hp (by simp)
      · simp only [ne_eq, Decidable.not_not] at c1 c2 c3
        rw [hs']
        refine ⟨c1, c2, ?_, rfl⟩
        simp [eff, effMutexUnlock, upd, c3]

theorem stepH_handoff_next (s s' : St) (e : Ev) (hd : Nat) (hh : s.handoff = some hd)
    (h : step.stepH s e = .ok s') : ∃ er b, e = .wakeIntr hd er b := by
  unfold step.stepH at h
  rw [hh] at h
  cases e
  case wakeIntr t er b =>
    simp only [] at h
    split at h
    · next heq => subst heq; exact ⟨er, b, rfl⟩
    · exact absurd h (by simp [fail])
  all_goals exact absurd h (by simp [fail])

theorem C01_handoff_next (s s' : St) (e : Ev) (hd : Nat) (hh : s.handoff = some hd)
    (h : step s e = .ok s') : ∃ er b, e = .wakeIntr hd er b := by
  unfold step at h
  split at h
  · split at h
    · exact stepH_handoff_next s s' _ hd hh h
    · exact absurd h (by simp [fail])
  · exact absurd h (by simp [fail])
  · exact stepH_handoff_next s s' _ hd hh h

/-! ### non-vacuity: three threads, a timeout racing a hand-off -/
example : (run {} [.create 1, .create 2, .create 3,
    .call 1 (.lock 7 none), .mutexTry 7 true 1, .retLock 1 7 0 0,
    .call 2 (.lock 7 (some 50)), .mutexTry 7 false 2, .mutexTry 7 false 2, .sleep 2 (some 7) (some 50),
    .call 3 (.lock 7 none), .mutexTry 7 false 3, .mutexTry 7 false 3, .sleep 3 (some 7) none,
    .tick 50, .wakeTimeout 2, .resume 2 0 0, .retLock 2 7 (-1) 110,
    .call 1 .other, .callUnlock 1 7, .mutexUnlock 7 (some 3) (some 3) 1, .wakeIntr 3 (-1) 1,
    .resume 3 (-1) (-1), .retLock 3 7 0 0]).isOk = true := by decide

end Photon.Sync
