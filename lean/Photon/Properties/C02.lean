import Photon.Model.SemLog
import Photon.Properties.C01
/-!
# C02 — Semaphore: tokens conserved, no lost wake-up

Model: `Photon/Model/Sync.lean`.
-/
namespace Photon.Sync

/-- tokens taken by successful subtractions + tokens in the semaphore = initial + signalled -/
def InvSem (s : St) : Prop :=
  ∀ sm, (s.sem sm).taken + (s.sem sm).count = (s.sem sm).initial + (s.sem sm).signalled

theorem invSem_of_sem (s s' : St) (h : InvSem s) (e : s'.sem = s.sem) : InvSem s' := by
  intro sm; rw [e]; exact h sm

theorem eff_invSem (s : St) (e : Ev) (hp : pre s e = none) (h : InvSem s) : InvSem (eff s e) := by
  cases e <;> simp only [eff]
  case semInit sm c io =>
    intro sm'; simp only [effSemInit, upd]; split
    · simp
    · exact h sm'
  case semAdd sm n cnt =>
    simp only [pre, preSemAdd] at hp
    have hc : cnt = (s.sem sm).count + n := by
      by_cases c : cnt ≠ (s.sem sm).count + n
      · rw [if_pos c] at hp; exact absurd hp (by simp)
      · simpa using c
    intro sm'; simp only [effSemAdd, upd]; split
    · next heq => subst heq; have := h sm'; simp only []; omega
    · exact h sm'
  case semSub sm n ok b =>
    simp only [pre, preSemSub] at hp
    cases ok with
    | false => exact invSem_of_sem _ _ h (by simp [effSemSub, setTh])
    | true =>
      have hle : n ≤ (s.sem sm).count := by
        by_cases c : n ≤ (s.sem sm).count
        · exact c
        · rw [if_pos (by simp [c])] at hp; exact absurd hp (by simp)
      intro sm'; simp only [effSemSub, if_true, setTh, upd]; split
      · next heq => subst heq; have := h sm'; simp only []; omega
      · exact h sm'
  case semResume sm d t =>
    intro sm'; simp only [effSemResume, upd]; split
    · next heq => subst heq; exact h sm'
    · exact h sm'
  case semPass sm c =>
    intro sm'; simp only [effSemPass, upd]; split
    · next heq => subst heq; exact h sm'
    · exact h sm'
  case sleep t q dl =>
    apply invSem_of_sem _ _ h
    cases q <;> simp [effSleep, enqueue, setTh]
  case intrNoSleep t st e b => apply invSem_of_sem _ _ h; simp only [effIntrNoSleep]; split <;> simp [setTh]
  case wakeTimeout t => apply invSem_of_sem _ _ h; simp only [effWakeTimeout, dequeue]; split <;> simp [setTh]
  case wakeIntr t e b =>
    have hw : (wokenState s t e).sem = s.sem := by simp only [wokenState, dequeue]; split <;> simp [setTh]
    apply invSem_of_sem _ _ h
    rcases effWakeIntr_form s t e b with hf | hf <;> rw [hf] <;> simp [setTh, hw]
  case mutexTry m ok t => apply invSem_of_sem _ _ h; simp only [effMutexTry]; split <;> rfl
  case retRwLock t rw w r => apply invSem_of_sem _ _ h; simp only [effRetRwLock]; split; simp [setTh]; split <;> simp [setTh]
  case callRwUnlock t rw => apply invSem_of_sem _ _ h; simp only [effCallRwUnlock]; split <;> rfl
  all_goals exact invSem_of_sem _ _ h (by first | rfl | simp [effCreate, effDie, effCall, effSetShutdown, effResume,
      effYield, effRet, effMutexUnlock, effMutexInit, effRwInit, setTh])

theorem step_invSem (s s' : St) (e : Ev) (h : step s e = .ok s') (hi : InvSem s) : InvSem s' := by
  obtain ⟨s0, _, _, _, _, _, hsem, _, hp, hs'⟩ := step_ok s s' e h
  rw [hs']; exact eff_invSem s0 e hp (invSem_of_sem s s0 hi hsem)

theorem run_invSem : ∀ (tr : List Ev) (s s' : St), run s tr = .ok s' → InvSem s → InvSem s' := by
  intro tr; induction tr with
  | nil => intro s s' h hi; simp [run] at h; rw [← h]; exact hi
  | cons e es ih =>
    intro s s' h hi
    simp only [run] at h
    cases hs : step s e with
    | error m => rw [hs] at h; exact absurd h (by simp)
    | ok s1 => rw [hs] at h; exact ih s1 s' h (step_invSem s s1 e hs hi)

/-- **C02, conservation.** In every reachable state, for every semaphore: tokens taken by
    successful subtractions plus tokens still in the semaphore equal the initial count plus
    everything signalled. -/
theorem C02_conservation (s : St) (hr : Reachable s) (sm : Nat) :
    (s.sem sm).taken + (s.sem sm).count = (s.sem sm).initial + (s.sem sm).signalled := by
  obtain ⟨tr, htr⟩ := hr
  exact run_invSem tr {} s htr (fun _ => rfl) sm

/-- **C02, a wait that fails takes nothing; one that succeeds has taken its tokens.** The return
    value of `wait`/`wait_interruptible` is 0 exactly when the caller's own last subtraction inside
    this call succeeded (a demand of 0 returns 0 without touching the count). -/
theorem C02_ret_matches_take (s s' : St) (t sm : Nat) (r e : Int) (h : step s (.retSemWait t sm r e) = .ok s') :
    (r ≠ 0 → (s.th t).subOk = false ∧ ¬ (s.queue sm).contains t) ∧
    (r = 0 → demandOf (s.th t) = 0 ∨ (s.th t).subOk = true) := by
  obtain ⟨s0, hth, _, _, hq, _, _, _, hp, _⟩ := step_ok s s' _ h
  simp only [pre, preRetSemWait, hth, hq] at hp
  by_cases c1 : r ≠ 0 ∧ (s.queue sm).contains t
  · rw [if_pos c1] at hp; exact absurd hp (by simp)
  · by_cases c2 : r = 0 ∧ demandOf (s.th t) ≠ 0 ∧ (s.th t).subOk = false
    · rw [if_neg c1, if_pos c2] at hp; exact absurd hp (by simp)
    · by_cases c3 : r ≠ 0 ∧ (s.th t).subOk = true
      · rw [if_neg c1, if_neg c2, if_pos c3] at hp; exact absurd hp (by simp)
      · refine ⟨fun hr => ⟨?_, fun hc => c1 ⟨hr, hc⟩⟩, fun hr => ?_⟩
        · cases hs : (s.th t).subOk with
          | false => rfl
          | true => exact absurd ⟨hr, hs⟩ c3
        · by_cases hd : demandOf (s.th t) = 0
          · exact Or.inl hd
          · right
            cases hs : (s.th t).subOk with
            | true => rfl
            | false => exact absurd ⟨hr, hd, hs⟩ c2

/-- the count changes only by `signal` (+n) and by a successful subtraction (−n, `n ≤ count`) -/
theorem C02_sub_guard (s s' : St) (sm n b : Nat) (ok : Bool) (h : step s (.semSub sm n ok b) = .ok s') :
    (ok = true ↔ n ≤ (s.sem sm).count) ∧ (s'.sem sm).count = (if ok then (s.sem sm).count - n else (s.sem sm).count) := by
  obtain ⟨s0, _, _, _, _, _, hsem, _, hp, hs'⟩ := step_ok s s' _ h
  simp only [pre, preSemSub, hsem] at hp
  have hk : ok = decide (n ≤ (s.sem sm).count) := by
    by_cases c : ok ≠ decide (n ≤ (s.sem sm).count)
    · rw [if_pos c] at hp; exact absurd hp (by simp)
    · simpa using c
  refine ⟨by rw [hk]; simp, ?_⟩
  rw [hs']
  cases ok with
  | false => simp [eff, effSemSub, setTh, hsem]
  | true => simp [eff, effSemSub, setTh, upd, hsem]

/-- **C02, no lost wake-up.** A quiescence point (every thread blocked) is accepted only if no
    registered semaphore has a parked waiter whose demand the count already covers — the head
    waiter in in-order mode, any waiter in out-of-order mode. -/
theorem C02_no_stuck_waiter (s s' : St) (h : step s .quiescent = .ok s') (sm : Nat) (inorder : Bool)
    (hreg : (sm, inorder) ∈ s.semIds) : stuckSem s sm inorder = false := by
  obtain ⟨hp, _⟩ := step_ok' s s' _ h
  simp only [pre, preQuiescent] at hp
  by_cases c1 : overdue (base s) ≠ []
  · rw [if_pos c1] at hp; exact absurd hp (by simp)
  · by_cases c2 : (base s).deferred.isSome = true
    · rw [if_neg c1, if_pos c2] at hp; exact absurd hp (by simp)
    · by_cases c3 : (base s).mutexIds.any (stuckMutex (base s)) = true
      · rw [if_neg c1, if_neg c2, if_pos c3] at hp; exact absurd hp (by simp)
      · by_cases c4 : (base s).semIds.any (fun p => stuckSem (base s) p.1 p.2) = true
        · rw [if_neg c1, if_neg c2, if_neg c3, if_pos c4] at hp; exact absurd hp (by simp)
        · cases hs : stuckSem s sm inorder with
          | false => rfl
          | true =>
            exfalso; apply c4
            rw [List.any_eq_true]
            exact ⟨(sm, inorder), hreg, hs⟩

/-- likewise a free registered mutex has no parked waiter at quiescence -/
theorem C01_no_stuck_at_quiescence (s s' : St) (h : step s .quiescent = .ok s') (m : Nat)
    (hreg : m ∈ s.mutexIds) : stuckMutex s m = false := by
  obtain ⟨hp, _⟩ := step_ok' s s' _ h
  simp only [pre, preQuiescent] at hp
  by_cases c1 : overdue (base s) ≠ []
  · rw [if_pos c1] at hp; exact absurd hp (by simp)
  · by_cases c2 : (base s).deferred.isSome = true
    · rw [if_neg c1, if_pos c2] at hp; exact absurd hp (by simp)
    · by_cases c3 : (base s).mutexIds.any (stuckMutex (base s)) = true
      · rw [if_neg c1, if_neg c2, if_pos c3] at hp; exact absurd hp (by simp)
      · cases hs : stuckMutex s m with
        | false => rfl
        | true =>
          exfalso; apply c3
          rw [List.any_eq_true]
          exact ⟨m, hreg, hs⟩

/-! ### non-vacuity: the F9 history (repaired in /repo) is what the quiescence guard rejects -/
-- W1 wait(3), W2 wait(1) park; signal(3) wakes W1 only; a fast-path wait(2) takes two tokens first;
-- W1 finds 1 < 3 and parks again behind W2 *without* re-running the resume pass: count 1 covers the
-- head waiter W2's demand 1, yet it stays parked. The acceptor refuses that quiescence point.
example : (run {} [.semInit 9 0 true, .create 1, .create 2, .create 3,
    .call 1 (.semwait 9 3 none false), .semSub 9 3 false 1, .sleep 1 (some 9) none,
    .call 2 (.semwait 9 1 none false), .semSub 9 1 false 2, .sleep 2 (some 9) none,
    .call 3 .other, .semAdd 9 3 3, .semPass 9 3, .semResume 9 3 1, .wakeIntr 1 (-1) 3,
    .call 3 (.semwait 9 2 none false), .semSub 9 2 true 3, .retSemWait 3 9 0 0,
    .resume 1 (-1) (-1), .semSub 9 3 false 1, .sleep 1 (some 9) none,
    .quiescent]).isOk = false := by decide
-- with the repair the woken waiter re-runs the pass before parking again, W2 is woken:
example : (run {} [.semInit 9 0 true, .create 1, .create 2, .create 3,
    .call 1 (.semwait 9 3 none false), .semSub 9 3 false 1, .sleep 1 (some 9) none,
    .call 2 (.semwait 9 1 none false), .semSub 9 1 false 2, .sleep 2 (some 9) none,
    .call 3 .other, .semAdd 9 3 3, .semPass 9 3, .semResume 9 3 1, .wakeIntr 1 (-1) 3,
    .call 3 (.semwait 9 2 none false), .semSub 9 2 true 3, .retSemWait 3 9 0 0,
    .resume 1 (-1) (-1), .semSub 9 3 false 1, .semPass 9 1, .semResume 9 1 2, .wakeIntr 2 (-1) 1,
    .sleep 1 (some 9) none, .resume 2 (-1) (-1), .semSub 9 1 true 2, .retSemWait 2 9 0 0,
    .quiescent]).isOk = true := by decide

end Photon.Sync

/-! ### several vCPUs: the token ledger of real concurrent runs (`Model/SemLog.lean`, harness `mv_sync`) -/
namespace Photon.SemLog

theorem step_ok (s s' : St) (e : Ev) (h : step s e = .ok s') : pre s e = none ∧ s' = eff s e := by
  unfold step at h
  cases hp : pre s e with
  | some m => rw [hp] at h; exact absurd h (by simp)
  | none => rw [hp] at h; exact ⟨rfl, by injection h with h; exact h.symm⟩

theorem run_inv (evs : List Ev) : ∀ (s s' : St), s.taken ≤ s.signalled → run s evs = .ok s' → s'.taken ≤ s'.signalled := by
  induction evs with
  | nil => intro s s' hi h; simp only [run] at h; injection h with h; subst h; exact hi
  | cons e es ih =>
    intro s s' hi h
    simp only [run] at h
    cases hs : step s e with
    | error m => rw [hs] at h; exact absurd h (by simp)
    | ok s1 =>
      rw [hs] at h
      obtain ⟨hp, he⟩ := step_ok s s1 e hs
      apply ih s1 s' _ h
      rw [he]
      cases e with
      | signal n => simp only [eff]; omega
      | late => exact hi
      | remaining n => exact hi
      | got n =>
        simp only [pre] at hp
        simp only [eff]
        by_cases c : s.taken + n ≤ s.signalled
        · exact c
        · rw [if_neg c] at hp; exact absurd hp (by simp)

/-- **C02 (several vCPUs), conservation.** In every accepted history of a concurrent run the tokens obtained by successful waits
    never exceed the tokens signalled before (no token is created), whatever vCPUs and OS threads signal and wait. -/
theorem C02_mv_conservation (evs : List Ev) (s : St) (h : run {} evs = .ok s) : s.taken ≤ s.signalled :=
  run_inv evs {} s (Nat.le_refl _) h

/-- **C02, safe to destroy after wait.** No accepted history contains a write to a semaphore that its waiter destroyed after
    `wait()` returned. -/
theorem C02_mv_no_late_write (s s' : St) : step s .late ≠ .ok s' := by
  intro h; obtain ⟨hp, _⟩ := step_ok s s' _ h; simp [pre] at hp

/-- **C02 (several vCPUs), exact accounting at rest.** When the harness reports the semaphore's count with nobody inside it, the
    report is accepted only if tokens taken + tokens left = tokens signalled (a failed wait took nothing, nothing was lost). -/
theorem C02_mv_balance (s s' : St) (n : Nat) (h : step s (.remaining n) = .ok s') : s.taken + n = s.signalled := by
  obtain ⟨hp, _⟩ := step_ok s s' _ h
  simp only [pre] at hp
  by_cases c : s.taken + n = s.signalled
  · exact c
  · rw [if_neg c] at hp; exact absurd hp (by simp)

example : (run {} [.signal 2, .got 1, .signal 1, .got 2]).isOk = true := by decide
example : (run {} [.signal 3, .got 1, .remaining 1]).isOk = false := by decide
example : (run {} [.signal 1, .got 2]).isOk = false := by decide

end Photon.SemLog
