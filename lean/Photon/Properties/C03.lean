import Photon.Properties.C02
/-!
# C03 — Condition variable: release-and-wait is atomic, notifications are not lost

Model: `Photon/Model/Sync.lean`.
-/
namespace Photon.Sync

/-- **C03, release-and-wait is one step.** Once a condition-variable wait has enqueued its thread
    (`deferred = some (t, m)`), the only event the acceptor takes next is the unlock of that very
    mutex `m` — no other thread can run, acquire `m`, or notify in between; and that unlock is
    attributed to the waiter `t`, who must still own `m`. -/
theorem C03_atomic_release (s s' : St) (e : Ev) (t m : Nat) (hd : s.deferred = some (t, m))
    (h : step s e = .ok s') :
    ∃ no hd' b, e = .mutexUnlock m no hd' b ∧ (s.mutex m).owner = some t ∧ s'.deferred = none := by
  unfold step at h
  rw [hd] at h
  cases e
  case mutexUnlock m' no hd' b =>
    simp only [] at h
    split at h
    · next heq =>
      subst heq
      obtain ⟨hp, hs'⟩ := stepH_ok _ _ _ h
      refine ⟨no, hd', b, rfl, ?_, ?_⟩
      · simp only [pre, preMutexUnlock] at hp
        have hu : unlocker (base s) m b = t := by simp [unlocker, base, hd]
        rw [hu] at hp
        by_cases c : ((base s).mutex m).owner ≠ some t
        · rw [if_pos c] at hp; exact absurd hp (by simp)
        · simpa [base] using c
      · rw [hs']; simp [eff, effMutexUnlock, base, hd]
    · exact absurd h (by simp [fail])
  all_goals exact absurd h (by simp [fail])

/-- the waiter is already in the condition variable's queue at that moment -/
theorem C03_enqueued_before_release (s : St) (t : Nat) (q dl : Option Nat) (c m : Nat) (to : Option Nat)
    (hop : (s.th t).op = .cvwait c m to) :
    (eff s (.sleep t (some c) dl)).deferred = some (t, m) ∧ t ∈ (eff s (.sleep t (some c) dl)).queue c := by
  simp only [eff, effSleep, deferredOf, hop, enqueue]
  exact ⟨by simp, by simp [setTh, upd]⟩

/-- **C03, notify_one wakes exactly the head waiter (none only if there is none); notify_all wakes
    everybody who was waiting.** -/
theorem C03_notify_count (s s' : St) (t c : Nat) (r : Int) (all : Bool) (h : step s (.retNotify t c r all) = .ok s') :
    (s.th t).nWoken = (if all then (s.th t).nExpect else (if (s.th t).nExpect = 0 then 0 else 1)) ∧
    r = ((s.th t).nWoken : Int) := by
  obtain ⟨hp, _⟩ := step_ok' s s' _ h
  simp only [pre, preRetNotify] at hp
  have hb : (base s).th = s.th := rfl
  rw [hb] at hp
  by_cases c1 : (s.th t).nWoken ≠ (if all then (s.th t).nExpect else (if (s.th t).nExpect = 0 then 0 else 1))
  · rw [if_pos c1] at hp; exact absurd hp (by simp)
  · simp only [ne_eq, Decidable.not_not] at c1
    by_cases c2 : r ≠ ((if all then (s.th t).nExpect else (if (s.th t).nExpect = 0 then 0 else 1) : Nat) : Int)
    · rw [if_neg (by simpa using c1), if_pos c2] at hp; exact absurd hp (by simp)
    · simp only [ne_eq, Decidable.not_not] at c2
      exact ⟨c1, by rw [c2, c1]⟩

/-- a notifier only ever wakes the head of the condition variable's queue -/
theorem C03_notify_wakes_head (s s' : St) (t : Nat) (e : Int) (b c : Nat) (all : Bool)
    (h : step s (.wakeIntr t e b) = .ok s') (hn : notifies s b t = some (c, all)) :
    (s.queue c).head? = some t := by
  obtain ⟨hp, _⟩ := step_ok' s s' _ h
  simp only [pre, preWakeIntr] at hp
  have hb : notifies (base s) b t = notifies s b t := rfl
  have hq : (base s).queue = s.queue := rfl
  have ht : (base s).th = s.th := rfl
  rw [hb, hn, hq, ht] at hp
  by_cases c1 : (s.th t).st ≠ .sleep
  · rw [if_pos c1] at hp; exact absurd hp (by simp)
  · rw [if_neg c1] at hp
    simp only at hp
    by_cases c2 : (s.queue c).head? ≠ some t
    · rw [if_pos c2] at hp; exact absurd hp (by simp)
    · simpa using c2

/-- **C03, wait() returns with the lock held, and its result is the translation of how the waiter
    was woken**: 0 iff it was notified, −1/ETIMEDOUT iff its sleep timed out (which, by C04, happens
    only at or after the deadline), −1/errno of the interrupter otherwise. -/
theorem C03_wait_ret (s s' : St) (t c m : Nat) (r e : Int) (h : step s (.retCvWait t c m r e) = .ok s') :
    (s.mutex m).owner = some t ∧ (r, if r < 0 then e else 0) = translate (s.th t).lastResume := by
  obtain ⟨hp, _⟩ := step_ok' s s' _ h
  simp only [pre, preRetCvWait] at hp
  have hm : (base s).mutex = s.mutex := rfl
  have ht : (base s).th = s.th := rfl
  rw [hm, ht] at hp
  by_cases c1 : (s.mutex m).owner ≠ some t
  · rw [if_pos c1] at hp; exact absurd hp (by simp)
  · by_cases c2 : (r, if r < 0 then e else 0) ≠ translate (s.th t).lastResume
    · rw [if_neg c1, if_pos c2] at hp; exact absurd hp (by simp)
    · exact ⟨by simpa using c1, by simpa using c2⟩

theorem translate_spec (lr : Int × Int) :
    (translate lr = (0, 0) ↔ lr.1 ≠ 0 ∧ lr.2 = NOTIFIED) ∧
    (translate lr = (-1, ETIMEDOUT) ↔ lr.1 = 0 ∨ (lr.1 ≠ 0 ∧ lr.2 = ETIMEDOUT)) := by
  unfold translate NOTIFIED ETIMEDOUT
  by_cases h1 : lr.1 = 0
  · simp [h1]
  · by_cases h2 : lr.2 = -1
    · simp [h1, h2]
    · simp [h1, h2]

/-! ### non-vacuity: waiter, notifier with the lock, return with the lock held -/
example : (run {} [.mutexInit 5 false, .create 1, .create 2,
    .call 1 (.lock 5 none), .mutexTry 5 true 1, .retLock 1 5 0 0,
    .call 1 (.cvwait 6 5 none), .sleep 1 (some 6) none, .mutexUnlock 5 none none 2,
    .call 2 (.lock 5 none), .mutexTry 5 true 2, .retLock 2 5 0 0,
    .call 2 (.notify 6 false), .wakeIntr 1 (-1) 2, .retNotify 2 6 1 false,
    .call 2 .other, .callUnlock 2 5, .mutexUnlock 5 none none 2,
    .resume 1 (-1) (-1), .mutexTry 5 true 1, .retCvWait 1 6 5 0 0]).isOk = true := by decide

end Photon.Sync
