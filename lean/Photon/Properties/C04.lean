import Photon.Model.IntrLog
import Photon.Model.Sync
/-!
# C04 — Sleep, timeout and interrupt: exact wake-up contract of the scheduler

Model: `Photon/Model/Sync.lean` (acceptor of the real runtime's hook/API event traces).
-/
namespace Photon.Sync

theorem stepCore_ok (s s' : St) (e : Ev) (h : stepCore s e = .ok s') : pre s e = none ∧ s' = eff s e := by
  unfold stepCore at h
  cases hp : pre s e with
  | some m => rw [hp] at h; exact absurd h (by simp)
  | none => rw [hp] at h; exact ⟨rfl, by injection h with h; exact h.symm⟩

/-- a timeout wake-up happens only at or after the sleeper's deadline -/
theorem C04_timeout_after_deadline (s s' : St) (t : Nat) (h : stepCore s (.wakeTimeout t) = .ok s') :
    ∃ d, (s.th t).dl = some d ∧ d ≤ s.now ∧ (s.th t).st = .sleep := by
  obtain ⟨hp, _⟩ := stepCore_ok s s' _ h
  simp only [pre, preWakeTimeout] at hp
  split at hp
  · exact absurd hp (by simp)
  · next hst =>
    cases hd : (s.th t).dl with
    | none => simp [hd] at hp
    | some d =>
      simp only [hd] at hp
      split at hp
      · exact absurd hp (by simp)
      · next hlt => exact ⟨d, rfl, by omega, by simpa using hst⟩

/-- the state an accepted event is evaluated in: `s` with the hand-off marker cleared -/
def base (s : St) : St := { s with handoff := none }

theorem base_eq (s : St) (h : s.handoff = none) : base s = s := by
  cases s; simp only [base] at *; subst h; rfl

theorem stepH_ok (s s' : St) (e : Ev) (h : step.stepH s e = .ok s') : pre (base s) e = none ∧ s' = eff (base s) e := by
  unfold step.stepH at h
  split at h
  · split at h
    · exact stepCore_ok _ _ _ h
    · exact absurd h (by simp [fail])
  · exact absurd h (by simp [fail])
  · next hn => rw [base_eq s hn]; exact stepCore_ok _ _ _ h

/-- every accepted event passed its guard and had its effect, on `base s` -/
theorem step_ok' (s s' : St) (e : Ev) (h : step s e = .ok s') : pre (base s) e = none ∧ s' = eff (base s) e := by
  unfold step at h
  split at h
  · split at h
    · exact stepH_ok _ _ _ h
    · exact absurd h (by simp [fail])
  · exact absurd h (by simp [fail])
  · exact stepH_ok _ _ _ h

/-- `step` = `stepCore` on the state with a completed hand-off -/
theorem step_ok (s s' : St) (e : Ev) (h : step s e = .ok s') :
    ∃ s0, s0.th = s.th ∧ s0.now = s.now ∧ s0.tids = s.tids ∧ s0.queue = s.queue ∧ s0.mutex = s.mutex ∧
      s0.sem = s.sem ∧ s0.deferred = s.deferred ∧ pre s0 e = none ∧ s' = eff s0 e := by
  obtain ⟨h1, h2⟩ := step_ok' s s' e h
  exact ⟨base s, rfl, rfl, rfl, rfl, rfl, rfl, rfl, h1, h2⟩

/-- the two shapes of the effect of an interrupt wake-up: the woken thread leaves its queue; if the
    waker is inside `notify` on that queue its wake counter is bumped as well -/
def wokenState (s : St) (t : Nat) (e : Int) : St :=
  dequeue (setTh s t { s.th t with st := .run, q := none, err := e, intrSince := (s.th t).intrSince ++ [e] }) t (s.th t).q

theorem effWakeIntr_form (s : St) (t : Nat) (e : Int) (b : Nat) :
    effWakeIntr s t e b = wokenState s t e ∨
    effWakeIntr s t e b = setTh (wokenState s t e) b
      { (wokenState s t e).th b with nWoken := ((wokenState s t e).th b).nWoken + 1 } := by
  unfold effWakeIntr wokenState
  split
  · split
    · exact Or.inl rfl
    · exact Or.inr rfl
  · exact Or.inl rfl

/-! ### the pending wake-up reason always comes from an interrupt inside the current sleep/yield -/

/-- if a thread has a pending wake-up reason, it is the errno of the last interrupt that reached it
    since its current sleep or yield began -/
def Good (x : Th) : Prop := x.err ≠ 0 → x.intrSince.getLast? = some x.err
def InvErr (s : St) : Prop := ∀ t, Good (s.th t)

theorem good_default : Good {} := by intro h; exact absurd rfl h

theorem inv_setTh (s : St) (t : Nat) (x : Th) (h : InvErr s) (hx : Good x) : InvErr (setTh s t x) := by
  intro t'; simp only [setTh, upd]; split
  · exact hx
  · exact h t'

theorem inv_of_th (s s' : St) (h : InvErr s) (e : s'.th = s.th) : InvErr s' := by
  intro t; rw [e]; exact h t

theorem dequeue_th (s : St) (t : Nat) (q : Option Nat) : (dequeue s t q).th = s.th := by
  unfold dequeue; split <;> rfl

theorem eff_inv (s : St) (e : Ev) (h : InvErr s) : InvErr (eff s e) := by
  cases e <;> simp only [eff]
  case create t =>
    intro t'; simp only [effCreate, upd]; split
    · exact good_default
    · exact h t'
  case die t => exact inv_setTh _ _ _ h (fun hx => h t hx)
  case call t op => exact inv_setTh _ _ _ h (fun hx => h t hx)
  case setShutdown t => exact inv_setTh _ _ _ h (fun hx => h t hx)
  case sleep t q dl =>
    have h1 : InvErr (setTh s t { s.th t with st := .sleep, q := q, dl := dl, err := 0, intrSince := [] }) :=
      inv_setTh _ _ _ h (fun hx => absurd rfl hx)
    apply inv_of_th _ _ h1
    cases q <;> rfl
  case wakeTimeout t =>
    have h1 : InvErr (setTh s t { s.th t with st := .run, q := none }) := inv_setTh s t _ h (fun hx => h t hx)
    exact inv_of_th _ _ h1 (by simp only [effWakeTimeout, dequeue_th])
  case wakeIntr t e by_ =>
    have h1 : InvErr (wokenState s t e) :=
      inv_of_th _ _ (inv_setTh s t { s.th t with st := .run, q := none, err := e, intrSince := (s.th t).intrSince ++ [e] } h
        (fun _ => by simp)) (by simp only [wokenState, dequeue_th])
    rcases effWakeIntr_form s t e by_ with hf | hf <;> rw [hf]
    · exact h1
    · exact inv_setTh _ _ _ h1 (fun hx => h1 by_ hx)
  case intrNoSleep t stored e by_ =>
    unfold effIntrNoSleep
    split
    · exact inv_setTh _ _ _ h (fun _ => by simp)
    · exact h
  case resume t r e => exact inv_setTh _ _ _ h (fun hx => absurd rfl hx)
  case yield t => exact inv_setTh _ _ _ h (fun hx => absurd rfl hx)
  case yieldRet t r => exact h
  case retSleep t r e => exact inv_setTh _ _ _ h (fun hx => h t hx)
  case retYield t r => exact inv_setTh _ _ _ h (fun hx => h t hx)
  case retLock t m r e => exact inv_setTh _ _ _ h (fun hx => h t hx)
  case retTryLock t m r => exact inv_setTh _ _ _ h (fun hx => h t hx)
  case retSemWait t sm r e => exact inv_setTh _ _ _ h (fun hx => h t hx)
  case retCvWait t c m r e => exact inv_setTh _ _ _ h (fun hx => h t hx)
  case mutexTry m ok t => unfold effMutexTry; split <;> exact h
  case mutexUnlock m no hd by_ => exact h
  case callUnlock t m => exact h
  case semInit sm c io => exact h
  case mutexInit m => exact h
  case rwInit rw cv => exact h
  case retRwLock t rw w r =>
    have h1 : InvErr (setTh s t { s.th t with op := .none }) := inv_setTh s t _ h (fun hx => h t hx)
    simp only [effRetRwLock]; split
    · exact h1
    · split <;> exact inv_of_th _ _ h1 rfl
  case callRwUnlock t rw => simp only [effCallRwUnlock]; split <;> exact inv_of_th _ _ h rfl
  case semAdd sm n c => exact h
  case semSub sm n ok by_ =>
    have h1 : InvErr (setTh s by_ { s.th by_ with subOk := ok }) := inv_setTh s by_ _ h (fun hx => h by_ hx)
    unfold effSemSub; split <;> exact inv_of_th _ _ h1 rfl
  case semResume sm d t => exact h
  case semPass sm c => exact h
  case callNotify t c => exact h
  case retNotify t c r a => exact inv_setTh _ _ _ h (fun hx => h t hx)
  case tick n => exact h
  case quiescent => exact h

theorem step_inv (s s' : St) (e : Ev) (h : step s e = .ok s') (hi : InvErr s) : InvErr s' := by
  obtain ⟨s0, hth, _, _, _, _, _, _, _, hs'⟩ := step_ok s s' e h
  rw [hs']; exact eff_inv s0 e (inv_of_th s s0 hi hth)

theorem run_inv : ∀ (tr : List Ev) (s s' : St), run s tr = .ok s' → InvErr s → InvErr s' := by
  intro tr; induction tr with
  | nil => intro s s' h hi; simp [run] at h; rw [← h]; exact hi
  | cons e es ih =>
    intro s s' h hi
    simp only [run] at h
    cases hs : step s e with
    | error m => rw [hs] at h; exact absurd h (by simp)
    | ok s1 => rw [hs] at h; exact ih s1 s' h (step_inv s s1 e hs hi)

theorem reachable_inv (s : St) (h : Reachable s) : InvErr s := by
  obtain ⟨tr, htr⟩ := h
  exact run_inv tr {} s htr (fun _ => good_default)

/-- **C04, interrupts are reported exactly.** In every reachable state, if a sleep returns −1 then
    its errno is the errno of an interrupt that reached the thread *after this sleep began*
    (`intrSince` is emptied by the `sleep` event itself): never a stale one, never an invented one. -/
theorem C04_intr_exact (s s' : St) (t : Nat) (r e : Int) (hr : Reachable s)
    (h : step s (.resume t r e) = .ok s') (hne : r ≠ 0) :
    r = -1 ∧ e ∈ (s.th t).intrSince := by
  obtain ⟨s0, hth, _, _, _, _, _, _, hp, _⟩ := step_ok s s' _ h
  have hg := reachable_inv s hr t
  simp only [pre, preResume, hth] at hp
  by_cases hst : (s.th t).st ≠ .run
  · simp [hst] at hp
  · simp only [hst, if_false] at hp
    by_cases hx : (r, if r < 0 then e else 0) ≠ (if (s.th t).err = 0 then ((0 : Int), (0 : Int)) else (-1, (s.th t).err))
    · simp [hx] at hp
    · simp only [ne_eq, Decidable.not_not] at hx
      by_cases he0 : (s.th t).err = 0
      · simp only [he0, if_true] at hx
        exact absurd (Prod.mk.inj hx).1 hne
      · simp only [he0, if_false] at hx
        obtain ⟨h1, h2⟩ := Prod.mk.inj hx
        subst h1
        simp at h2
        exact ⟨rfl, by rw [h2]; exact List.mem_of_getLast? (hg he0)⟩

/-- the same for `thread_yield`: a non-zero return value is the errno of an interrupt that arrived
    during this yield -/
theorem C04_yield_intr_exact (s s' : St) (t : Nat) (r : Int) (hr : Reachable s)
    (h : step s (.yieldRet t r) = .ok s') (hne : r ≠ 0) : r ∈ (s.th t).intrSince := by
  obtain ⟨s0, hth, _, _, _, _, _, _, hp, _⟩ := step_ok s s' _ h
  have hg := reachable_inv s hr t
  simp only [pre, preYieldRet, hth] at hp
  split at hp
  · exact absurd hp (by simp)
  · next hx =>
    simp only [ne_eq, Decidable.not_not] at hx
    have he0 : (s.th t).err ≠ 0 := by rw [← hx]; exact hne
    rw [hx]; exact List.mem_of_getLast? (hg he0)

/-- the window really starts at the sleep / yield: both events empty `intrSince` and clear the
    pending reason, so nothing that happened before can be reported by this sleep -/
theorem C04_window_reset (s : St) (t : Nat) (q dl : Option Nat) :
    ((eff s (.sleep t q dl)).th t).intrSince = [] ∧ ((eff s (.sleep t q dl)).th t).err = 0 ∧
    ((eff s (.yield t)).th t).intrSince = [] ∧ ((eff s (.yield t)).th t).err = 0 := by
  refine ⟨?_, ?_, by simp [eff, effYield, setTh, upd], by simp [eff, effYield, setTh, upd]⟩
  · cases q <;> simp [eff, effSleep, enqueue, setTh, upd]
  · cases q <;> simp [eff, effSleep, enqueue, setTh, upd]

/-- **C04, one interrupt ends at most one sleep.** Reporting a reason consumes it: after the
    return the pending reason is 0, and only an interrupt event can make it non-zero again. -/
theorem C04_delivery_consumes (s s' : St) (t : Nat) (r e : Int) (h : step s (.resume t r e) = .ok s') :
    (s'.th t).err = 0 := by
  obtain ⟨s0, _, _, _, _, _, _, _, _, hs'⟩ := step_ok s s' _ h
  rw [hs']; simp [eff, effResume, setTh, upd]

theorem C04_reason_only_from_interrupt (s s' : St) (ev : Ev) (t : Nat) (h : step s ev = .ok s')
    (h0 : (s.th t).err = 0) (h1 : (s'.th t).err ≠ 0) :
    (∃ e b, ev = .wakeIntr t e b) ∨ (∃ e b, ev = .intrNoSleep t true e b) := by
  obtain ⟨s0, hth, g1, g2, g3, g4, g5, g6, g7, hs'⟩ := step_ok s s' _ h
  rw [hs'] at h1
  rw [← hth] at h0
  clear g1 g2 g3 g4 g5 g6 g7 hs' h hth
  cases ev <;> simp only [eff] at h1
  case wakeIntr t' e b =>
    by_cases htt : t' = t
    · subst htt; exact Or.inl ⟨e, b, rfl⟩
    · exfalso; apply h1
      have hw : ((wokenState s0 t' e).th t).err = 0 := by
        simp only [wokenState, dequeue_th, setTh, upd]; rw [if_neg (Ne.symm htt)]; exact h0
      rcases effWakeIntr_form s0 t' e b with hf | hf <;> rw [hf]
      · exact hw
      · simp only [setTh, upd]; split
        · next hh => subst hh; exact hw
        · exact hw
  case intrNoSleep t' stored e b =>
    by_cases htt : t' = t
    · subst htt
      cases stored with
      | true => exact Or.inr ⟨e, b, rfl⟩
      | false => exfalso; apply h1; simp [effIntrNoSleep]; exact h0
    · exfalso; apply h1; simp only [effIntrNoSleep]; split
      · simp only [setTh, upd]; rw [if_neg (Ne.symm htt)]; exact h0
      · exact h0
  all_goals (exfalso; apply h1)
  case create t' =>
    simp only [effCreate, upd]; split
    · rfl
    · exact h0
  case sleep t' q dl =>
    cases q <;> (simp only [effSleep, enqueue, setTh, upd]; split <;> first | rfl | exact h0)
  case wakeTimeout t' =>
    simp only [effWakeTimeout, dequeue_th, setTh, upd]; split
    · next hh => subst hh; exact h0
    · exact h0
  case mutexTry m ok t' => simp only [effMutexTry]; split <;> exact h0
  case retRwLock t' rw w r =>
    simp only [effRetRwLock]; split
    · simp only [setTh, upd]; split <;> first | exact h0 | (next hh => subst hh; exact h0)
    · split <;> (simp only [setTh, upd]; split <;> first | exact h0 | (next hh => subst hh; exact h0))
  case callRwUnlock t' rw => simp only [effCallRwUnlock]; split <;> exact h0
  case semSub sm n ok b =>
    simp only [effSemSub]; split <;> (simp only [setTh, upd]; split <;> first | exact h0 | (next hh => subst hh; exact h0))
  all_goals first
    | exact h0
    | (simp only [effDie, effCall, effSetShutdown, effResume, effYield, effRet, setTh, upd]; split
       · next hh => first | (subst hh; exact h0) | rfl
       · exact h0)

/-- **C04, sleep returning 0 has slept the requested time.** -/
theorem C04_sleep_ret0_elapsed (s s' : St) (t us : Nat) (e : Int)
    (h : step s (.retSleep t 0 e) = .ok s') (hop : (s.th t).op = .sleep (some us)) :
    (s.th t).callAt + us ≤ s.now := by
  obtain ⟨s0, hth, hnow, _, _, _, _, _, hp, _⟩ := step_ok s s' _ h
  simp only [pre, preRetSleep, hth, hnow, hop] at hp
  by_cases hle : (s.th t).callAt + us ≤ s.now
  · exact hle
  · exfalso
    split at hp
    · exact absurd hp (by simp)
    · simp [hle] at hp

/-- **C04, a shut-down thread cannot block longer than the documented bound.** If the thread was
    marked by `thread_shutdown()` before the call, a sleep that could block returns within 10 ms
    of virtual time, and never with 0. -/
theorem C04_shutdown_bound (s s' : St) (t : Nat) (r e : Int)
    (h : step s (.retSleep t r e) = .ok s') (hsd : (s.th t).shutAtCall = true) :
    s.now ≤ (s.th t).callAt + 10000 := by
  obtain ⟨s0, hth, hnow, _, _, _, _, _, hp, _⟩ := step_ok s s' _ h
  simp only [pre, preRetSleep, hth, hnow] at hp
  by_cases hb : s.now ≤ (s.th t).callAt + 10000
  · exact hb
  · exfalso
    rw [if_pos ⟨hsd, hb⟩] at hp
    exact absurd hp (by simp)

/-- **C04, nobody is left sleeping past its deadline.** A quiescence point is accepted only if
    every sleeping thread's deadline is still in the future. -/
theorem C04_no_overdue_sleeper (s s' : St) (h : step s .quiescent = .ok s') (t : Nat) (ht : t ∈ s.tids)
    (hst : (s.th t).st = .sleep) (d : Nat) (hd : (s.th t).dl = some d) : s.now < d := by
  obtain ⟨s0, hth, hnow, htid, _, _, _, _, hp, _⟩ := step_ok s s' _ h
  simp only [pre, preQuiescent] at hp
  split at hp
  · exact absurd hp (by simp)
  · next hx =>
    simp only [ne_eq, Decidable.not_not] at hx
    have : t ∉ overdue s0 := by rw [hx]; simp
    simp only [overdue, htid, hth, hnow, List.mem_filter, ht, hst, hd, true_and, decide_true,
      Bool.true_and, decide_eq_true_eq] at this
    omega

/-! ### non-vacuity: a concrete accepted trace with an interrupt cutting a sleep short -/
example : (run {} [.create 1, .create 2, .call 1 (.sleep (some 100)), .sleep 1 none (some 100),
    .call 2 .other, .wakeIntr 1 4 2, .resume 1 (-1) 4, .retSleep 1 (-1) 4]).isOk = true := by
  decide

end Photon.Sync

/-! ### several vCPUs: the interrupt ledger of real concurrent runs (`Model/IntrLog.lean`, harness `mv_sync intrrace`) -/
namespace Photon.IntrLog

theorem step_ok (s s' : St) (e : Ev) (h : step s e = .ok s') : pre s e = none ∧ s' = eff s e := by
  unfold step at h
  cases hp : pre s e with
  | some m => rw [hp] at h; exact absurd h (by simp)
  | none => rw [hp] at h; exact ⟨rfl, by injection h with h; exact h.symm⟩

theorem run_inv (evs : List Ev) : ∀ (s s' : St), s.delivered ≤ s.issued → run s evs = .ok s' → s'.delivered ≤ s'.issued := by
  induction evs with
  | nil => intro s s' hi h; simp only [run] at h; injection h with h; subst h; exact hi
  | cons e es ih =>
    intro s s' hi h
    simp only [run] at h
    cases hs : step s e with
    | error m => rw [hs] at h; exact absurd h (by simp)
    | ok s1 =>
      rw [hs] at h
      obtain ⟨hp, he⟩ := step_ok s s1 e hs
      apply ih s1 s' _ h
      rw [he]
      cases e with
      | issued => simp only [eff]; omega
      | stale => exact hi
      | wrongResult => exact hi
      | delivered =>
        simp only [pre] at hp
        simp only [eff]
        by_cases c : s.delivered + 1 ≤ s.issued
        · exact c
        · rw [if_neg c] at hp; exact absurd hp (by simp)

/-- **C04 (several vCPUs), never invented.** In every accepted history of a concurrent run the interrupts reported by sleeps
    never outnumber the interrupts issued before. -/
theorem C04_mv_never_invented (evs : List Ev) (s : St) (h : run {} evs = .ok s) : s.delivered ≤ s.issued :=
  run_inv evs {} s (Nat.le_refl _) h

/-- **C04 (several vCPUs), never stale.** No accepted history contains a sleep that was cut short by an interrupt issued
    for an earlier sleep of the thread, nor a sleep with any other result than 0 or the interrupter's errno. -/
theorem C04_mv_never_stale (s s' : St) : step s .stale ≠ .ok s' ∧ step s .wrongResult ≠ .ok s' := by
  constructor <;> (intro h; obtain ⟨hp, _⟩ := step_ok s s' _ h; simp [pre] at hp)

example : (run {} [.issued, .delivered, .issued, .issued, .delivered]).isOk = true := by decide
example : (run {} [.issued, .delivered, .delivered]).isOk = false := by decide

end Photon.IntrLog
