import Photon.Model.Life
/-!
# C05 — thread lifecycle: each thread runs once, on one vCPU at a time, join is exact

Theorems about the lifecycle automaton `Photon.Life` that the multi-vCPU harness' event log (in global stamp order)
must be accepted by (`checks/c05.py`).
-/
namespace Photon.Life

theorem step_ok (s s' : St) (e : Ev) (h : step s e = .ok s') : pre s e = none ∧ s' = eff s e := by
  unfold step at h
  split at h
  · exact absurd h (by simp)
  · next hp => exact ⟨hp, by injection h with h; exact h.symm⟩

/-- the entry function of a thread is entered 0 times while it is not yet begun, exactly once afterwards -/
def expectBegun : Phase → Nat
  | .none => 0
  | .created => 0
  | _ => 1
def Inv (s : St) : Prop := ∀ t, s.begun t = expectBegun (s.ph t)

theorem inv_init : Inv {} := by intro t; rfl

theorem ph_of_pre {s : St} {t : Nat} {p : Phase} {m : String}
    (hp : (if s.ph t ≠ p then some m else none) = none) : s.ph t = p := by
  by_cases c : s.ph t = p
  · exact c
  · rw [if_pos c] at hp; exact absurd hp (by simp)

theorem eff_inv (s : St) (e : Ev) (hp : pre s e = none) (h : Inv s) : Inv (eff s e) := by
  intro t'
  have ht := h t'
  cases e <;> simp only [eff]
  case create t =>
    simp only [pre] at hp
    have hph := ph_of_pre hp
    by_cases c : t' = t
    · subst c; simp only [upd, if_true]; rw [ht, hph]; rfl
    · simp only [upd, if_neg c]; exact ht
  case begin_ t v =>
    simp only [pre] at hp
    have hph := ph_of_pre hp
    by_cases c : t' = t
    · subst c; simp only [upd, if_true]; rw [ht, hph]; rfl
    · simp only [upd, if_neg c]; exact ht
  case leave t v =>
    simp only [pre] at hp
    have hph := ph_of_pre hp
    by_cases c : t' = t
    · subst c; simp only [upd, if_true]; rw [ht, hph]; rfl
    · simp only [upd, if_neg c]; exact ht
  case enter t v =>
    simp only [pre] at hp
    have hph := ph_of_pre hp
    by_cases c : t' = t
    · subst c; simp only [upd, if_true]; rw [ht, hph]; rfl
    · simp only [upd, if_neg c]; exact ht
  case end_ t v val =>
    simp only [pre] at hp
    have hph := ph_of_pre hp
    by_cases c : t' = t
    · subst c; simp only [upd, if_true]; rw [ht, hph]; rfl
    · simp only [upd, if_neg c]; exact ht
  case joined t val =>
    by_cases c : t' = t
    · subst c
      simp only [upd, if_true]
      simp only [pre] at hp
      cases hph : s.ph t' with
      | ended w => rw [ht, hph]; rfl
      | none => rw [hph] at hp; simp at hp
      | created => rw [hph] at hp; simp at hp
      | running v => rw [hph] at hp; simp at hp
      | outside => rw [hph] at hp; simp at hp
      | joined w => rw [hph] at hp; simp at hp
    · simp only [upd, if_neg c]; exact ht
  all_goals exact ht

theorem run_inv (s s' : St) (evs : List Ev) (h : Inv s) (hr : run s evs = .ok s') : Inv s' := by
  induction evs generalizing s with
  | nil => simp only [run] at hr; injection hr with hr; subst hr; exact h
  | cons e es ih =>
    simp only [run] at hr
    split at hr
    · next s1 hs1 =>
      obtain ⟨hp, he⟩ := step_ok s s1 e hs1
      subst he
      exact ih _ (eff_inv s e hp h) hr
    · exact absurd hr (by simp)

/-- **C05, each thread runs its entry function at most once** — in every state reachable by an accepted history -/
theorem C05_runs_at_most_once (evs : List Ev) (s : St) (hr : run {} evs = .ok s) (t : Nat) : s.begun t ≤ 1 := by
  have h := run_inv {} s evs inv_init hr t
  rw [h]
  cases s.ph t <;> simp [expectBegun]

/-- **C05, at the end every created thread has run to completion** (exactly once, with the previous theorem) -/
theorem C05_none_lost (s s' : St) (h : step s .final = .ok s') (t : Nat) (ht : t ∈ s.ids) :
    (∃ v, s.ph t = .ended v) ∨ (∃ v, s.ph t = .joined v) := by
  obtain ⟨hp, _⟩ := step_ok s s' _ h
  simp only [pre] at hp
  split at hp
  · exact absurd hp (by simp)
  · next hn =>
    have hall : ∀ x ∈ s.ids, (match s.ph x with | .ended _ => false | .joined _ => false | _ => true) = false := by
      intro x hx
      cases hb : (match s.ph x with | .ended _ => false | .joined _ => false | _ => true) with
      | false => rfl
      | true => exact absurd (List.any_eq_true.mpr ⟨x, hx, hb⟩) hn
    have := hall t ht
    cases hph : s.ph t with
    | ended v => exact Or.inl ⟨v, rfl⟩
    | joined v => exact Or.inr ⟨v, rfl⟩
    | none => rw [hph] at this; simp at this
    | created => rw [hph] at this; simp at this
    | running v => rw [hph] at this; simp at this
    | outside => rw [hph] at this; simp at this

/-- **C05, one vCPU at a time.** A thread is resumed (`enter`) only while it is outside (it announced a blocking or
    migrating call and has not been resumed since), and every `leave`/`end` happens on the vCPU of its last `enter`:
    between two consecutive announcements the thread exists on exactly one vCPU. -/
theorem C05_one_vcpu_at_a_time (s s' : St) (t v : Nat) :
    (step s (.enter t v) = .ok s' → s.ph t = .outside ∧ s'.ph t = .running v) ∧
    (step s (.leave t v) = .ok s' → s.ph t = .running v) ∧
    (∀ val, step s (.end_ t v val) = .ok s' → s.ph t = .running v) := by
  refine ⟨?_, ?_, ?_⟩
  · intro h
    obtain ⟨hp, hs⟩ := step_ok s s' _ h
    simp only [pre] at hp
    have : s.ph t = .outside := by
      by_cases c : s.ph t = .outside
      · exact c
      · rw [if_pos c] at hp; exact absurd hp (by simp)
    exact ⟨this, by rw [hs]; simp [eff, upd]⟩
  · intro h
    obtain ⟨hp, _⟩ := step_ok s s' _ h
    simp only [pre] at hp
    by_cases c : s.ph t = .running v
    · exact c
    · rw [if_pos c] at hp; exact absurd hp (by simp)
  · intro val h
    obtain ⟨hp, _⟩ := step_ok s s' _ h
    simp only [pre] at hp
    by_cases c : s.ph t = .running v
    · exact c
    · rw [if_pos c] at hp; exact absurd hp (by simp)

/-- **C05, join is exact.** `thread_join` returns only after the entry function returned, with its value, once. -/
theorem C05_join_exact (s s' : St) (t : Nat) (val : Int) (h : step s (.joined t val) = .ok s') :
    s.ph t = .ended val ∧ s'.ph t = .joined val := by
  obtain ⟨hp, hs⟩ := step_ok s s' _ h
  simp only [pre] at hp
  cases hph : s.ph t with
  | ended w =>
    rw [hph] at hp
    have : w = val := by
      by_cases c : w = val
      · exact c
      · simp [c] at hp
    subst this
    exact ⟨rfl, by rw [hs]; simp [eff, upd]⟩
  | none => rw [hph] at hp; simp at hp
  | created => rw [hph] at hp; simp at hp
  | running v => rw [hph] at hp; simp at hp
  | outside => rw [hph] at hp; simp at hp
  | joined w => rw [hph] at hp; simp at hp

/-- vCPU thread counts return to their initial value -/
theorem C05_counts_return (s s' : St) (v b a : Nat) (h : step s (.count v b a) = .ok s') : b = a := by
  obtain ⟨hp, _⟩ := step_ok s s' _ h
  simp only [pre] at hp
  by_cases c : b = a
  · exact c
  · rw [if_pos c] at hp; exact absurd hp (by simp)

/-! ### non-vacuity -/
example : (run {} [.create 1, .begin_ 1 0, .leave 1 0, .enter 1 2, .end_ 1 2 7, .joined 1 7, .count 0 2 2, .final]).isOk = true := by decide
example : (run {} [.create 1, .begin_ 1 0, .leave 1 0, .enter 1 2, .enter 1 1]).isOk = false := by decide
example : (run {} [.create 1, .begin_ 1 0, .final]).isOk = false := by decide

end Photon.Life
