import Photon.Model.RwSpec
import Photon.Properties.C03
/-!
# C06 — Reader-writer lock (`photon::rwlock`): writers exclusive, readers shared, failed lock is a no-op

Model: `Photon/Model/Sync.lean`: the lock's internal mutex and condition variable are followed
event by event by the mutex / condition-variable layers; on top, the holder sets `readers`,
`writer` are driven by the API returns.
-/
namespace Photon.Sync

/-- while a writer holds the lock nobody else holds it in any mode -/
def InvRw (s : St) : Prop := ∀ rw, (s.rw rw).writer ≠ none → (s.rw rw).readers = []

theorem invRw_of_rw (s s' : St) (h : InvRw s) (e : s'.rw = s.rw) : InvRw s' := by
  intro rw; rw [e]; exact h rw

theorem eff_invRw (s : St) (e : Ev) (hp : pre s e = none) (h : InvRw s) : InvRw (eff s e) := by
  cases e <;> simp only [eff]
  case rwInit rw cv =>
    intro rw'; simp only [effRwInit, upd]; split
    · intro hw; simp at hw
    · exact h rw'
  case retRwLock t rw w r =>
    simp only [pre, preRetRwLock] at hp
    intro rw'
    simp only [effRetRwLock]
    by_cases hr : r ≠ 0
    · rw [if_pos hr]; exact h rw'
    · rw [if_neg hr]
      rw [if_neg hr] at hp
      by_cases c1 : (s.rw rw).writer ≠ none
      · rw [if_pos c1] at hp; exact absurd hp (by simp)
      · rw [if_neg c1] at hp
        simp only [ne_eq, Decidable.not_not] at c1
        cases w with
        | true =>
          simp only [if_true, upd]
          split
          · next heq =>
            subst heq
            intro _
            by_cases c2 : True ∧ (s.rw rw').readers ≠ []
            · simp only [true_and] at c2; simp [c2] at hp
            · simpa using c2
          · exact h rw'
        | false =>
          simp only [Bool.false_eq_true, if_false, upd]
          split
          · next heq => subst heq; intro hw; exact absurd c1 hw
          · exact h rw'
  case callRwUnlock t rw =>
    intro rw'
    simp only [effCallRwUnlock]
    split
    · simp only [upd]; split
      · intro hw; simp at hw
      · exact h rw'
    · simp only [upd]; split
      · next hnw heq =>
        subst heq
        intro hw
        have := h rw' hw
        simp [this]
      · exact h rw'
  case sleep t q dl =>
    apply invRw_of_rw _ _ h
    cases q <;> simp [effSleep, enqueue, setTh]
  case intrNoSleep t st e b => apply invRw_of_rw _ _ h; simp only [effIntrNoSleep]; split <;> simp [setTh]
  case wakeTimeout t => apply invRw_of_rw _ _ h; simp only [effWakeTimeout, dequeue]; split <;> simp [setTh]
  case wakeIntr t e b =>
    have hw : (wokenState s t e).rw = s.rw := by simp only [wokenState, dequeue]; split <;> simp [setTh]
    apply invRw_of_rw _ _ h
    rcases effWakeIntr_form s t e b with hf | hf <;> rw [hf] <;> simp [setTh, hw]
  case mutexTry m ok t => apply invRw_of_rw _ _ h; simp only [effMutexTry]; split <;> rfl
  case semSub sm n ok b => apply invRw_of_rw _ _ h; simp only [effSemSub]; split <;> simp [setTh]
  all_goals exact invRw_of_rw _ _ h (by first | rfl | simp [effCreate, effDie, effCall, effSetShutdown, effResume,
      effYield, effRet, effMutexUnlock, effMutexInit, effSemInit, effSemAdd, effSemResume, effSemPass, setTh])

theorem run_invRw : ∀ (tr : List Ev) (s s' : St), run s tr = .ok s' → InvRw s → InvRw s' := by
  intro tr; induction tr with
  | nil => intro s s' h hi; simp [run] at h; rw [← h]; exact hi
  | cons e es ih =>
    intro s s' h hi
    simp only [run] at h
    cases hs : step s e with
    | error m => rw [hs] at h; exact absurd h (by simp)
    | ok s1 =>
      rw [hs] at h
      obtain ⟨hp, hs'⟩ := step_ok' s s1 e hs
      exact ih s1 s' h (by rw [hs']; exact eff_invRw _ e hp (invRw_of_rw s (base s) hi rfl))

/-- **C06, exclusion.** In every reachable state: while a thread holds the lock in write mode no
    other thread holds it in any mode (there is at most one writer, and no reader beside it). -/
theorem C06_excl (s : St) (hr : Reachable s) (rw w : Nat) (hw : (s.rw rw).writer = some w) :
    (s.rw rw).readers = [] := by
  obtain ⟨tr, htr⟩ := hr
  exact run_invRw tr {} s htr (fun _ h => absurd rfl h) rw (by rw [hw]; simp)

/-- a lock is granted only when compatible with the current holders -/
theorem C06_grant_guard (s s' : St) (t rw : Nat) (w : Bool) (h : step s (.retRwLock t rw w 0) = .ok s') :
    (s.rw rw).writer = none ∧ (w = true → (s.rw rw).readers = []) := by
  obtain ⟨hp, _⟩ := step_ok' s s' _ h
  simp only [pre, preRetRwLock] at hp
  have hb : (base s).rw = s.rw := rfl
  rw [hb] at hp
  rw [if_neg (by simp)] at hp
  by_cases c1 : (s.rw rw).writer ≠ none
  · rw [if_pos c1] at hp; exact absurd hp (by simp)
  · rw [if_neg c1] at hp
    refine ⟨by simpa using c1, fun hw => ?_⟩
    subst hw
    by_cases c2 : (s.rw rw).readers = []
    · exact c2
    · rw [if_pos ⟨rfl, c2⟩] at hp; exact absurd hp (by simp)

/-- **C06, a failed lock() is a no-op**: the holder sets are unchanged and the caller is not left
    in the wait queue. -/
theorem C06_failed_noop (s s' : St) (t rw : Nat) (w : Bool) (r : Int) (hr : r ≠ 0)
    (h : step s (.retRwLock t rw w r) = .ok s') :
    s'.rw = s.rw ∧ ¬ (s.queue (s.rw rw).cv).contains t := by
  obtain ⟨hp, hs'⟩ := step_ok' s s' _ h
  simp only [pre, preRetRwLock] at hp
  have hb : (base s).rw = s.rw := rfl
  have hq : (base s).queue = s.queue := rfl
  rw [hb, hq, if_pos hr] at hp
  refine ⟨by rw [hs']; simp [eff, effRetRwLock, hr, setTh, base], ?_⟩
  intro hc
  rw [if_pos hc] at hp; exact absurd hp (by simp)

/-- **C06, nobody is left waiting on a free lock.** A quiescence point is accepted only if no
    registered rwlock is free (no holder at all) while threads are parked on it. -/
theorem C06_no_stuck (s s' : St) (h : step s .quiescent = .ok s') (rw : Nat) (hreg : rw ∈ s.rwIds) :
    stuckRw s rw = false := by
  obtain ⟨hp, _⟩ := step_ok' s s' _ h
  simp only [pre, preQuiescent] at hp
  by_cases c1 : overdue (base s) ≠ []
  · rw [if_pos c1] at hp; exact absurd hp (by simp)
  · by_cases c2 : (base s).deferred.isSome = true
    · rw [if_neg c1, if_pos c2] at hp; exact absurd hp (by simp)
    · by_cases c3 : (base s).mutexIds.any (stuckMutex (base s)) = true
      · rw [if_neg c1, if_neg c2, if_pos c3] at hp; exact absurd hp (by simp)
      · by_cases c4 : (base s).semIds.any (fun p => stuckSem (base s) p.1 p.2) = true
        · rw [if_neg c1, if_neg c2, if_neg c3, if_pos c4] at hp; exact absurd hp (by simp)
        · by_cases c5 : (base s).rwIds.any (stuckRw (base s)) = true
          · rw [if_neg c1, if_neg c2, if_neg c3, if_neg c4, if_pos c5] at hp; exact absurd hp (by simp)
          · cases hs : stuckRw s rw with
            | false => rfl
            | true =>
              exfalso; apply c5
              rw [List.any_eq_true]
              exact ⟨rw, hreg, hs⟩

end Photon.Sync

/-! ### API-level specification (`Model/RwSpec.lean`): `photon::qrwlock` (and, a second time, `photon::rwlock`)

Every single-vCPU history of lock / try_lock / unlock calls and returns of the real lock (`harness/hsim_rw.cpp`) must be accepted
by the automaton; the theorems are about every accepted history. -/
namespace Photon.RwSpec

theorem step_ok (s s' : St) (e : Ev) (h : step s e = .ok s') : pre s e = none ∧ s' = eff s e := by
  unfold step at h
  cases hp : pre s e with
  | some m => rw [hp] at h; exact absurd h (by simp)
  | none => rw [hp] at h; exact ⟨rfl, by injection h with h; exact h.symm⟩

/-- **C06 (API level), grants are compatible.** A write lock is granted only on a free lock, a read lock only while no writer holds
    it. -/
theorem C06_api_grant (s s' : St) (t : Nat) (p : Pending) (hc : s.calls.find? (·.t == t) = some p)
    (h : step s (.ret t true) = .ok s') :
    (p.write = true → free s = true) ∧ (p.write = false → s.writer = none) := by
  obtain ⟨hp, _⟩ := step_ok s s' _ h
  simp only [pre, hc, if_true] at hp
  constructor
  · intro hw
    rw [if_pos hw] at hp
    cases hf : free s with
    | true => rfl
    | false => rw [hf] at hp; exact absurd hp (by simp)
  · intro hw
    have : ¬ p.write = true := by simp [hw]
    rw [if_neg this] at hp
    cases hn : s.writer with
    | none => rfl
    | some w => rw [hn] at hp; exact absurd hp (by simp)

/-- **C06 (API level), a failed lock is a no-op** on the holders, and it fails only for a reason: a `try_lock` because an
    incompatible holder exists, a `lock` because its timeout has expired or a `thread_interrupt` was issued to the caller. -/
theorem C06_api_failed_noop (s s' : St) (t : Nat) (p : Pending) (hc : s.calls.find? (·.t == t) = some p)
    (h : step s (.ret t false) = .ok s') :
    s'.readers = s.readers ∧ s'.writer = s.writer ∧
    (p.try_ = true → (p.write = true → free s = false) ∧ (p.write = false → s.writer.isSome = true)) ∧
    (p.try_ = false → timedOut p.callAt p.to s.now = true ∨ s.intrs.contains t = true) := by
  obtain ⟨hp, hs⟩ := step_ok s s' _ h
  refine ⟨by rw [hs]; simp [eff, hc], by rw [hs]; simp [eff, hc], ?_, ?_⟩
  · intro ht
    simp only [pre, hc, Bool.false_eq_true, if_false, ht, if_true] at hp
    constructor
    · intro hw
      rw [if_pos hw] at hp
      cases hf : free s with
      | false => rfl
      | true => rw [hf] at hp; exact absurd hp (by simp)
    · intro hw
      have : ¬ p.write = true := by simp [hw]
      rw [if_neg this] at hp
      cases hn : s.writer with
      | some w => rfl
      | none => rw [hn] at hp; exact absurd hp (by simp)
  · intro ht
    simp only [pre, hc, Bool.false_eq_true, if_false, ht] at hp
    cases hto : timedOut p.callAt p.to s.now with
    | true => exact Or.inl rfl
    | false =>
      rw [hto] at hp
      simp only [Bool.false_eq_true, if_false] at hp
      cases hin : s.intrs.contains t with
      | true => exact Or.inr rfl
      | false => rw [hin] at hp; exact absurd hp (by simp)

/-- **C06 (API level), after the last holder unlocks the waiters are admitted.** A quiescence point (every thread blocked) is
    accepted only if the lock is held or nobody is blocked in `lock()`. -/
theorem C06_api_admitted (s s' : St) (h : step s .quiescent = .ok s') (hf : free s = true) :
    ∀ p ∈ s.calls, p.try_ = true := by
  obtain ⟨hp, _⟩ := step_ok s s' _ h
  simp only [pre] at hp
  intro p hm
  cases ht : p.try_ with
  | true => rfl
  | false =>
    exfalso
    have : free s = true ∧ (s.calls.any (fun p => !p.try_)) = true := ⟨hf, List.any_eq_true.2 ⟨p, hm, by simp [ht]⟩⟩
    rw [if_pos this] at hp
    exact absurd hp (by simp)

/-- invariant: a writer excludes everybody else -/
def Inv (s : St) : Prop := (s.writer.isSome = true → s.readers = []) ∧ (∀ w, s.writer = some w → ¬ w ∈ s.readers)

theorem eff_inv (s : St) (e : Ev) (hi : Inv s) (hp : pre s e = none) : Inv (eff s e) := by
  cases e with
  | call t w to tr => exact hi
  | interrupt t => exact hi
  | overlap => exact hi
  | tick n => exact hi
  | quiescent => exact hi
  | unlock t =>
    simp only [eff]
    split
    · next hw =>
      refine ⟨by simp, by simp⟩
    · next hw =>
      refine ⟨?_, ?_⟩
      · intro h1
        have := hi.1 h1
        simp [this]
      · intro w h1
        have h1' : s.writer = some w := h1
        have h2 : s.writer.isSome = true := by rw [h1']; rfl
        have := hi.1 h2
        simp [this]
  | ret t ok =>
    simp only [eff]
    cases hc : s.calls.find? (·.t == t) with
    | none => exact hi
    | some p =>
      simp only []
      cases ok with
      | false => exact hi
      | true =>
        simp only [if_true]
        simp only [pre, hc, if_true] at hp
        by_cases hw : p.write = true
        · rw [if_pos hw] at hp ⊢
          have hf : free s = true := by
            cases hf : free s with
            | true => rfl
            | false => rw [hf] at hp; exact absurd hp (by simp)
          simp only [free, Bool.and_eq_true, List.isEmpty_iff] at hf
          refine ⟨fun _ => hf.1, ?_⟩
          intro w _
          simp [hf.1]
        · rw [if_neg hw] at hp ⊢
          have hn : s.writer = none := by
            cases hn : s.writer with
            | none => rfl
            | some w => rw [hn] at hp; exact absurd hp (by simp)
          refine ⟨?_, ?_⟩
          · intro h1; simp [hn] at h1
          · intro w h1; simp [hn] at h1

theorem run_inv (evs : List Ev) : ∀ (s s' : St), Inv s → run s evs = .ok s' → Inv s' := by
  induction evs with
  | nil => intro s s' hi h; simp only [run] at h; injection h with h; subst h; exact hi
  | cons e es ih =>
    intro s s' hi h
    simp only [run] at h
    cases hs : step s e with
    | error m => rw [hs] at h; exact absurd h (by simp)
    | ok s1 =>
      rw [hs] at h
      obtain ⟨hp, he⟩ := step_ok s s1 e hs
      exact ih s1 s' (by rw [he]; exact eff_inv s e hi hp) h

/-- **C06 (API level), writers are exclusive** in every state reached by an accepted history: while a writer holds the lock
    nobody holds it in read mode (and there is at most one writer by construction of the state). -/
theorem C06_api_excl (evs : List Ev) (s : St) (h : run {} evs = .ok s) : s.writer.isSome = true → s.readers = [] :=
  (run_inv evs {} s ⟨by simp, by simp⟩ h).1

/-- non-vacuity: two readers share, a writer times out, then is admitted after the last reader unlocked -/
example : (run {} [.call 1 false none false, .ret 1 true, .call 2 false none false, .ret 2 true, .call 3 true (some 50) false,
    .quiescent, .tick 50, .ret 3 false, .call 3 true none false, .unlock 1, .quiescent, .unlock 2, .ret 3 true, .quiescent]).isOk = true := by decide
/-- the history of seeded change C06-m3 (a notified waiter past its deadline swallows the wake-up) is rejected -/
example : (run {} [.call 1 true none false, .ret 1 true, .call 2 true (some 300) false, .call 3 true none false, .tick 500,
    .unlock 1, .ret 2 false, .quiescent]).isOk = false := by decide

end Photon.RwSpec
