import Photon.Model.Ring
/-!
# C07 — ring queues: bounded FIFO (sequential refinement)

`abs r` is the queue content. Every `push` that succeeds appends its element and fails exactly when `cap` elements
are queued; every `pop` returns and removes the oldest element and fails exactly when the queue is empty; so for
every sequence of operations — any capacity, any number of laps around the ring — the ring behaves like a FIFO list
bounded by `cap`: nothing lost, nothing duplicated, nothing invented, order kept. (Interleavings of the atomic steps
of concurrent producers/consumers are NOT covered by these theorems; see DESIGN.md.)
-/
namespace Photon.Ring

theorem mod_ne_of_lt_cap (cap a b : Nat) (hab : a < b) (hd : b - a < cap) : a % cap ≠ b % cap := by
  intro h
  have h0 : (b - a) % cap = 0 := Nat.sub_mod_eq_zero_of_mod_eq h.symm
  have hdvd : cap ∣ (b - a) := Nat.dvd_of_mod_eq_zero h0
  have hpos : 0 < b - a := by omega
  have := Nat.le_of_dvd hpos hdvd
  omega

theorem abs_length (r : Ring) : (abs r).length = r.tail - r.head := by simp [abs]

theorem push_full (r : Ring) (x : Nat) (hf : r.tail - r.head ≥ r.cap) : push r x = (r, false) := by
  simp [push, full, hf]

def pushed (r : Ring) (x : Nat) : Ring :=
  { r with slot := upd r.slot (r.tail % r.cap) x, tail := r.tail + 1,
           mark := upd r.mark (r.tail % r.cap) (2 * (r.tail / r.cap) + 1) }
def popped (r : Ring) : Ring :=
  { r with head := r.head + 1, mark := upd r.mark (r.head % r.cap) (2 * (r.head / r.cap) + 2) }

theorem push_ok (r : Ring) (x : Nat) (h : Inv r) (hlt : r.tail - r.head < r.cap) :
    (push r x).2 = true ∧ abs (push r x).1 = abs r ++ [x] ∧ Inv (push r x).1 ∧ (push r x).1.cap = r.cap := by
  obtain ⟨hc, hle, hcap⟩ := h
  have hnf : ¬ (r.tail - r.head ≥ r.cap) := by omega
  have hp : push r x = (pushed r x, true) := by
    simp [push, pushed, full, hnf]
  rw [hp]
  refine ⟨rfl, ?_, ⟨hc, by simp only [pushed]; omega, by simp only [pushed]; omega⟩, rfl⟩
  simp only [abs, pushed]
  have e : r.tail + 1 - r.head = (r.tail - r.head) + 1 := by omega
  rw [e, List.range_succ, List.map_append]
  congr 1
  · apply List.map_congr_left
    intro i hi
    simp only [List.mem_range] at hi
    simp only [upd]
    rw [if_neg]
    exact mod_ne_of_lt_cap r.cap (r.head + i) r.tail (by omega) (by omega)
  · simp only [List.map_cons, List.map_nil, upd]
    have : r.head + (r.tail - r.head) = r.tail := by omega
    rw [this]; simp

theorem pop_empty (r : Ring) (he : r.head = r.tail) : pop r = (r, none) := by
  simp [pop, empty, he]

theorem pop_ok (r : Ring) (h : Inv r) (hne : r.head ≠ r.tail) :
    (pop r).2 = some (r.slot (r.head % r.cap)) ∧ abs r = r.slot (r.head % r.cap) :: abs (pop r).1 ∧
    Inv (pop r).1 ∧ (pop r).1.cap = r.cap := by
  obtain ⟨hc, hle, hcap⟩ := h
  have hp : pop r = (popped r, some (r.slot (r.head % r.cap))) := by
    simp [pop, popped, empty, hne]
  rw [hp]
  refine ⟨rfl, ?_, ⟨hc, by simp only [popped]; omega, by simp only [popped]; omega⟩, rfl⟩
  simp only [abs, popped]
  have e : r.tail - r.head = (r.tail - (r.head + 1)) + 1 := by omega
  rw [e, List.range_succ_eq_map, List.map_cons, List.map_map]
  congr 1
  apply List.map_congr_left
  intro i _
  simp only [Function.comp]
  have : r.head + (i + 1) = r.head + 1 + i := by omega
  rw [this]

/-! ### the reference: a FIFO list bounded by `cap` -/

inductive Op where
  | push (x : Nat) | pop
  deriving Repr

/-- result of one operation: `some none` = push ok, `none` = push refused (full), `some (some x)` = popped x,
    `some none` for a pop = nothing to pop is encoded as `none` too — the op kind disambiguates -/
def stepRing (r : Ring) : Op → Ring × Option (Option Nat)
  | .push x => let (r', ok) := push r x; (r', if ok then some none else none)
  | .pop => let (r', v) := pop r; (r', some v)

def stepSpec (cap : Nat) (q : List Nat) : Op → List Nat × Option (Option Nat)
  | .push x => if q.length < cap then (q ++ [x], some none) else (q, none)
  | .pop => match q with
    | [] => ([], some none)
    | x :: t => (t, some (some x))

/-- **C07, one step refines the bounded FIFO** (and keeps the invariant and the capacity) -/
theorem C07_step_refines (r : Ring) (o : Op) (h : Inv r) :
    (stepRing r o).2 = (stepSpec r.cap (abs r) o).2 ∧ abs (stepRing r o).1 = (stepSpec r.cap (abs r) o).1 ∧
    Inv (stepRing r o).1 ∧ (stepRing r o).1.cap = r.cap := by
  cases o with
  | push x =>
    simp only [stepRing, stepSpec, abs_length]
    by_cases hlt : r.tail - r.head < r.cap
    · obtain ⟨h1, h2, h3, h4⟩ := push_ok r x h hlt
      rw [if_pos hlt]
      cases hp : push r x with
      | mk r' ok =>
        rw [hp] at h1 h2 h3 h4
        simp only at h1 h2 h3 h4 ⊢
        subst h1
        exact ⟨rfl, h2, h3, h4⟩
    · rw [if_neg hlt, push_full r x (by omega)]
      exact ⟨rfl, rfl, h, rfl⟩
  | pop =>
    simp only [stepRing, stepSpec]
    by_cases he : r.head = r.tail
    · rw [pop_empty r he]
      have : abs r = [] := by simp [abs, he]
      rw [this]
      exact ⟨rfl, rfl, h, rfl⟩
    · obtain ⟨h1, h2, h3, h4⟩ := pop_ok r h he
      cases hp : pop r with
      | mk r' v =>
        rw [hp] at h1 h2 h3 h4
        simp only at h1 h2 h3 h4 ⊢
        subst h1
        rw [h2]
        exact ⟨rfl, rfl, h3, h4⟩

def runRing (r : Ring) : List Op → Ring × List (Option (Option Nat))
  | [] => (r, [])
  | o :: os => let (r', out) := stepRing r o; let (r'', outs) := runRing r' os; (r'', out :: outs)

def runSpec (cap : Nat) (q : List Nat) : List Op → List Nat × List (Option (Option Nat))
  | [] => (q, [])
  | o :: os => let (q', out) := stepSpec cap q o; let (q'', outs) := runSpec cap q' os; (q'', out :: outs)

/-- **C07, refinement for every operation sequence.** Starting from any ring state satisfying the invariant (e.g. the
    empty ring of any capacity), any sequence of pushes and pops produces exactly the results of a FIFO list bounded
    by `cap`, and the ring content is that list afterwards — however many times the indices wrap around; the queue
    never holds more than `cap` elements. -/
theorem C07_refines_bounded_fifo (ops : List Op) : ∀ (r : Ring), Inv r →
    (runRing r ops).2 = (runSpec r.cap (abs r) ops).2 ∧ abs (runRing r ops).1 = (runSpec r.cap (abs r) ops).1 ∧
    (abs (runRing r ops).1).length ≤ r.cap := by
  induction ops with
  | nil => intro r h; exact ⟨rfl, rfl, by rw [runRing, abs_length]; exact h.2.2⟩
  | cons o os ih =>
    intro r h
    obtain ⟨s1, s2, s3, s4⟩ := C07_step_refines r o h
    obtain ⟨i1, i2, i3⟩ := ih (stepRing r o).1 s3
    simp only [runRing, runSpec]
    rw [s4, s2] at i1 i2
    rw [s4] at i3
    refine ⟨?_, i2, i3⟩
    rw [i1, s1]

/-- the empty ring of capacity `cap` satisfies the invariant -/
theorem inv_empty (cap : Nat) (hc : 0 < cap) : Inv { cap := cap } := ⟨hc, Nat.le_refl _, by simp⟩

/-! ### non-vacuity: wrap-around on a capacity-2 ring -/
example : (runRing { cap := 2 } [.push 1, .push 2, .push 3, .pop, .push 4, .pop, .pop, .pop, .push 5, .pop]).2 =
    [some none, some none, none, some (some 1), some none, some (some 2), some (some 4), some none, some none, some (some 5)] := by decide

end Photon.Ring

/-! ## concurrent runs: the acceptor of what consumers received -/
namespace Photon.RingLog

theorem step_ok (s s' : St) (e : Ev) (h : step s e = .ok s') : pre s e = none ∧ s' = eff s e := by
  unfold step at h
  split at h
  · exact absurd h (by simp)
  · next hp => exact ⟨hp, by injection h with h; exact h.symm⟩

/-- **C07 (concurrent runs), nothing invented, nothing duplicated, per-producer order per consumer.** An accepted
    `got c p seq` is an element that producer `p` sent, that nobody has received before, and that is later in `p`'s
    sending order than everything consumer `c` has received from `p`. -/
theorem C07_got (s s' : St) (c p seq : Nat) (h : step s (.got c p seq) = .ok s') :
    seq < sentBy s p ∧ s.recvd.contains (p, seq) = false ∧ (∀ l, s.last[(c, p)]? = some l → l < seq) ∧
    s'.recvd.contains (p, seq) = true ∧ s'.count = s.count + 1 := by
  obtain ⟨hp, hs⟩ := step_ok s s' _ h
  simp only [pre] at hp
  split at hp
  · exact absurd hp (by simp)
  · next h1 =>
    split at hp
    · exact absurd hp (by simp)
    · next h2 =>
      refine ⟨by omega, by simpa using h2, ?_, by rw [hs]; simp [eff], by rw [hs]; simp [eff]⟩
      intro l hl
      rw [hl] at hp
      simp only at hp
      by_cases c1 : seq ≤ l
      · rw [if_pos c1] at hp; exact absurd hp (by simp)
      · omega

/-- **nothing lost**: at the end the number of (distinct, by `C07_got`) received elements equals the number sent -/
theorem C07_all_received (s s' : St) (h : step s .final = .ok s') : s.count = (s.prods.map (sentBy s)).sum := by
  obtain ⟨hp, _⟩ := step_ok s s' _ h
  simp only [pre] at hp
  by_cases c : s.count = (s.prods.map (sentBy s)).sum
  · exact c
  · rw [if_pos c] at hp; exact absurd hp (by simp)

/-- non-vacuity (the hash containers do not reduce in the kernel, so these are shown with the container lemmas instead of `decide`):
    an element that was sent and not yet received is accepted, a second delivery of it is rejected -/
example : step (eff {} (.produced 0 2)) (.got 0 0 0) = .ok (eff (eff {} (.produced 0 2)) (.got 0 0 0)) := by
  simp [step, pre, eff, sentBy]
example : ∀ s', step (eff (eff {} (.produced 0 2)) (.got 0 0 0)) (.got 1 0 0) ≠ .ok s' := by
  intro s' h
  have := (C07_got _ _ _ _ _ h).2.1
  simp [eff] at this

end Photon.RingLog
