import Photon.Model.Pool
/-!
# C08 — WorkPool: every task runs exactly once; call() returns after its task finished

Theorems about the task automaton `Photon.Pool` that the stamped event log of real WorkPool runs must be accepted by.
-/
namespace Photon.Pool

theorem step_ok (s s' : St) (e : Ev) (h : step s e = .ok s') : pre s e = none ∧ s' = eff s e := by
  unfold step at h
  split at h
  · exact absurd h (by simp)
  · next hp => exact ⟨hp, by injection h with h; exact h.symm⟩

/-- a task body is entered at most once, and an async task object deleted at most once — in every reachable state -/
def Inv (s : St) : Prop := ∀ k, (s.task k).begun ≤ 1 ∧ (s.task k).deleted ≤ 1 ∧ ((s.task k).ended = true → (s.task k).begun = 1) ∧
  ((s.task k).submitted = false → (s.task k).begun = 0 ∧ (s.task k).deleted = 0 ∧ (s.task k).ended = false)

theorem inv_init : Inv {} := by intro k; simp

theorem eff_inv (s : St) (e : Ev) (hp : pre s e = none) (h : Inv s) : Inv (eff s e) := by
  intro k'
  obtain ⟨h1, h2, h3, h4⟩ := h k'
  cases e <;> simp only [eff]
  case submit k a =>
    by_cases c : k' = k
    · subst c
      simp only [upd, if_true]
      simp only [pre] at hp
      have hs : (s.task k').submitted = false := by
        cases hh : (s.task k').submitted with
        | false => rfl
        | true => rw [hh] at hp; simp at hp
      obtain ⟨a1, a2, a3⟩ := h4 hs
      simp
    · simp only [upd, if_neg c]; exact ⟨h1, h2, h3, h4⟩
  case begin_ k =>
    by_cases c : k' = k
    · subst c
      simp only [upd, if_true]
      simp only [pre] at hp
      have hsub : (s.task k').submitted = true := by
        cases hh : (s.task k').submitted with
        | true => rfl
        | false => rw [hh] at hp; simp at hp
      have hb : (s.task k').begun = 0 := by
        rw [hsub] at hp
        simp only [Bool.not_true, Bool.false_eq_true, if_false] at hp
        by_cases c0 : (s.task k').begun = 0
        · exact c0
        · rw [if_pos c0] at hp; exact absurd hp (by simp)
      refine ⟨by omega, h2, ?_, ?_⟩
      · intro he
        have := h3 he; omega
      · intro hs; rw [hsub] at hs; exact absurd hs (by simp)
    · simp only [upd, if_neg c]; exact ⟨h1, h2, h3, h4⟩
  case end_ k =>
    by_cases c : k' = k
    · subst c
      simp only [upd, if_true]
      simp only [pre] at hp
      have hb : (s.task k').begun = 1 := by
        by_cases c1 : (s.task k').begun ≠ 1 ∨ (s.task k').ended = true
        · rw [if_pos c1] at hp; exact absurd hp (by simp)
        · simp only [not_or, ne_eq, Decidable.not_not] at c1; exact c1.1
      refine ⟨h1, h2, fun _ => hb, ?_⟩
      intro hs
      have := (h4 hs).1; omega
    · simp only [upd, if_neg c]; exact ⟨h1, h2, h3, h4⟩
  case callret k =>
    by_cases c : k' = k
    · subst c; simp only [upd, if_true]; exact ⟨h1, h2, h3, h4⟩
    · simp only [upd, if_neg c]; exact ⟨h1, h2, h3, h4⟩
  case deleted k =>
    by_cases c : k' = k
    · subst c
      simp only [upd, if_true]
      simp only [pre] at hp
      have hd : (s.task k').deleted = 0 ∧ (s.task k').ended = true := by
        split at hp
        · exact absurd hp (by simp)
        · split at hp
          · exact absurd hp (by simp)
          · next hne =>
            split at hp
            · exact absurd hp (by simp)
            · next hd0 => exact ⟨by simpa using hd0, by simpa using hne⟩
      refine ⟨h1, by omega, h3, ?_⟩
      intro hs
      have := (h4 hs).2.2; rw [hd.2] at this; exact absurd this (by simp)
    · simp only [upd, if_neg c]; exact ⟨h1, h2, h3, h4⟩
  all_goals exact ⟨h1, h2, h3, h4⟩

theorem run_inv (s s' : St) (evs : List Ev) (h : Inv s) (hr : run s evs = .ok s') : Inv s' := by
  induction evs generalizing s with
  | nil => simp only [run] at hr; injection hr with hr; subst hr; exact h
  | cons e es ih =>
    simp only [run] at hr
    split at hr
    · next s1 hs1 =>
      obtain ⟨hp, he⟩ := step_ok s s1 e hs1
      subst he
      exact ih _ (eff_inv s e hp h) hr
    · exact absurd hr (by simp)

/-- **C08, every task runs at most once and every async task object is deleted at most once** -/
theorem C08_at_most_once (evs : List Ev) (s : St) (hr : run {} evs = .ok s) (k : Nat) :
    (s.task k).begun ≤ 1 ∧ (s.task k).deleted ≤ 1 := by
  obtain ⟨h1, h2, _, _⟩ := run_inv {} s evs inv_init hr k
  exact ⟨h1, h2⟩

/-- **C08, call() returns after its task finished**, and a task runs only if it was submitted -/
theorem C08_call_returns_after_task (s s' : St) (k : Nat) (h : step s (.callret k) = .ok s') : (s.task k).ended = true := by
  obtain ⟨hp, _⟩ := step_ok s s' _ h
  simp only [pre] at hp
  split at hp
  · exact absurd hp (by simp)
  · split at hp
    · exact absurd hp (by simp)
    · next hne => simpa using hne

/-- **C08, destroying the pool waits for all accepted tasks**: when the destructor returns (and at the end of the
    run) every submitted task has finished and every async task object has been deleted exactly once -/
theorem C08_destroy_waits (s s' : St) (h : step s .destroyEnd = .ok s' ∨ step s .final = .ok s') (k : Nat) (hk : k ∈ s.ids) :
    (s.task k).ended = true ∧ ((s.task k).async = true → (s.task k).deleted = 1) := by
  have hu : unfinished s = [] := by
    rcases h with h | h
    all_goals (
      obtain ⟨hp, _⟩ := step_ok s s' _ h
      simp only [pre] at hp
      by_cases c : unfinished s = []
      · exact c
      · rw [if_pos c] at hp; exact absurd hp (by simp))
  have : k ∉ unfinished s := by rw [hu]; simp
  simp only [unfinished, List.mem_filter, hk, true_and] at this
  cases he : (s.task k).ended <;> cases ha : (s.task k).async <;> simp_all

/-! ### non-vacuity -/
example : (run {} [.submit 1 false, .submit 2 true, .begin_ 2, .begin_ 1, .end_ 1, .callret 1, .end_ 2, .deleted 2,
    .destroyBegin, .destroyEnd, .final]).isOk = true := by decide
example : (run {} [.submit 1 false, .begin_ 1, .callret 1]).isOk = false := by decide
example : (run {} [.submit 2 true, .destroyBegin, .destroyEnd]).isOk = false := by decide

end Photon.Pool
