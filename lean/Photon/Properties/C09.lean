import Photon.Model.Chan
import Photon.Properties.C07
/-!
# C09 — Go-style channel: a value reported sent is received exactly once

Model: `Photon/Model/Chan.lean`, the specification automaton every single-vCPU run of
`photon::channel` must be accepted by (the H-sim check feeds it the real API call/return events).
The theorems are about *every* accepted history.
-/
namespace Photon.Chan

theorem step_ok (s s' : St) (e : Ev) (h : step s e = .ok s') : pre s e = none ∧ s' = eff s e := by
  unfold step at h
  cases hp : pre s e with
  | some m => rw [hp] at h; exact absurd h (by simp)
  | none => rw [hp] at h; exact ⟨rfl, by injection h with h; exact h.symm⟩

/-! ### buffered channel: a bounded FIFO -/

structure InvB (s : St) : Prop where
  fifo : s.cap > 0 → s.recvd ++ s.buf = s.sentOk
  bound : s.cap > 0 → s.buf.length ≤ s.cap
  offered : ∀ p ∈ s.sends, p.v ∈ s.offered
  sentOff : ∀ v ∈ s.sentOk, v ∈ s.offered

theorem invB_init : InvB {} := ⟨by intro h; simp at h, by intro h; simp at h, by intro p h; simp at h, by intro v h; simp at h⟩

theorem find_mem {α} (l : List α) (f : α → Bool) (x : α) (h : l.find? f = some x) : x ∈ l :=
  List.mem_of_find?_eq_some h

theorem eff_invB (s : St) (e : Ev) (hp : pre s e = none) (h : InvB s) : InvB (eff s e) := by
  cases e <;> simp only [eff]
  case init c => exact ⟨by intro _; rfl, by intro _; simp, by intro p hp'; simp at hp', by intro v hv; simp at hv⟩
  case callSend t v to tr =>
    refine ⟨h.fifo, h.bound, ?_, ?_⟩
    · intro p hp'
      simp only [List.mem_append, List.mem_singleton] at hp' ⊢
      rcases hp' with hp' | hp'
      · exact Or.inl (h.offered p hp')
      · subst hp'; exact Or.inr rfl
    · intro w hw; simp only [List.mem_append]; exact Or.inl (h.sentOff w hw)
  case callRecv t to tr => exact ⟨h.fifo, h.bound, h.offered, h.sentOff⟩
  case close => exact ⟨h.fifo, h.bound, h.offered, h.sentOff⟩
  case tick n => exact ⟨h.fifo, h.bound, h.offered, h.sentOff⟩
  case quiescent => exact h
  case retSend t ok =>
    simp only [pre] at hp
    cases hf : s.sends.find? (·.t == t) with
    | none => simp only [hf]; exact h
    | some p =>
      simp only [hf] at hp ⊢
      have hpm : p ∈ s.sends := find_mem _ _ _ hf
      have hsub : ∀ q ∈ s.sends.filter (·.t != t), q.v ∈ s.offered :=
        fun q hq => h.offered q (List.mem_filter.mp hq).1
      cases ok with
      | false => exact ⟨h.fifo, h.bound, hsub, h.sentOff⟩
      | true =>
        simp only [if_true] at hp ⊢
        have hoff : ∀ w ∈ s.sentOk ++ [p.v], w ∈ s.offered := by
          intro w hw; simp only [List.mem_append, List.mem_singleton] at hw
          rcases hw with hw | hw
          · exact h.sentOff w hw
          · subst hw; exact h.offered p hpm
        by_cases hc : s.cap > 0
        · simp only [hc, if_true] at hp ⊢
          have hlen : s.buf.length < s.cap := by
            by_cases c1 : s.closed = true ∧ True
            · rw [if_pos c1] at hp; exact absurd hp (by simp)
            · rw [if_neg c1] at hp
              by_cases c2 : s.buf.length < s.cap
              · exact c2
              · rw [if_neg c2] at hp; exact absurd hp (by simp)
          refine ⟨fun _ => ?_, fun _ => ?_, hsub, hoff⟩
          · rw [← List.append_assoc, h.fifo hc]
          · simp; omega
        · simp only [hc, if_false]
          split
          · exact ⟨fun c => absurd c hc, fun c => absurd c hc, hsub, hoff⟩
          · exact ⟨fun c => absurd c hc, fun c => absurd c hc, hsub, hoff⟩
  case retRecv t ok v =>
    have hsub : ∀ q ∈ s.sends, q.v ∈ s.offered := h.offered
    cases ok with
    | false => exact ⟨h.fifo, h.bound, hsub, h.sentOff⟩
    | true =>
      simp only [if_true]
      by_cases hc : s.cap > 0
      · simp only [hc, if_true]
        simp only [pre] at hp
        cases hf : s.recvs.find? (·.t == t) with
        | none => rw [hf] at hp; exact absurd hp (by simp)
        | some r =>
          simp only [hf, if_true, hc] at hp
          by_cases c1 : s.recvd.contains v = true
          · rw [if_pos c1] at hp; exact absurd hp (by simp)
          · rw [if_neg c1] at hp
            cases hb : s.buf with
            | nil => rw [hb] at hp; exact absurd hp (by simp)
            | cons x rest =>
              rw [hb] at hp
              simp only at hp
              by_cases c2 : x = v
              · subst c2
                refine ⟨fun _ => ?_, fun _ => ?_, hsub, h.sentOff⟩
                · have := h.fifo hc; rw [hb] at this; simpa using this
                · have := h.bound hc; rw [hb] at this; simp at this ⊢; omega
              · rw [if_neg c2] at hp; exact absurd hp (by simp)
      · simp only [hc, if_false]
        split <;> exact ⟨fun c => absurd c hc, fun c => absurd c hc, hsub, h.sentOff⟩

theorem run_invB : ∀ (tr : List Ev) (s s' : St), run s tr = .ok s' → InvB s → InvB s' := by
  intro tr; induction tr with
  | nil => intro s s' h hi; simp [run] at h; rw [← h]; exact hi
  | cons e es ih =>
    intro s s' h hi
    simp only [run] at h
    cases hs : step s e with
    | error m => rw [hs] at h; exact absurd h (by simp)
    | ok s1 =>
      rw [hs] at h
      obtain ⟨hp, hs'⟩ := step_ok s s1 e hs
      exact ih s1 s' h (by rw [hs']; exact eff_invB s e hp hi)

/-- **C09, buffered channel.** For every accepted history of a channel with capacity > 0 — any
    number of senders and receivers, timeouts, try-operations and close() anywhere: the values
    received so far followed by the buffer content are exactly the values whose send returned true,
    in that order. Hence every such value is received exactly once and in sending order (globally,
    so also per sender), nothing else is ever received, and the buffer never exceeds the capacity. -/
theorem C09_buffered_exactly_once (tr : List Ev) (s : St) (h : run {} tr = .ok s) (hc : s.cap > 0) :
    s.recvd ++ s.buf = s.sentOk ∧ s.buf.length ≤ s.cap ∧ (∀ v ∈ s.recvd, v ∈ s.offered) := by
  have hi := run_invB tr {} s h invB_init
  refine ⟨hi.fifo hc, hi.bound hc, ?_⟩
  intro v hv
  exact hi.sentOff v (by rw [← hi.fifo hc]; simp [hv])

/-! ### unbuffered channel: a rendezvous -/

structure InvU (s : St) : Prop where
  sentRecvd : s.cap = 0 → ∀ v ∈ s.sentOk, v ∈ s.recvd ∨ v ∈ s.slot
  takenRecvd : s.cap = 0 → ∀ v ∈ s.taken, v ∈ s.recvd
  nodup : s.recvd.Nodup

theorem invU_init : InvU {} := ⟨by intro _ v h; simp at h, by intro _ v h; simp at h, by simp⟩

theorem eff_invU (s : St) (e : Ev) (hp : pre s e = none) (h : InvU s) : InvU (eff s e) := by
  cases e <;> simp only [eff]
  case init c => exact ⟨by intro _ v hv; simp at hv, by intro _ v hv; simp at hv, by simp⟩
  case callSend t v to tr => exact ⟨h.sentRecvd, h.takenRecvd, h.nodup⟩
  case callRecv t to tr => exact ⟨h.sentRecvd, h.takenRecvd, h.nodup⟩
  case close => exact ⟨h.sentRecvd, h.takenRecvd, h.nodup⟩
  case tick n => exact ⟨h.sentRecvd, h.takenRecvd, h.nodup⟩
  case quiescent => exact h
  case retSend t ok =>
    simp only [pre] at hp
    cases hf : s.sends.find? (·.t == t) with
    | none => simp only [hf]; exact h
    | some p =>
      simp only [hf] at hp ⊢
      cases ok with
      | false => exact ⟨h.sentRecvd, h.takenRecvd, h.nodup⟩
      | true =>
        simp only [if_true] at hp ⊢
        by_cases hc : s.cap > 0
        · simp only [hc, if_true]
          exact ⟨fun c => by rw [c] at hc; exact absurd hc (by simp), fun c => by rw [c] at hc; exact absurd hc (by simp), h.nodup⟩
        · have hc0 : s.cap = 0 := by omega
          simp only [hc, if_false, and_false] at hp ⊢
          by_cases htry : p.try_ = true
          · simp only [htry, if_true]
            refine ⟨fun _ w hw => ?_, h.takenRecvd, h.nodup⟩
            simp only [List.mem_append, List.mem_singleton] at hw ⊢
            rcases hw with hw | hw
            · rcases h.sentRecvd hc0 w hw with h1 | h1
              · exact Or.inl h1
              · exact Or.inr (Or.inl h1)
            · exact Or.inr (Or.inr hw)
          · simp only [htry, Bool.false_eq_true, if_false] at hp ⊢
            have htk : s.taken.contains p.v = true := by
              by_cases c : s.taken.contains p.v = true
              · exact c
              · rw [if_neg c] at hp; exact absurd hp (by simp)
            have hpv : p.v ∈ s.recvd := h.takenRecvd hc0 p.v (by simpa using htk)
            refine ⟨fun _ w hw => ?_, fun _ w hw => h.takenRecvd hc0 w (List.mem_of_mem_erase hw), h.nodup⟩
            simp only [List.mem_append, List.mem_singleton] at hw
            rcases hw with hw | hw
            · exact h.sentRecvd hc0 w hw
            · subst hw; exact Or.inl hpv
  case retRecv t ok v =>
    cases ok with
    | false => exact ⟨h.sentRecvd, h.takenRecvd, h.nodup⟩
    | true =>
      simp only [if_true]
      simp only [pre] at hp
      cases hf : s.recvs.find? (·.t == t) with
      | none => rw [hf] at hp; exact absurd hp (by simp)
      | some r =>
        simp only [hf, if_true] at hp
        have hnew : ¬ s.recvd.contains v = true := by
          intro c; rw [if_pos c] at hp; exact absurd hp (by simp)
        have hnd : (s.recvd ++ [v]).Nodup := by
          rw [List.nodup_append]
          exact ⟨h.nodup, by simp, by intro a ha b hb; simp at hb; subst hb; intro hab; subst hab; exact hnew (by simpa using ha)⟩
        by_cases hc : s.cap > 0
        · simp only [hc, if_true]
          exact ⟨fun c => by rw [c] at hc; exact absurd hc (by simp), fun c => by rw [c] at hc; exact absurd hc (by simp), hnd⟩
        · have hc0 : s.cap = 0 := by omega
          simp only [hc, if_false]
          by_cases hsl : s.slot.contains v = true
          · simp only [hsl, if_true]
            refine ⟨fun _ w hw => ?_, fun _ w hw => ?_, hnd⟩
            · simp only [List.mem_append, List.mem_singleton]
              rcases h.sentRecvd hc0 w hw with h1 | h1
              · exact Or.inl (Or.inl h1)
              · by_cases hwv : w = v
                · exact Or.inl (Or.inr hwv)
                · exact Or.inr ((List.mem_erase_of_ne hwv).mpr h1)
            · simp only [List.mem_append]; exact Or.inl (h.takenRecvd hc0 w hw)
          · simp only [hsl, Bool.false_eq_true, if_false]
            refine ⟨fun _ w hw => ?_, fun _ w hw => ?_, hnd⟩
            · simp only [List.mem_append, List.mem_singleton]
              rcases h.sentRecvd hc0 w hw with h1 | h1
              · exact Or.inl (Or.inl h1)
              · exact Or.inr h1
            · simp only [List.mem_append, List.mem_singleton] at hw ⊢
              rcases hw with hw | hw
              · exact Or.inl (h.takenRecvd hc0 w hw)
              · exact Or.inr hw

theorem run_invU : ∀ (tr : List Ev) (s s' : St), run s tr = .ok s' → InvU s → InvU s' := by
  intro tr; induction tr with
  | nil => intro s s' h hi; simp [run] at h; rw [← h]; exact hi
  | cons e es ih =>
    intro s s' h hi
    simp only [run] at h
    cases hs : step s e with
    | error m => rw [hs] at h; exact absurd h (by simp)
    | ok s1 =>
      rw [hs] at h
      obtain ⟨hp, hs'⟩ := step_ok s s1 e hs
      exact ih s1 s' h (by rw [hs']; exact eff_invU s e hp hi)

/-- **C09, unbuffered channel.** For every accepted history of a channel with capacity 0: no value
    is received twice, and every value whose send/try_send returned true has been received — or, for
    a try_send that found a waiting receiver, sits in the hand-off slot from which the next
    successful receive takes it. -/
theorem C09_unbuffered_exactly_once (tr : List Ev) (s : St) (h : run {} tr = .ok s) (hc : s.cap = 0) :
    s.recvd.Nodup ∧ ∀ v ∈ s.sentOk, v ∈ s.recvd ∨ v ∈ s.slot := by
  have hi := run_invU tr {} s h invU_init
  exact ⟨hi.nodup, hi.sentRecvd hc⟩

/-- **C09, false only because of close() or an expired timeout.** -/
theorem C09_false_only_close_or_timeout (s s' : St) (t : Nat) (h : step s (.retSend t false) = .ok s') :
    ∃ p, s.sends.find? (·.t == t) = some p ∧ (s.closed = true ∨ p.try_ = true ∨ timedOut p.callAt p.to s.now = true) := by
  obtain ⟨hp, _⟩ := step_ok s s' _ h
  simp only [pre] at hp
  cases hf : s.sends.find? (·.t == t) with
  | none => rw [hf] at hp; exact absurd hp (by simp)
  | some p =>
    refine ⟨p, rfl, ?_⟩
    simp only [hf, Bool.false_eq_true, if_false] at hp
    by_cases c1 : s.closed = true
    · exact Or.inl c1
    · by_cases c2 : p.try_ = true
      · exact Or.inr (Or.inl c2)
      · by_cases c3 : timedOut p.callAt p.to s.now = true
        · exact Or.inr (Or.inr c3)
        · rw [if_neg c1, if_neg c2, if_neg c3] at hp; exact absurd hp (by simp)

/-- **C09, released as soon as a partner, a free slot or an item exists.** A quiescence point
    (every thread blocked) is accepted only if no receiver is blocked on a non-empty or closed
    buffered channel, no sender is blocked while a slot is free, and on an unbuffered channel a
    sender and a receiver are never both blocked. -/
theorem C09_released (s s' : St) (h : step s .quiescent = .ok s') :
    (s.cap > 0 → (s.recvs ≠ [] → s.buf = [] ∧ s.closed = false) ∧ (s.sends ≠ [] → ¬ s.buf.length < s.cap ∧ s.closed = false)) ∧
    (s.cap = 0 → ¬ (s.sends ≠ [] ∧ s.recvs ≠ [])) := by
  obtain ⟨hp, _⟩ := step_ok s s' _ h
  simp only [pre] at hp
  constructor
  · intro hc
    rw [if_pos hc] at hp
    by_cases c1 : s.recvs ≠ [] ∧ (s.buf ≠ [] ∨ s.closed = true)
    · rw [if_pos c1] at hp; exact absurd hp (by simp)
    · rw [if_neg c1] at hp
      by_cases c2 : s.sends ≠ [] ∧ (s.buf.length < s.cap ∨ s.closed = true)
      · rw [if_pos c2] at hp; exact absurd hp (by simp)
      · constructor
        · intro hr
          have : ¬ (s.buf ≠ [] ∨ s.closed = true) := fun hx => c1 ⟨hr, hx⟩
          constructor
          · by_cases hb : s.buf = []
            · exact hb
            · exact absurd (Or.inl hb) this
          · cases hcl : s.closed with
            | false => rfl
            | true => exact absurd (Or.inr hcl) this
        · intro hsn
          have : ¬ (s.buf.length < s.cap ∨ s.closed = true) := fun hx => c2 ⟨hsn, hx⟩
          constructor
          · exact fun hl => this (Or.inl hl)
          · cases hcl : s.closed with
            | false => rfl
            | true => exact absurd (Or.inr hcl) this
  · intro hc0
    have hc : ¬ s.cap > 0 := by omega
    rw [if_neg hc] at hp
    intro hboth
    rw [if_pos hboth] at hp; exact absurd hp (by simp)

/-! ### witness: the unchanged tree violates the property (finding F2) -/

/-- Three threads, capacity 0: S1 `send(1)` parks; R `recv` parks; S2 `send(2)` arrives before S1 is
    rescheduled and places 2; S1 wakes, overwrites the slot with 1; R receives 1; **both sends return
    true**. The automaton refuses S2's `true` — this is exactly the history the real code produces. -/
theorem C09_unbuffered_overwrite_witness :
    (run {} [.init 0, .callSend 1 1 none false, .callRecv 3 none false, .callSend 2 2 none false,
      .retRecv 3 true 1, .retSend 1 true, .retSend 2 true]).isOk = false := by decide

/-- non-vacuity: a buffered history with a full buffer, a timeout and a close -/
example : (run {} [.init 1, .callSend 1 10 none false, .retSend 1 true, .callSend 2 20 (some 5) false,
    .tick 5, .retSend 2 false, .callRecv 3 none false, .retRecv 3 true 10, .close,
    .callRecv 3 none false, .retRecv 3 false 0]).isOk = true := by decide

end Photon.Chan

/-! ### several vCPUs: what the receivers of real concurrent runs got

The buffered channel under real concurrency (`harness/mv_chan.cpp`) is validated by the acceptor
`Photon.RingLog` of `Model/Ring.lean` (the same one C07 uses): what follows is about every history it accepts. -/
namespace Photon.ChanMV
open Photon.RingLog

/-- the `(sender, sequence number)` pairs of the `got` events of a history -/
def gots : List Ev → List (Nat × Nat)
  | [] => []
  | .got _ p seq :: es => (p, seq) :: gots es
  | _ :: es => gots es

structure Inv (s : St) (l : List (Nat × Nat)) : Prop where
  mem : ∀ p seq, s.recvd.contains (p, seq) = true ↔ (p, seq) ∈ l
  nodup : l.Nodup
  count : s.count = l.length

theorem run_inv (evs : List Ev) : ∀ (s s' : St) (l : List (Nat × Nat)), Inv s l → run s evs = .ok s' → Inv s' (l ++ gots evs) := by
  induction evs with
  | nil => intro s s' l hi h; simp only [run] at h; injection h with h; subst h; simpa [gots] using hi
  | cons e es ih =>
    intro s s' l hi h
    simp only [run] at h
    cases hs : Photon.RingLog.step s e with
    | error m => rw [hs] at h; exact absurd h (by simp)
    | ok s1 =>
      rw [hs] at h
      cases e with
      | got c p seq =>
        have hg := Photon.RingLog.C07_got s s1 c p seq hs
        obtain ⟨_, hs1⟩ := Photon.RingLog.step_ok s s1 _ hs
        have hnot : (p, seq) ∉ l := by
          intro hm; have := (hi.mem p seq).2 hm; rw [hg.2.1] at this; exact absurd this (by simp)
        have hi1 : Inv s1 (l ++ [(p, seq)]) := by
          refine ⟨?_, ?_, ?_⟩
          · intro a b
            rw [hs1]; simp only [eff, Std.HashSet.contains_insert, Bool.or_eq_true, beq_iff_eq, Prod.mk.injEq]
            rw [hi.mem a b]
            constructor
            · intro hm
              rcases hm with hm | hm
              · simp [hm.1, hm.2]
              · exact List.mem_append_left _ hm
            · intro hm
              rcases List.mem_append.1 hm with hm | hm
              · exact Or.inr hm
              · simp only [List.mem_singleton, Prod.mk.injEq] at hm; exact Or.inl ⟨hm.1.symm, hm.2.symm⟩
          · rw [List.nodup_append]
            refine ⟨hi.nodup, by simp, ?_⟩
            intro a ha b hb
            simp only [List.mem_singleton] at hb
            subst hb
            intro hab; subst hab; exact hnot ha
          · rw [hg.2.2.2.2, hi.count]; simp
        have := ih s1 s' _ hi1 h
        simpa [gots, List.append_assoc] using this
      | produced p n =>
        obtain ⟨_, hs1⟩ := Photon.RingLog.step_ok s s1 _ hs
        have hi1 : Inv s1 l := by rw [hs1]; exact ⟨hi.mem, hi.nodup, hi.count⟩
        simpa [gots] using ih s1 s' l hi1 h
      | maxavail n c =>
        obtain ⟨_, hs1⟩ := Photon.RingLog.step_ok s s1 _ hs
        have hi1 : Inv s1 l := by rw [hs1]; exact ⟨hi.mem, hi.nodup, hi.count⟩
        simpa [gots] using ih s1 s' l hi1 h
      | final =>
        obtain ⟨_, hs1⟩ := Photon.RingLog.step_ok s s1 _ hs
        have hi1 : Inv s1 l := by rw [hs1]; exact ⟨hi.mem, hi.nodup, hi.count⟩
        simpa [gots] using ih s1 s' l hi1 h

/-- **C09 (several vCPUs), exactly once.** In every accepted history of a concurrent run no `(sender, seq)` element is
    received twice by anybody, and the acceptor's count is the number of elements received. -/
theorem C09_mv_at_most_once (evs : List Ev) (s' : St) (h : run {} evs = .ok s') :
    (gots evs).Nodup ∧ s'.count = (gots evs).length := by
  have := run_inv evs {} s' [] ⟨by intro p seq; simp, by simp, rfl⟩ h
  simpa using And.intro this.nodup this.count

/-- **nothing lost**: a history accepted up to and including the final event has received as many (distinct) elements as
    the senders' `send()` calls reported true -/
theorem C09_mv_all_received (evs : List Ev) (s s' : St) (h : run {} evs = .ok s) (hf : Photon.RingLog.step s .final = .ok s') :
    (gots evs).Nodup ∧ (gots evs).length = (s.prods.map (sentBy s)).sum := by
  have h1 := C09_mv_at_most_once evs s h
  exact ⟨h1.1, by rw [← h1.2]; exact Photon.RingLog.C07_all_received s s' hf⟩

end Photon.ChanMV
