import Photon.Model.Sock
/-!
# C10 — socket streams over the event engine: ordered, complete, exactly-once bytes

Models: `Photon/Model/Sock.lean` — (A) the specification automaton every single-vCPU run of real photon socket streams over real
kernel sockets and the real event engine must be accepted by (`harness/hsim_sock.cpp` feeds it the API call/return events with
the stream offset and the byte-for-byte verdict of every read), (B) the transfer loop `doio_loop` + `BufStep`/`BufStepV` as a
pure function, compared with the real template on scripted transfer results (`harness/c10_doio.cpp`).
-/
namespace Photon.Sock

theorem step_ok (s s' : St) (e : Ev) (h : step s e = .ok s') : pre s e = none ∧ s' = eff s e := by
  unfold step at h
  cases hp : pre s e with
  | some m => rw [hp] at h; exact absurd h (by simp)
  | none => rw [hp] at h; exact ⟨rfl, by injection h with h; exact h.symm⟩

/-! ### one accepted return -/

/-- **C10, in order and exactly once (one step).** An accepted return of a read-kind call with `n > 0` bytes on a stream on
    which no full-count call has failed: the bytes are the writer's bytes at offsets `[R, R+n)` (the harness compared them
    byte for byte at the offset it reports, and that offset is the automaton's read position), they do not exceed what has been
    handed to write calls, at most `req` bytes are returned, and the read position advances by exactly `n`. -/
theorem C10_read_delivers_next (s s' : St) (t : Nat) (n : Nat) (err off : Nat) (dataok : Bool) (c : Call)
    (hc : s.calls.find? (·.t == t) = some c) (hk : c.kind.isWrite = false) (hn : n > 0)
    (hb : broken (s.dir (peer c.ep)) = false)
    (h : step s (.ret t (Int.ofNat n) err off dataok) = .ok s') :
    dataok = true ∧ off = (s.dir (peer c.ep)).R ∧ n ≤ c.req ∧
    (s.dir (peer c.ep)).R + n ≤ (s.dir (peer c.ep)).W + pendingW s (peer c.ep) ∧
    (s'.dir (peer c.ep)).R = (s.dir (peer c.ep)).R + n ∧
    (s'.dir (peer c.ep)).segs = (s.dir (peer c.ep)).segs ++ [((s.dir (peer c.ep)).R, n)] := by
  obtain ⟨hp, hs⟩ := step_ok s s' _ h
  simp only [pre, hc, hk, Bool.false_eq_true, if_false] at hp
  simp only [preRetRead] at hp
  have hneg : ¬ ((Int.ofNat n) < 0) := Int.not_lt.mpr (Int.ofNat_zero_le n)
  rw [if_neg hneg] at hp
  have htn : (Int.ofNat n).toNat = n := by simp
  rw [htn] at hp
  by_cases c1 : n > c.req
  · rw [if_pos c1] at hp; exact absurd hp (by simp)
  rw [if_neg c1, hb] at hp
  simp only [Bool.false_eq_true, if_false] at hp
  by_cases c2 : n > 0 ∧ ((!dataok || decide (off ≠ (s.dir (peer c.ep)).R)) = true)
  · rw [if_pos c2] at hp; exact absurd hp (by simp)
  rw [if_neg c2] at hp
  by_cases c3 : (s.dir (peer c.ep)).R + n > (s.dir (peer c.ep)).W + pendingW s (peer c.ep)
  · rw [if_pos c3] at hp; exact absurd hp (by simp)
  have hd : dataok = true ∧ off = (s.dir (peer c.ep)).R := by
    have : ¬ ((!dataok || decide (off ≠ (s.dir (peer c.ep)).R)) = true) := fun hx => c2 ⟨hn, hx⟩
    cases dataok with
    | false => simp at this
    | true =>
      refine ⟨rfl, ?_⟩
      by_cases ho : off = (s.dir (peer c.ep)).R
      · exact ho
      · exfalso; apply this; simp [ho]
  have hnz : ¬ n = 0 := by omega
  have e1 : s' = setDir { s with calls := s.calls.filter (·.t != t) } (peer c.ep)
      { s.dir (peer c.ep) with R := (s.dir (peer c.ep)).R + n, segs := (s.dir (peer c.ep)).segs ++ [(off, n)] } := by
    rw [hs]; simp only [eff, hc, hk, Bool.false_eq_true, if_false, htn, hneg, hnz]
  refine ⟨hd.1, hd.2, by omega, by omega, ?_, ?_⟩
  · rw [e1]; simp [setDir]
  · rw [e1, hd.2]; simp [setDir]

/-- **C10, full count.** An accepted non-negative return of `write`/`writev` is the full requested count; of `read`/`readv`
    (on a stream without failed full-count calls) it is the full count unless the stream has ended — the writer shut its side down,
    nothing is being written, and these were exactly the remaining bytes. -/
theorem C10_full_count (s s' : St) (t : Nat) (n : Nat) (err off : Nat) (dataok : Bool) (c : Call)
    (hc : s.calls.find? (·.t == t) = some c) (hf : c.kind.full = true)
    (h : step s (.ret t (Int.ofNat n) err off dataok) = .ok s') :
    (c.kind.isWrite = true → n = c.req) ∧
    (c.kind.isWrite = false → broken (s.dir (peer c.ep)) = false →
      n = c.req ∨ ((s.dir (peer c.ep)).shut = true ∧ (s.dir (peer c.ep)).R + n = (s.dir (peer c.ep)).W ∧ writing s (peer c.ep) = false)) := by
  obtain ⟨hp, _⟩ := step_ok s s' _ h
  have hneg : ¬ ((Int.ofNat n) < 0) := Int.not_lt.mpr (Int.ofNat_zero_le n)
  have htn : (Int.ofNat n).toNat = n := by simp
  constructor
  · intro hw
    simp only [pre, hc, hw, if_true, preRetWrite] at hp
    rw [if_neg hneg, htn] at hp
    by_cases c1 : n > c.req
    · rw [if_pos c1] at hp; exact absurd hp (by simp)
    rw [if_neg c1, hf] at hp
    simp only [if_true] at hp
    by_cases c2 : n = c.req
    · exact c2
    · rw [if_neg c2] at hp; exact absurd hp (by simp)
  · intro hw hb
    simp only [pre, hc, hw, Bool.false_eq_true, if_false, preRetRead] at hp
    rw [if_neg hneg, htn] at hp
    by_cases c1 : n > c.req
    · rw [if_pos c1] at hp; exact absurd hp (by simp)
    rw [if_neg c1, hb] at hp
    simp only [Bool.false_eq_true, if_false] at hp
    by_cases c2 : n > 0 ∧ ((!dataok || decide (off ≠ (s.dir (peer c.ep)).R)) = true)
    · rw [if_pos c2] at hp; exact absurd hp (by simp)
    rw [if_neg c2] at hp
    by_cases c3 : (s.dir (peer c.ep)).R + n > (s.dir (peer c.ep)).W + pendingW s (peer c.ep)
    · rw [if_pos c3] at hp; exact absurd hp (by simp)
    rw [if_neg c3] at hp
    by_cases c4 : n = c.req
    · exact Or.inl c4
    rw [if_neg c4, hf] at hp
    simp only [if_true] at hp
    by_cases c5 : (s.dir (peer c.ep)).shut = true ∧ (s.dir (peer c.ep)).R + n = (s.dir (peer c.ep)).W ∧ (!writing s (peer c.ep)) = true
    · exact Or.inr ⟨c5.1, c5.2.1, by simpa using c5.2.2⟩
    · rw [if_neg c5] at hp; exact absurd hp (by simp)

/-- **C10, `recv`/`send` move at least one byte** (for a non-empty request) unless the stream has ended. -/
theorem C10_at_least_one (s s' : St) (t : Nat) (n : Nat) (err off : Nat) (dataok : Bool) (c : Call)
    (hc : s.calls.find? (·.t == t) = some c) (hf : c.kind.full = false) (hreq : c.req > 0)
    (h : step s (.ret t (Int.ofNat n) err off dataok) = .ok s') :
    (c.kind.isWrite = true → 1 ≤ n ∧ n ≤ c.req) ∧
    (c.kind.isWrite = false → broken (s.dir (peer c.ep)) = false →
      (1 ≤ n ∧ n ≤ c.req) ∨ (n = 0 ∧ (s.dir (peer c.ep)).shut = true ∧ (s.dir (peer c.ep)).R = (s.dir (peer c.ep)).W ∧ writing s (peer c.ep) = false)) := by
  obtain ⟨hp, _⟩ := step_ok s s' _ h
  have hneg : ¬ ((Int.ofNat n) < 0) := Int.not_lt.mpr (Int.ofNat_zero_le n)
  have htn : (Int.ofNat n).toNat = n := by simp
  constructor
  · intro hw
    simp only [pre, hc, hw, if_true, preRetWrite] at hp
    rw [if_neg hneg, htn] at hp
    by_cases c1 : n > c.req
    · rw [if_pos c1] at hp; exact absurd hp (by simp)
    rw [if_neg c1, hf] at hp
    simp only [Bool.false_eq_true, if_false] at hp
    by_cases c2 : c.req > 0 ∧ n = 0
    · rw [if_pos c2] at hp; exact absurd hp (by simp)
    · exact ⟨by omega, by omega⟩
  · intro hw hb
    simp only [pre, hc, hw, Bool.false_eq_true, if_false, preRetRead] at hp
    rw [if_neg hneg, htn] at hp
    by_cases c1 : n > c.req
    · rw [if_pos c1] at hp; exact absurd hp (by simp)
    rw [if_neg c1, hb] at hp
    simp only [Bool.false_eq_true, if_false] at hp
    by_cases c2 : n > 0 ∧ ((!dataok || decide (off ≠ (s.dir (peer c.ep)).R)) = true)
    · rw [if_pos c2] at hp; exact absurd hp (by simp)
    rw [if_neg c2] at hp
    by_cases c3 : (s.dir (peer c.ep)).R + n > (s.dir (peer c.ep)).W + pendingW s (peer c.ep)
    · rw [if_pos c3] at hp; exact absurd hp (by simp)
    rw [if_neg c3] at hp
    by_cases c4 : n = c.req
    · exact Or.inl ⟨by omega, by omega⟩
    rw [if_neg c4, hf] at hp
    simp only [Bool.false_eq_true, if_false] at hp
    by_cases c5 : n > 0
    · exact Or.inl ⟨by omega, by omega⟩
    rw [if_neg c5] at hp
    by_cases c6 : (s.dir (peer c.ep)).shut = true ∧ (s.dir (peer c.ep)).R = (s.dir (peer c.ep)).W ∧ (!writing s (peer c.ep)) = true
    · exact Or.inr ⟨by omega, c6.1, c6.2.1, by simpa using c6.2.2⟩
    · rw [if_neg c6] at hp; exact absurd hp (by simp)

/-- **C10, failures have a cause.** An accepted negative return reports `ETIMEDOUT` only at or after the call's deadline (the
    stream's timeout counted from the call), and any other error only when the peer side of that stream is shut or closed. -/
theorem C10_failure_cause (s s' : St) (t : Nat) (r : Int) (err off : Nat) (dataok : Bool) (c : Call)
    (hc : s.calls.find? (·.t == t) = some c) (hr : r < 0)
    (h : step s (.ret t r err off dataok) = .ok s') :
    (err = ETIMEDOUT → timedOut c.callAt c.to s.now = true) ∧
    (err ≠ ETIMEDOUT → (c.kind.isWrite = true → ((s.dir c.ep).rclosed || (s.dir c.ep).shut) = true) ∧
                        (c.kind.isWrite = false → ((s.dir (peer c.ep)).shut || (s.dir (peer c.ep)).rclosed) = true)) := by
  obtain ⟨hp, _⟩ := step_ok s s' _ h
  cases hw : c.kind.isWrite with
  | true =>
    simp only [pre, hc, hw, if_true, preRetWrite] at hp
    rw [if_pos hr] at hp
    constructor
    · intro he
      rw [if_pos he] at hp
      cases hto : timedOut c.callAt c.to s.now with
      | true => rfl
      | false => rw [hto] at hp; exact absurd hp (by simp)
    · intro he
      rw [if_neg he] at hp
      refine ⟨fun _ => ?_, fun hx => absurd hx (by simp)⟩
      cases hcl : ((s.dir c.ep).rclosed || (s.dir c.ep).shut) with
      | true => rfl
      | false => rw [hcl] at hp; exact absurd hp (by simp)
  | false =>
    simp only [pre, hc, hw, Bool.false_eq_true, if_false, preRetRead] at hp
    rw [if_pos hr] at hp
    constructor
    · intro he
      rw [if_pos he] at hp
      cases hto : timedOut c.callAt c.to s.now with
      | true => rfl
      | false => rw [hto] at hp; exact absurd hp (by simp)
    · intro he
      rw [if_neg he] at hp
      refine ⟨fun hx => absurd hx (by simp), fun _ => ?_⟩
      cases hcl : ((s.dir (peer c.ep)).shut || (s.dir (peer c.ep)).rclosed) with
      | true => rfl
      | false => rw [hcl] at hp; exact absurd hp (by simp)

/-- **C10, nobody hangs past a timeout or next to a ready descriptor.** A quiescence point (every thread blocked, the kernel has
    nothing more to report) is accepted only if no blocked call is past its deadline and no blocked call could already finish:
    a reader with enough bytes (one byte for `recv`) or the end of the stream available, or a writer whose stream's reader is
    blocked as well. -/
theorem C10_quiescent (s s' : St) (h : step s .quiescent = .ok s') :
    ∀ c ∈ s.calls, overdue c s.now = false ∧ stuckCall s c = false := by
  obtain ⟨hp, _⟩ := step_ok s s' _ h
  simp only [pre] at hp
  split at hp
  · exact absurd hp (by simp)
  next h1 =>
    split at hp
    · exact absurd hp (by simp)
    next h2 =>
      intro c hc
      constructor
      · cases ho : overdue c s.now with
        | false => rfl
        | true => exact absurd (List.any_eq_true.2 ⟨c, hc, ho⟩) h1
      · cases hst : stuckCall s c with
        | false => rfl
        | true => exact absurd (List.any_eq_true.2 ⟨c, hc, hst⟩) h2

theorem C10_final_all_returned (s s' : St) (h : step s .final = .ok s') : s.calls = [] := by
  obtain ⟨hp, _⟩ := step_ok s s' _ h
  simp only [pre] at hp
  split at hp
  · next h1 => simpa using h1
  · exact absurd hp (by simp)

/-- **C10, no wake-up by somebody else's event.** The harness reports `spurious` when the engine tells a thread that the descriptor
    and direction it waits for is ready although `poll()` on exactly that descriptor and direction says it is not; no history
    containing such a report is accepted. -/
theorem C10_no_spurious_wakeup (s s' : St) : step s .spurious ≠ .ok s' := by
  intro h; obtain ⟨hp, _⟩ := step_ok s s' _ h; simp [pre] at hp

/-! ### every accepted history -/

/-- consecutive deliveries `(offset, length)` tile `[a, b)` in order -/
def Contig : Nat → List (Nat × Nat) → Nat → Prop
  | a, [], b => a = b
  | a, (o, l) :: t, b => o = a ∧ Contig (a + l) t b

theorem contig_snoc (a b l : Nat) (segs : List (Nat × Nat)) (h : Contig a segs b) : Contig a (segs ++ [(b, l)]) (b + l) := by
  induction segs generalizing a with
  | nil => simp only [Contig] at h; subst h; simp [Contig]
  | cons p t ih =>
    obtain ⟨o, l'⟩ := p
    simp only [Contig] at h
    simp only [List.cons_append, Contig]
    exact ⟨h.1, ih _ h.2⟩

/-- invariant: on a stream without failed full-count calls the deliveries so far tile `[0, R)` -/
def Inv (s : St) : Prop := ∀ e, broken (s.dir e) = false → Contig 0 (s.dir e).segs (s.dir e).R

theorem inv_init : Inv {} := by intro e _; simp [Contig]

theorem inv_of_dir_eq (s s' : St) (hd : s'.dir = s.dir) (hi : Inv s) : Inv s' := by
  intro e hb; rw [hd] at hb ⊢; exact hi e hb

theorem setDir_other (s : St) (e x : Nat) (d : Dir) (hx : x ≠ e) : (setDir s e d).dir x = s.dir x := by simp [setDir, hx]
theorem setDir_same (s : St) (e : Nat) (d : Dir) : (setDir s e d).dir e = d := by simp [setDir]

/-- setting one stream's record to something whose `(segs, R)` still tile, or that is broken, keeps the invariant -/
theorem inv_setDir (s : St) (e : Nat) (d : Dir) (hi : Inv s) (hd : broken d = false → Contig 0 d.segs d.R) :
    Inv (setDir s e d) := by
  intro x hb
  by_cases hx : x = e
  · subst hx; rw [setDir_same] at hb ⊢; exact hd hb
  · rw [setDir_other s e x d hx] at hb ⊢; exact hi x hb

theorem eff_inv (s : St) (ev : Ev) (hi : Inv s) (hp : pre s ev = none) : Inv (eff s ev) := by
  cases ev with
  | call t k ep req => exact inv_of_dir_eq s _ rfl hi
  | setTimeout ep to => exact inv_of_dir_eq s _ rfl hi
  | tick n => exact inv_of_dir_eq s _ rfl hi
  | quiescent => exact hi
  | final => exact hi
  | spurious => exact hi
  | shutdown ep =>
    simp only [eff]
    apply inv_setDir s ep _ hi
    intro hb
    have : broken (s.dir ep) = false := by simpa [broken] using hb
    exact hi ep this
  | close ep =>
    simp only [eff]
    have h1 : Inv (setDir s ep { s.dir ep with shut := true }) := by
      apply inv_setDir s ep _ hi
      intro hb
      have : broken (s.dir ep) = false := by simpa [broken] using hb
      exact hi ep this
    apply inv_setDir _ (peer ep) _ h1
    intro hb
    have : broken ((setDir s ep { s.dir ep with shut := true }).dir (peer ep)) = false := by simpa [broken] using hb
    exact h1 (peer ep) this
  | ret t r err off dataok =>
    simp only [eff]
    cases hc : s.calls.find? (·.t == t) with
    | none => exact hi
    | some c =>
      simp only []
      have hbase : Inv { s with calls := s.calls.filter (·.t != t) } := inv_of_dir_eq s _ rfl hi
      cases hw : c.kind.isWrite with
      | true =>
        simp only [if_true]
        split
        · split
          · apply inv_setDir _ c.ep _ hbase
            intro hb; simp [broken] at hb
          · exact hbase
        · apply inv_setDir _ c.ep _ hbase
          intro hb
          have : broken (s.dir c.ep) = false := by simpa [broken] using hb
          exact hi c.ep this
      | false =>
        simp only [Bool.false_eq_true, if_false]
        split
        · split
          · apply inv_setDir _ (peer c.ep) _ hbase
            intro hb; simp [broken] at hb
          · exact hbase
        next hneg =>
          split
          · exact hbase
          next hnz =>
            apply inv_setDir _ (peer c.ep) _ hbase
            intro hb
            have hb0 : broken (s.dir (peer c.ep)) = false := by simpa [broken] using hb
            -- the guard forces off = R
            simp only [pre, hc, hw, Bool.false_eq_true, if_false, preRetRead] at hp
            rw [if_neg hneg] at hp
            split at hp
            · exact absurd hp (by simp)
            rw [hb0] at hp
            simp only [Bool.false_eq_true, if_false] at hp
            split at hp
            · exact absurd hp (by simp)
            next c2 =>
              have hoff : off = (s.dir (peer c.ep)).R := by
                by_cases ho : off = (s.dir (peer c.ep)).R
                · exact ho
                · exfalso; apply c2; exact ⟨by omega, by simp [ho]⟩
              simp only
              rw [hoff]
              exact contig_snoc 0 _ _ _ (hi (peer c.ep) hb0)

theorem run_inv (evs : List Ev) : ∀ (s s' : St), Inv s → run s evs = .ok s' → Inv s' := by
  induction evs with
  | nil => intro s s' hi h; simp only [run] at h; injection h with h; subst h; exact hi
  | cons e es ih =>
    intro s s' hi h
    simp only [run] at h
    cases hs : step s e with
    | error m => rw [hs] at h; exact absurd h (by simp)
    | ok s1 =>
      rw [hs] at h
      obtain ⟨hp, he⟩ := step_ok s s1 e hs
      exact ih s1 s' (by rw [he]; exact eff_inv s e hi hp) h

/-- **C10, ordered, complete, exactly once (every history).** After every accepted history of calls, returns, timeouts,
    shutdowns, closes and clock ticks — any number of connections, threads and bytes — the deliveries made to the reader of a
    stream (on which no full-count call failed) are consecutive pieces `[0,l₁) [l₁,l₁+l₂) …` of the writer's byte sequence that
    end exactly at the read position: no byte skipped, none delivered twice, none out of order. -/
theorem C10_in_order_exactly_once (evs : List Ev) (s : St) (h : run {} evs = .ok s) (e : Nat) (hb : broken (s.dir e) = false) :
    Contig 0 (s.dir e).segs (s.dir e).R :=
  run_inv evs {} s inv_init h e hb

/-! ### the transfer loop -/

/-- every transfer `doio_loop`+`BufStep` issues asks for exactly the not yet transferred rest of the caller's buffer -/
theorem C10_ioLoop_requests_suffix (rs : List (Option Nat)) : ∀ (count done : Nat) (log : List (Nat × Nat)) (p : Nat × Nat),
    p ∈ (ioLoop rs count done log).2 → p ∈ log ∨ p.1 + p.2 = done + count := by
  induction rs with
  | nil => intro count done log p hp; simp only [ioLoop] at hp; exact Or.inl hp
  | cons r rest ih =>
    intro count done log p hp
    cases r with
    | none =>
      simp only [ioLoop, List.mem_append, List.mem_singleton] at hp
      rcases hp with hp | hp
      · exact Or.inl hp
      · subst hp; exact Or.inr rfl
    | some k =>
      cases k with
      | zero =>
        simp only [ioLoop, List.mem_append, List.mem_singleton] at hp
        rcases hp with hp | hp
        · exact Or.inl hp
        · subst hp; exact Or.inr rfl
      | succ k =>
        simp only [ioLoop] at hp
        split at hp
        · simp only [List.mem_append, List.mem_singleton] at hp
          rcases hp with hp | hp
          · exact Or.inl hp
          · subst hp; exact Or.inr rfl
        · next hlt =>
          rcases ih _ _ _ p hp with h1 | h1
          · simp only [List.mem_append, List.mem_singleton] at h1
            rcases h1 with h1 | h1
            · exact Or.inl h1
            · subst h1; exact Or.inr rfl
          · exact Or.inr (by omega)

/-- the loop's result: a byte count that starts from what was done and never exceeds the request when no transfer moves more than
    it was asked for; it is the full count when only positive transfers occur and they suffice -/
def Fits : List (Option Nat) → Nat → Prop
  | [], _ => True
  | none :: _, _ => True
  | some k :: rest, count => k ≤ count ∧ Fits rest (count - k)

theorem C10_ioLoop_bounds (rs : List (Option Nat)) : ∀ (count done : Nat) (log : List (Nat × Nat)) (m : Nat),
    Fits rs count → (ioLoop rs count done log).1 = some m → done ≤ m ∧ m ≤ done + count := by
  induction rs with
  | nil => intro count done log m _ h; simp only [ioLoop] at h; injection h with h; omega
  | cons r rest ih =>
    intro count done log m hf h
    cases r with
    | none => simp [ioLoop] at h
    | some k =>
      cases k with
      | zero => simp only [ioLoop] at h; injection h with h; omega
      | succ k =>
        simp only [Fits] at hf
        simp only [ioLoop] at h
        split at h
        · injection h with h; omega
        · have := ih _ _ _ m hf.2 h
          omega

/-- a result short of the request means the stream ended (a transfer returned 0) or the script of transfers was exhausted -/
theorem C10_ioLoop_short_means_eof (rs : List (Option Nat)) : ∀ (count done : Nat) (log : List (Nat × Nat)) (m : Nat),
    (ioLoop rs count done log).1 = some m → m < done + count → (some 0) ∈ rs ∨ (rs.all (fun r => r.isSome) = true ∧ done + (rs.filterMap id).sum = m) := by
  induction rs with
  | nil => intro count done log m h _; simp only [ioLoop] at h; injection h with h; right; simp [h]
  | cons r rest ih =>
    intro count done log m h hlt
    cases r with
    | none => simp [ioLoop] at h
    | some k =>
      cases k with
      | zero => left; simp
      | succ k =>
        simp only [ioLoop] at h
        split at h
        · injection h with h; omega
        · rcases ih _ _ _ m h (by omega) with h1 | h1
          · left; simp [h1]
          · right
            refine ⟨by simpa using h1.1, ?_⟩
            simp only [List.filterMap_cons, id, List.sum_cons]
            omega

/-! vectored variant: the views handed to the transfers are suffixes of the flat byte sequence -/

theorem flat_skipEmpty (keep : Nat) (v : List (Nat × Nat)) : flat (skipEmpty keep v) = flat v := by
  induction v with
  | nil => rfl
  | cons p t ih =>
    obtain ⟨a, l⟩ := p
    simp only [skipEmpty]
    split
    · next h => rw [ih]; simp [flat, h.2]
    · rfl

theorem flat_length (v : List (Nat × Nat)) : (flat v).length = total v := by
  induction v with
  | nil => rfl
  | cons p t ih => obtain ⟨a, l⟩ := p; simp [flat, total, ih] at *

theorem flat_dropBytes (v : List (Nat × Nat)) : ∀ n, flat (dropBytes n v) = (flat v).drop n := by
  induction v with
  | nil => intro n; simp [dropBytes, flat]
  | cons p t ih =>
    intro n
    obtain ⟨a, l⟩ := p
    simp only [dropBytes]
    split
    · next h =>
      rw [ih, flat, List.drop_append]
      simp only [List.length_range']
      have : List.drop n (List.range' a l) = [] := by simp [h]
      rw [this]; simp
    · next h =>
      simp only [flat]
      rw [List.drop_append, List.drop_range']
      have : n - (List.range' a l).length = 0 := by simp; omega
      rw [this]; simp

/-- after a transfer the view never starts with an empty element (which would make the next transfer move 0 bytes and be
    mistaken for the end of the stream) -/
theorem skipEmpty0_head (v : List (Nat × Nat)) : ∀ a l rest, skipEmpty 0 v = (a, l) :: rest → l > 0 := by
  induction v with
  | nil => intro a l rest h; simp [skipEmpty] at h
  | cons p t ih =>
    intro a l rest h
    obtain ⟨a', l'⟩ := p
    simp only [skipEmpty] at h
    split at h
    · exact ih a l rest h
    · next hn =>
      injection h with h1 _
      injection h1 with _ h3
      subst h3
      by_cases hz : l' = 0
      · exfalso; apply hn; exact ⟨by omega, hz⟩
      · omega

/-- **C10, resumption in the middle of an iovec.** Every iovec array `doio_loop`+`BufStepV` hands to a transfer denotes a
    suffix of the caller's flat byte sequence: the bytes not yet transferred, whatever the split into elements (zero-length
    elements included) and wherever the previous transfer stopped. -/
theorem C10_ioLoopV_requests_suffix (rs : List (Option Nat)) : ∀ (v : List (Nat × Nat)) (done : Nat) (log : List (List (Nat × Nat))) (w : List (Nat × Nat)),
    w ∈ (ioLoopV rs v done log).2 → w ∈ log ∨ ∃ d, flat w = (flat v).drop d := by
  induction rs with
  | nil => intro v done log w hw; simp only [ioLoopV] at hw; exact Or.inl hw
  | cons r rest ih =>
    intro v done log w hw
    cases r with
    | none =>
      simp only [ioLoopV, List.mem_append, List.mem_singleton] at hw
      rcases hw with hw | hw
      · exact Or.inl hw
      · subst hw; exact Or.inr ⟨0, by simp⟩
    | some k =>
      cases k with
      | zero =>
        simp only [ioLoopV, List.mem_append, List.mem_singleton] at hw
        rcases hw with hw | hw
        · exact Or.inl hw
        · subst hw; exact Or.inr ⟨0, by simp⟩
      | succ k =>
        simp only [ioLoopV] at hw
        split at hw
        · simp only [List.mem_append, List.mem_singleton] at hw
          rcases hw with hw | hw
          · exact Or.inl hw
          · subst hw; exact Or.inr ⟨0, by simp⟩
        · rcases ih _ _ _ w hw with h1 | ⟨d, hd⟩
          · simp only [List.mem_append, List.mem_singleton] at h1
            rcases h1 with h1 | h1
            · exact Or.inl h1
            · subst h1; exact Or.inr ⟨0, by simp⟩
          · right
            refine ⟨k + 1 + d, ?_⟩
            rw [hd, flat_skipEmpty, flat_dropBytes, List.drop_drop]

/-! ### non-vacuity and witnesses -/

/-- a history the automaton accepts: a reader that first times out, then gets the bytes in order, a short count at the end of
    the stream and EOF -/
example : (run {} [.setTimeout 1 (some 100), .call 2 .recv 1 50, .tick 100, .ret 2 (-1) 110 0 false,
    .call 1 .write 0 30, .ret 1 30 0 0 true, .call 2 .recv 1 20, .ret 2 20 0 0 true, .call 2 .read 1 20, .shutdown 0, .ret 2 10 0 20 true,
    .call 2 .recv 1 5, .ret 2 0 0 30 false, .quiescent, .final]).isOk = true := by decide
/-- bytes delivered out of order are rejected -/
example : (run {} [.call 1 .write 0 30, .ret 1 30 0 0 true, .call 2 .recv 1 10, .ret 2 10 0 10 true]).isOk = false := by decide
/-- a reader left blocked next to available bytes is rejected at the quiescence point -/
example : (run {} [.call 2 .recv 1 10, .call 1 .write 0 30, .ret 1 30 0 0 true, .quiescent]).isOk = false := by decide
/-- a short `read()` without end of stream is rejected -/
example : (run {} [.call 1 .write 0 30, .ret 1 30 0 0 true, .call 2 .read 1 20, .ret 2 10 0 0 true]).isOk = false := by decide
example : ioLoop [some 30, some 30, some 40] 100 0 [] = (some 100, [(0, 100), (30, 70), (60, 40)]) := by decide
example : (ioLoopV [some 7, some 3, some 5, some 30] (skipEmpty 1 [(0, 10), (100, 0), (200, 5), (300, 0), (400, 30)]) 0 []).1 = some 45 := by decide

end Photon.Sock
