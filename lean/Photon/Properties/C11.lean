import Photon.Model.Rpc
/-!
# C11 — RPC: each call gets its own response or an error; no access after it returns

Theorems about the specification automaton `Photon.Rpc` (the histories of the real stub are validated against it
by `checks/c11.py`). "The response the server produced for that call's request" is identified the way the protocol
identifies it: the response whose header carries the tag the call's request was sent with.
-/
namespace Photon.Rpc

theorem step_ok (s s' : St) (e : Ev) (h : step s e = .ok s') : pre s e = none ∧ s' = eff s e := by
  unfold step at h
  split at h
  · exact absurd h (by simp)
  · next hp => exact ⟨hp, by injection h with h; exact h.symm⟩

/-- what holds in every reachable state -/
structure Inv (s : St) : Prop where
  pend_hdr : ∀ t rid tag, s.pending = some (t, rid, tag) → (rid, tag) ∈ s.hdrs
  pend_fresh : ∀ t rid tag, s.pending = some (t, rid, tag) → ∀ k n, (s.call k).got ≠ some (rid, n)
  got_hdr : ∀ k rid n, (s.call k).got = some (rid, n) → ∃ tag, (rid, tag) ∈ s.hdrs ∧ (s.call k).tag = some tag
  read_pend : ∀ t k, s.reading = some (t, k) → ∃ rid tag, s.pending = some (t, rid, tag) ∧ (s.call k).tag = some tag
  hdr_fun : ∀ rid tag1 tag2, (rid, tag1) ∈ s.hdrs → (rid, tag2) ∈ s.hdrs → tag1 = tag2
  once : ∀ k1 k2 rid n1 n2, (s.call k1).got = some (rid, n1) → (s.call k2).got = some (rid, n2) → k1 = k2
  fresh : ∀ k, (s.call k).used = false → (s.call k).got = none ∧ (s.call k).tag = none ∧ (s.call k).alive = false

theorem inv_init : Inv {} :=
  ⟨by intro _ _ _ h; simp at h, by intro _ _ _ h; simp at h, by intro _ _ _ h; simp at h,
   by intro _ _ h; simp at h, by intro _ _ _ h; simp at h, by intro _ _ _ _ _ h; simp at h, by intro _ _; exact ⟨rfl, rfl, rfl⟩⟩

/-- an event that changes call records only at `k`, keeping `got` and `tag` of every call, keeps the invariant
    as long as `pending`, `reading` and `hdrs` stay the same -/
theorem inv_of_same (s s' : St)
    (hg : ∀ k, (s'.call k).got = (s.call k).got) (ht : ∀ k, (s'.call k).tag = (s.call k).tag)
    (hu : ∀ k, (s'.call k).used = false → (s.call k).used = false ∧ (s'.call k).alive = (s.call k).alive)
    (hpd : s'.pending = s.pending) (hr : s'.reading = s.reading) (hh : s'.hdrs = s.hdrs) (h : Inv s) : Inv s' := by
  refine ⟨?_, ?_, ?_, ?_, ?_, ?_, ?_⟩
  · intro t rid tag hp; rw [hpd] at hp; rw [hh]; exact h.pend_hdr t rid tag hp
  · intro t rid tag hp k n; rw [hpd] at hp; rw [hg]; exact h.pend_fresh t rid tag hp k n
  · intro k rid n hgot; rw [hg] at hgot; rw [hh, ht]; exact h.got_hdr k rid n hgot
  · intro t k hrd; rw [hr] at hrd; rw [hpd, ht]; exact h.read_pend t k hrd
  · intro rid t1 t2 h1 h2; rw [hh] at h1 h2; exact h.hdr_fun rid t1 t2 h1 h2
  · intro k1 k2 rid n1 n2 h1 h2; rw [hg] at h1 h2; exact h.once k1 k2 rid n1 n2 h1 h2
  · intro k hk; rw [hg, ht, (hu k hk).2]; exact h.fresh k (hu k hk).1

theorem eff_inv (s : St) (e : Ev) (hp : pre s e = none) (h : Inv s) : Inv (eff s e) := by
  cases e <;> simp only [eff]
  case intr => exact h
  case canary => exact h
  case quiescent => exact h
  case final => exact h
  case shutdown => exact inv_of_same s _ (fun _ => rfl) (fun _ => rfl) (fun _ hk => ⟨hk, rfl⟩) rfl rfl rfl h
  case tick n => exact inv_of_same s _ (fun _ => rfl) (fun _ => rfl) (fun _ hk => ⟨hk, rfl⟩) rfl rfl rfl h
  case call t k to =>
    have hu : (s.call k).used = false := by
      simp only [pre, preCall] at hp
      by_cases c1 : (s.inCall t).isSome = true
      · rw [if_pos c1] at hp; exact absurd hp (by simp)
      · rw [if_neg c1] at hp
        cases hu : (s.call k).used with
        | false => rfl
        | true => rw [hu] at hp; simp at hp
    obtain ⟨hg0, ht0, _⟩ := h.fresh k hu
    refine inv_of_same s (effCall s t k to) ?_ ?_ ?_ rfl rfl rfl h
    · intro k'; simp only [effCall, upd]; split
      · next heq => subst heq; simp [hg0]
      · rfl
    · intro k'; simp only [effCall, upd]; split
      · next heq => subst heq; simp [ht0]
      · rfl
    · intro k' hk; simp only [effCall, upd] at hk ⊢; split at hk
      · simp at hk
      · next hne => rw [if_neg hne]; exact ⟨hk, rfl⟩
  case sent t tag k ok =>
    have htag : (s.call k).tag = none ∧ (s.call k).alive = true := by
      simp only [pre, preSent] at hp
      by_cases c1 : s.inCall t ≠ some k ∨ (!(s.call k).alive) = true
      · rw [if_pos c1] at hp; exact absurd hp (by simp)
      · rw [if_neg c1] at hp
        have ha : (s.call k).alive = true := by
          cases ha : (s.call k).alive with
          | true => rfl
          | false => exact absurd (Or.inr (by simp [ha])) c1
        cases ht : (s.call k).tag with
        | none => exact ⟨rfl, ha⟩
        | some x => rw [ht] at hp; simp at hp
    -- a call without a tag has no collected response and is not being read into
    have hgn : (s.call k).got = none := by
      cases hg : (s.call k).got with
      | none => rfl
      | some p =>
        obtain ⟨rid, n⟩ := p
        obtain ⟨tg, _, h2⟩ := h.got_hdr k rid n hg
        rw [htag.1] at h2; exact absurd h2 (by simp)
    refine ⟨h.pend_hdr, ?_, ?_, ?_, h.hdr_fun, ?_, ?_⟩
    · intro t' rid tg hpd k' n; simp only [effSent, upd]; split
      · next heq => subst heq; simp [hgn]
      · exact h.pend_fresh t' rid tg hpd k' n
    · intro k' rid n hgot; simp only [effSent, upd] at hgot ⊢; split at hgot
      · next heq => subst heq; simp [hgn] at hgot
      · next hne => rw [if_neg hne]; exact h.got_hdr k' rid n hgot
    · intro t' k' hr
      obtain ⟨rid, tg, h1, h2⟩ := h.read_pend t' k' hr
      refine ⟨rid, tg, h1, ?_⟩
      simp only [effSent, upd]; split
      · next heq => subst heq; rw [htag.1] at h2; exact absurd h2 (by simp)
      · exact h2
    · intro k1 k2 rid n1 n2 h1 h2; simp only [effSent, upd] at h1 h2
      split at h1
      · next heq => subst heq; simp [hgn] at h1
      · split at h2
        · next heq => subst heq; simp [hgn] at h2
        · exact h.once k1 k2 rid n1 n2 h1 h2
    · intro k' hk; simp only [effSent, upd] at hk ⊢; split at hk
      · next heq =>
        subst heq
        have hfr := h.fresh k' hk
        rw [htag.2] at hfr; exact absurd hfr.2.2 (by simp)
      · next hne => rw [if_neg hne]; exact h.fresh k' hk
  case hdr t rid tag size ok =>
    cases ok with
    | false => simpa [effHdr] using h
    | true =>
      simp only [effHdr, if_true]
      -- guards: no pending header, no body read in progress, `rid` not seen before
      have hg : s.pending = none ∧ s.reading = none ∧ (s.hdrs.any (·.1 == rid)) = false := by
        simp only [pre, preHdr] at hp
        split at hp
        · exact absurd hp (by simp)
        · split at hp
          · exact absurd hp (by simp)
          · next hn1 =>
            split at hp
            · exact absurd hp (by simp)
            · next hn2 =>
              split at hp
              · exact absurd hp (by simp)
              · next hn3 =>
                split at hp
                · exact absurd hp (by simp)
                · next hn4 =>
                  refine ⟨?_, ?_, ?_⟩
                  · cases hpd : s.pending with
                    | none => rfl
                    | some x => rw [hpd] at hn2; simp at hn2
                  · cases hrd : s.reading with
                    | none => rfl
                    | some x => rw [hrd] at hn3; simp at hn3
                  · cases ha : s.hdrs.any (·.1 == rid) with
                    | false => rfl
                    | true => exact absurd ⟨trivial, ha⟩ hn4
      obtain ⟨hpn, hrn, hfr⟩ := hg
      have hnew : ∀ tg, (rid, tg) ∉ s.hdrs := by
        intro tg hm
        have : s.hdrs.any (·.1 == rid) = true := List.any_eq_true.mpr ⟨(rid, tg), hm, by simp⟩
        rw [hfr] at this; exact absurd this (by simp)
      refine ⟨?_, ?_, ?_, ?_, ?_, h.once, h.fresh⟩
      · intro t' rid' tag' hpd; simp only [Option.some.injEq, Prod.mk.injEq] at hpd
        obtain ⟨_, h2, h3⟩ := hpd; subst h2; subst h3; simp
      · intro t' rid' tag' hpd k n hgot; simp only [Option.some.injEq, Prod.mk.injEq] at hpd
        obtain ⟨_, h2, _⟩ := hpd; subst h2
        obtain ⟨tg, hm, _⟩ := h.got_hdr k rid n hgot
        exact hnew tg hm
      · intro k rid' n hgot
        obtain ⟨tg, hm, h2⟩ := h.got_hdr k rid' n hgot
        exact ⟨tg, List.mem_append_left _ hm, h2⟩
      · intro t' k hr; simp only [] at hr; rw [hrn] at hr; exact absurd hr (by simp)
      · intro rid' t1 t2 h1 h2
        simp only [List.mem_append, List.mem_singleton, Prod.mk.injEq] at h1 h2
        rcases h1 with h1 | ⟨h1a, h1b⟩ <;> rcases h2 with h2 | ⟨h2a, h2b⟩
        · exact h.hdr_fun rid' t1 t2 h1 h2
        · subst h2a; exact absurd h1 (hnew t1)
        · subst h1a; exact absurd h2 (hnew t2)
        · rw [h1b, h2b]
  case bodyBegin t k =>
    have hg : ∃ rid tag, s.pending = some (t, rid, tag) ∧ (s.call k).tag = some tag := by
      simp only [pre, preBodyBegin] at hp
      split at hp
      · exact absurd hp (by simp)
      · next rd rid tag hpd =>
        split at hp
        · exact absurd hp (by simp)
        · next hn1 =>
          split at hp
          · exact absurd hp (by simp)
          · split at hp
            · exact absurd hp (by simp)
            · split at hp
              · exact absurd hp (by simp)
              · next hn4 =>
                refine ⟨rid, tag, ?_, ?_⟩
                · have : rd = t := by simpa using hn1
                  rw [hpd, this]
                · have := hn4
                  simp only [not_or, ne_eq, Decidable.not_not] at this
                  exact this.1
    obtain ⟨rid, tag, hpd, htg⟩ := hg
    refine ⟨h.pend_hdr, h.pend_fresh, h.got_hdr, ?_, h.hdr_fun, h.once, h.fresh⟩
    intro t' k' hr
    simp only [effBodyBegin, Option.some.injEq, Prod.mk.injEq] at hr
    obtain ⟨h1, h2⟩ := hr; subst h1; subst h2
    exact ⟨rid, tag, hpd, htg⟩
  case bodyEnd t rid k r =>
    have hg : ∃ rd prid tag, s.pending = some (rd, prid, tag) ∧ s.reading = some (t, k) := by
      simp only [pre, preBodyEnd] at hp
      split at hp
      · exact absurd hp (by simp)
      · next rd prid tag hpd =>
        split at hp
        · exact absurd hp (by simp)
        · next hn1 => exact ⟨rd, prid, tag, hpd, by simpa using hn1⟩
    obtain ⟨rd, prid, tag, hpd, hrd⟩ := hg
    obtain ⟨rid0, tag0, hpd0, htg0⟩ := h.read_pend t k hrd
    have e1 : rd = t ∧ prid = rid0 ∧ tag = tag0 := by
      rw [hpd] at hpd0; simpa using hpd0
    obtain ⟨e1a, e1b, e1c⟩ := e1
    subst e1a; subst e1b; subst e1c
    simp only [effBodyEnd, hpd]
    refine ⟨by intro _ _ _ hx; simp at hx, by intro _ _ _ hx; simp at hx, ?_, by intro _ _ hx; simp at hx, h.hdr_fun, ?_, ?_⟩
    · intro k' rid' n hgot; simp only [upd] at hgot ⊢; split at hgot
      · next heq =>
        subst heq; simp only [Option.some.injEq, Prod.mk.injEq] at hgot
        obtain ⟨hr1, _⟩ := hgot; subst hr1
        rw [if_pos rfl]
        exact ⟨tag, h.pend_hdr rd prid tag hpd, htg0⟩
      · next hne => rw [if_neg hne]; exact h.got_hdr k' rid' n hgot
    · intro k1 k2 rid' n1 n2 h1 h2; simp only [upd] at h1 h2
      split at h1
      · next heq1 =>
        split at h2
        · next heq2 => rw [heq1, heq2]
        · simp only [Option.some.injEq, Prod.mk.injEq] at h1
          obtain ⟨hr1, _⟩ := h1; subst hr1
          exact absurd h2 (h.pend_fresh rd prid tag hpd k2 n2)
      · split at h2
        · simp only [Option.some.injEq, Prod.mk.injEq] at h2
          obtain ⟨hr2, _⟩ := h2; subst hr2
          exact absurd h1 (h.pend_fresh rd prid tag hpd k1 n1)
        · exact h.once k1 k2 rid' n1 n2 h1 h2
    · intro k' hk; simp only [upd] at hk ⊢; split at hk
      · next heq =>
        subst heq
        have := (h.fresh k' hk).2.1
        rw [htg0] at this; exact absurd this (by simp)
      · next hne => rw [if_neg hne]; exact h.fresh k' hk
  case ret t k r content =>
    have hg : ∀ rd k', s.reading = some (rd, k') → rd ≠ t := by
      intro rd k' hrd
      simp only [pre, preRet] at hp
      split at hp
      · exact absurd hp (by simp)
      · split at hp
        · exact absurd hp (by simp)
        · split at hp
          · exact absurd hp (by simp)
          · next hn3 =>
            intro he; subst he
            exact hn3 (by simp [readerIs, hrd])
    refine ⟨?_, ?_, ?_, ?_, h.hdr_fun, ?_, ?_⟩
    · intro t' rid tag hpd
      simp only [effRet] at hpd
      cases hp0 : s.pending with
      | none => rw [hp0] at hpd; simp at hpd
      | some x =>
        obtain ⟨rd, a, b⟩ := x
        rw [hp0] at hpd; simp only [] at hpd
        split at hpd
        · simp at hpd
        · simp only [Option.some.injEq, Prod.mk.injEq] at hpd
          obtain ⟨h1, h2, h3⟩ := hpd; subst h1; subst h2; subst h3
          exact h.pend_hdr rd a b hp0
    · intro t' rid tag hpd k' n
      have hgk : ((effRet s t k).call k').got = (s.call k').got := by
        simp only [effRet, upd]; split
        · next heq => subst heq; rfl
        · rfl
      rw [hgk]
      simp only [effRet] at hpd
      cases hp0 : s.pending with
      | none => rw [hp0] at hpd; simp at hpd
      | some x =>
        obtain ⟨rd, a, b⟩ := x
        rw [hp0] at hpd; simp only [] at hpd
        split at hpd
        · simp at hpd
        · simp only [Option.some.injEq, Prod.mk.injEq] at hpd
          obtain ⟨h1, h2, h3⟩ := hpd; subst h1; subst h2; subst h3
          exact h.pend_fresh rd a b hp0 k' n
    · intro k' rid n hgot
      have hgk : ((effRet s t k).call k').got = (s.call k').got ∧ ((effRet s t k).call k').tag = (s.call k').tag := by
        simp only [effRet, upd]; split
        · next heq => subst heq; exact ⟨rfl, rfl⟩
        · exact ⟨rfl, rfl⟩
      rw [hgk.1] at hgot; rw [hgk.2]; exact h.got_hdr k' rid n hgot
    · intro t' k' hrd
      simp only [effRet] at hrd
      obtain ⟨rid, tag, h1, h2⟩ := h.read_pend t' k' hrd
      have hne := hg t' k' hrd
      refine ⟨rid, tag, ?_, ?_⟩
      · simp only [effRet, h1]; rw [if_neg hne]
      · simp only [effRet, upd]; split
        · next heq => subst heq; exact h2
        · exact h2
    · intro k1 k2 rid n1 n2 h1 h2
      have hgk : ∀ k', ((effRet s t k).call k').got = (s.call k').got := by
        intro k'; simp only [effRet, upd]; split
        · next heq => subst heq; rfl
        · rfl
      rw [hgk] at h1 h2; exact h.once k1 k2 rid n1 n2 h1 h2
    · intro k' hk
      simp only [effRet, upd] at hk ⊢; split at hk
      · next heq =>
        subst heq; rw [if_pos rfl]
        have := h.fresh k' hk
        exact ⟨this.1, this.2.1, rfl⟩
      · next hne => rw [if_neg hne]; exact h.fresh k' hk

theorem run_inv (s s' : St) (evs : List Ev) (h : Inv s) (hr : run s evs = .ok s') : Inv s' := by
  induction evs generalizing s with
  | nil => simp only [run] at hr; injection hr with hr; subst hr; exact h
  | cons e es ih =>
    simp only [run] at hr
    split at hr
    · next s1 hs1 =>
      obtain ⟨hp, he⟩ := step_ok s s1 e hs1
      subst he
      exact ih _ (eff_inv s e hp h) hr
    · exact absurd hr (by simp)

/-- every reachable state satisfies the invariant -/
theorem reachable_inv (evs : List Ev) (s : St) (hr : run {} evs = .ok s) : Inv s := run_inv {} s evs inv_init hr

/-- **C11, a successful call has received exactly its own response.** If `do_call` returns `r > 0` in a reachable
    state, then a response `rid` was collected into this call's buffer, `r` is the size of that body and the whole body
    announced by the header was received (`full`), the header of
    `rid` carried the tag this call's request was sent with, and the bytes the caller sees are those of `rid`. -/
theorem C11_success_has_own_response (s s' : St) (t k : Nat) (r : Int) (content : Option Nat)
    (hi : Inv s) (h : step s (.ret t k r content) = .ok s') (hr : 0 < r) :
    ∃ rid tag, (s.call k).got = some (rid, r) ∧ content = some rid ∧ (rid, tag) ∈ s.hdrs ∧ (s.call k).tag = some tag ∧
      (s.call k).full = true := by
  obtain ⟨hp, _⟩ := step_ok s s' _ h
  simp only [pre, preRet] at hp
  split at hp
  · exact absurd hp (by simp)
  · split at hp
    · exact absurd hp (by simp)
    · split at hp
      · exact absurd hp (by simp)
      · rw [if_pos (by omega)] at hp
        split at hp
        · exact absurd hp (by simp)
        · next rid n hgot =>
          split at hp
          · exact absurd hp (by simp)
          · next hn =>
            have hnr : n = r := by simpa using hn
            subst hnr
            split at hp
            · exact absurd hp (by simp)
            · next hfull =>
              split at hp
              · exact absurd hp (by simp)
              · next hc =>
                have hcont : content = some rid := by
                  by_cases c : content = some rid
                  · exact c
                  · exact absurd ⟨hr, c⟩ hc
                obtain ⟨tag, hm, htg⟩ := hi.got_hdr k rid n hgot
                exact ⟨rid, tag, hgot, hcont, hm, htg, by simpa using hfull⟩

/-- a successful empty response (`r = 0`) was collected too -/
theorem C11_success_collected (s s' : St) (t k : Nat) (r : Int) (content : Option Nat)
    (h : step s (.ret t k r content) = .ok s') (hr : 0 ≤ r) : ∃ rid, (s.call k).got = some (rid, r) := by
  obtain ⟨hp, _⟩ := step_ok s s' _ h
  simp only [pre, preRet] at hp
  split at hp
  · exact absurd hp (by simp)
  · split at hp
    · exact absurd hp (by simp)
    · split at hp
      · exact absurd hp (by simp)
      · first | rw [if_pos hr] at hp | skip
        split at hp
        · exact absurd hp (by simp)
        · next rid n hgot =>
          split at hp
          · exact absurd hp (by simp)
          · next hn => exact ⟨rid, by rw [hgot]; simp at hn; rw [hn]⟩

/-- **C11, a response is delivered to at most one call**, and the tag of a response is a function of the response
    (so "its own response" is well defined): in every reachable state. -/
theorem C11_response_delivered_once (evs : List Ev) (s : St) (hr : run {} evs = .ok s)
    (k1 k2 rid : Nat) (n1 n2 : Int) (h1 : (s.call k1).got = some (rid, n1)) (h2 : (s.call k2).got = some (rid, n2)) :
    k1 = k2 := (reachable_inv evs s hr).once k1 k2 rid n1 n2 h1 h2

/-- **C11, nothing touches a call's buffers after it returned (1/3).** A body read only ever starts into the buffer
    of a call that is still in progress, whose tag is the tag of the header just read, and that has no response yet. -/
theorem C11_body_into_live_call (s s' : St) (t k : Nat) (h : step s (.bodyBegin t k) = .ok s') :
    (s.call k).alive = true ∧ (s.call k).got = none ∧ ∃ rid tag, s.pending = some (t, rid, tag) ∧ (s.call k).tag = some tag := by
  obtain ⟨hp, _⟩ := step_ok s s' _ h
  simp only [pre, preBodyBegin] at hp
  split at hp
  · exact absurd hp (by simp)
  · next rd rid tag hpd =>
    split at hp
    · exact absurd hp (by simp)
    · next hn1 =>
      split at hp
      · exact absurd hp (by simp)
      · split at hp
        · exact absurd hp (by simp)
        · next hn3 =>
          split at hp
          · exact absurd hp (by simp)
          · next hn4 =>
            split at hp
            · exact absurd hp (by simp)
            · next hn5 =>
              have hrd : rd = t := by simpa using hn1
              subst hrd
              simp only [not_or, ne_eq, Decidable.not_not] at hn4
              refine ⟨by simpa using hn3, ?_, rid, tag, hpd, hn4.1⟩
              cases hg : (s.call k).got with
              | none => rfl
              | some x => rw [hg] at hn5; simp at hn5

/-- **(2/3)** the call is still in progress when the body read ends -/
theorem C11_body_end_live (s s' : St) (t rid k : Nat) (r : Int) (h : step s (.bodyEnd t rid k r) = .ok s') :
    (s.call k).alive = true ∧ s.reading = some (t, k) := by
  obtain ⟨hp, _⟩ := step_ok s s' _ h
  simp only [pre, preBodyEnd] at hp
  split at hp
  · exact absurd hp (by simp)
  · split at hp
    · exact absurd hp (by simp)
    · next hn1 =>
      split at hp
      · exact absurd hp (by simp)
      · next hn2 => exact ⟨by simpa using hn2, by simpa using hn1⟩

/-- **(3/3)** a call never returns while a body is being read into its buffer, nor does the reader return in the
    middle of a body read; and the reader only wakes (interrupts) a caller whose response has been collected. -/
theorem C11_no_return_during_collect (s s' : St) (t k : Nat) (r : Int) (content : Option Nat)
    (h : step s (.ret t k r content) = .ok s') : ∀ rd k', s.reading = some (rd, k') → k' ≠ k ∧ rd ≠ t := by
  intro rd k' hrd
  obtain ⟨hp, _⟩ := step_ok s s' _ h
  simp only [pre, preRet] at hp
  split at hp
  · exact absurd hp (by simp)
  · split at hp
    · exact absurd hp (by simp)
    · next hn2 =>
      split at hp
      · exact absurd hp (by simp)
      · next hn3 =>
        constructor
        · intro he; subst he; exact hn2 (by simp [readingInto, hrd])
        · intro he; subst he; exact hn3 (by simp [readerIs, hrd])

theorem C11_wake_only_collected (s s' : St) (target b : Nat) (h : step s (.intr target b) = .ok s') :
    ∃ k, s.inCall target = some k ∧ (s.call k).got.isSome = true := by
  obtain ⟨hp, _⟩ := step_ok s s' _ h
  simp only [pre, preIntr] at hp
  split at hp
  · exact absurd hp (by simp)
  · next k hk =>
    refine ⟨k, hk, ?_⟩
    cases hg : (s.call k).got with
    | none => rw [hg] at hp; simp at hp
    | some x => rfl

/-- **C11, a failing call consumes and corrupts nothing of another call.** The return of a call changes no other
    call's record (response, tag, liveness), and a reader that leaves with a header it has read but not collected
    leaves only a header nobody is waiting for. -/
theorem C11_failed_call_frame (s s' : St) (t k : Nat) (r : Int) (content : Option Nat)
    (h : step s (.ret t k r content) = .ok s') :
    (∀ k', k' ≠ k → s'.call k' = s.call k') ∧
    (r < 0 → ∀ rid tag, s.pending = some (t, rid, tag) →
       ∀ k', k' ∈ waiting s → k' ≠ k → (s.call k').tag ≠ some tag) := by
  obtain ⟨hp, hs⟩ := step_ok s s' _ h
  subst hs
  constructor
  · intro k' hne; simp only [eff, effRet, upd, if_neg hne]
  · intro hr rid tag hpd k' hk' hne htg
    simp only [pre, preRet] at hp
    split at hp
    · exact absurd hp (by simp)
    · split at hp
      · exact absurd hp (by simp)
      · split at hp
        · exact absurd hp (by simp)
        · rw [if_neg (by omega), hpd] at hp
          simp only [true_and] at hp
          split at hp
          · exact absurd hp (by simp)
          · next hn =>
            apply hn
            rw [List.any_eq_true]
            exact ⟨k', hk', by simp [hne, htg]⟩

/-- **C11, at quiescence the stub is neither stalled nor leaking.** Whenever every thread is blocked and some call
    still waits for its response: one of the callers is reading the stream, no response bytes lie unread, the stream
    is not broken, no collected call is still blocked, and the engine's queue holds exactly the outstanding calls
    (plus, possibly, those whose request is still being written). -/
theorem C11_quiescent (s s' : St) (avail qcount : Nat) (closed reading : Bool)
    (h : step s (.quiescent avail qcount closed reading) = .ok s') :
    ((outstanding s).length ≤ qcount ∧ qcount ≤ (outstanding s).length + (unsent s).length) ∧
    (waiting s ≠ [] → reading = true ∧ avail = 0 ∧ closed = false ∧ s.closed = false) := by
  obtain ⟨hp, _⟩ := step_ok s s' _ h
  simp only [pre, preQuiescent] at hp
  split at hp
  · exact absurd hp (by simp)
  · next hn0 =>
    split at hp
    · exact absurd hp (by simp)
    · next hn1 =>
      split at hp
      · exact absurd hp (by simp)
      · next hn2 =>
        split at hp
        · exact absurd hp (by simp)
        · next hn3 =>
          refine ⟨by omega, ?_⟩
          intro hw
          refine ⟨?_, ?_, ?_, ?_⟩
          · cases reading with
            | true => rfl
            | false => exact absurd ⟨hw, by simp⟩ hn3
          · by_cases c : avail > 0
            · exact absurd ⟨hw, c⟩ hn2
            · omega
          · cases closed with
            | false => rfl
            | true => exact absurd ⟨hw, Or.inl rfl⟩ hn1
          · cases hc : s.closed with
            | false => rfl
            | true => exact absurd ⟨hw, Or.inr hc⟩ hn1

/-- after every call has returned the engine's queue is empty -/
theorem C11_queue_drains (s s' : St) (q : Nat) (h : step s (.final q) = .ok s') : q = 0 := by
  obtain ⟨hp, _⟩ := step_ok s s' _ h
  simp only [pre] at hp
  by_cases c : q ≠ 0
  · rw [if_pos c] at hp; exact absurd hp (by simp)
  · simpa using c

/-! ### witnesses -/

/-- the history of finding F4 (a follower's deadline passes while the reader is collecting its response: the
    follower returns, then the body read into its buffer ends) is rejected … -/
theorem C11_f4_witness_rejected :
    (run {} [.call 1 1 none, .sent 1 1 1 true, .call 2 2 (some 20000), .sent 2 2 2 true,
             .tick 1000, .hdr 1 2 2 16 true, .bodyBegin 1 2, .tick 20000, .ret 2 2 (-1) none]).isOk = false := by decide

/-- … and the repaired behaviour (the follower waits for the reader to finish, then returns) is accepted;
    this also shows the hypotheses of the theorems above are satisfiable -/
example :
    (run {} [.call 1 1 none, .sent 1 1 1 true, .call 2 2 (some 20000), .sent 2 2 2 true,
             .quiescent 0 2 false true,
             .tick 1000, .hdr 1 2 2 16 true, .bodyBegin 1 2, .quiescent 0 1 false true, .tick 20000, .tick 60000,
             .bodyEnd 1 2 2 16, .intr 2 1, .ret 2 2 16 (some 2),
             .hdr 1 1 1 16 true, .bodyBegin 1 1, .bodyEnd 1 1 1 16, .ret 1 1 16 (some 1), .final 0]).isOk = true := by decide

/-- a success reported for a body that was cut short by end-of-stream is rejected -/
example :
    (run {} [.call 1 1 none, .sent 1 1 1 true, .hdr 1 1 1 64 true, .bodyBegin 1 1, .bodyEnd 1 1 1 20,
             .ret 1 1 20 (some 1)]).isOk = false := by decide

/-- a response collected into the buffer of a call with a different tag is rejected -/
example :
    (run {} [.call 1 1 none, .sent 1 1 1 true, .call 2 2 none, .sent 2 2 2 true,
             .hdr 1 7 2 16 true, .bodyBegin 1 1]).isOk = false := by decide

end Photon.Rpc
