import Photon.Model.Ser
/-!
# C12 — RPC serialization: lossless round trip; hostile bytes never read out of bounds

The theorems are about `Photon.Ser.deserialize`, the flat-byte model of `DeserializerIOV::deserialize<T>` for an
arbitrary message schema. (How the bytes are split over iovec elements is below this model: the primitives
`extract_back`, `extract_front_continuous`, `extract_front` are proved equal to their flat effect in C14; the
differential check runs every input under several fragmentations.)
-/
namespace Photon.Ser

/-- every string claimed by one pass is a consecutive piece of the input: the input is the claimed strings in
    order followed by what is left — for *any* body bytes, i.e. any lengths a hostile sender wrote -/
theorem claim_contained (body : Bytes) (fs : List Field) : ∀ (rest : Bytes) (r : List Bytes) (rest' : Bytes),
    claim body fs rest = (r, rest', false) → rest = r.flatten ++ rest' ∧ r.length = fs.length := by
  induction fs with
  | nil =>
    intro rest r rest' h
    simp only [claim, Prod.mk.injEq] at h
    obtain ⟨h1, h2, _⟩ := h
    subst h1; subst h2; simp
  | cons f fs ih =>
    intro rest r rest' h
    simp only [claim] at h
    split at h
    · next hle =>
      cases hc : claim body fs (rest.drop (le64 body f.lenOff)) with
      | mk r1 p =>
        obtain ⟨rest1, bad⟩ := p
        rw [hc] at h
        simp only [Prod.mk.injEq] at h
        obtain ⟨h1, h2, h3⟩ := h
        subst h1; subst h2; subst h3
        obtain ⟨ih1, ih2⟩ := ih _ r1 rest1 hc
        constructor
        · simp only [List.flatten_cons, List.append_assoc]
          rw [← ih1, List.take_append_drop]
        · simp [ih2]
    · cases hc : claim body fs rest with
      | mk r1 p =>
        obtain ⟨rest1, bad⟩ := p
        rw [hc] at h
        simp at h

/-- **C12, hostile bytes: an accepted message lies inside the supplied bytes.** Whatever the byte string, if
    `deserialize` accepts it then the input minus its last `B` bytes (the body) is exactly: the first-pass fields in
    order, then the second-pass fields in order, then unclaimed slack; every field of the result is one of those
    pieces. Nothing outside the input is ever part of a field. -/
theorem C12_accepted_inside_input (sch : Schema) (wire : Bytes) (fs : List Bytes) (sc : List Nat)
    (h : deserialize sch wire = some (fs, sc)) :
    sch.B ≤ wire.length ∧
    ∃ a n slack, wire.take (wire.length - sch.B) = a.flatten ++ n.flatten ++ slack ∧ fs = merge sch.fields a n ∧
      a.length = (sch.fields.filter (·.aligned)).length ∧ n.length = (sch.fields.filter (!·.aligned)).length := by
  unfold deserialize at h
  split at h
  · exact absurd h (by simp)
  · next hB =>
    dsimp only at h
    split at h
    · exact absurd h (by simp)
    · cases hc1 : claim (wire.drop (wire.length - sch.B)) (sch.fields.filter (·.aligned)) (wire.take (wire.length - sch.B)) with
      | mk a p1 =>
        obtain ⟨rest1, bad1⟩ := p1
        cases hc2 : claim (wire.drop (wire.length - sch.B)) (sch.fields.filter (!·.aligned)) rest1 with
        | mk n p2 =>
          obtain ⟨rest2, bad2⟩ := p2
          simp only [hc1, hc2] at h
          split at h
          · exact absurd h (by simp)
          · next hbad =>
            have hb : bad1 = false ∧ bad2 = false := by
              cases bad1 <;> cases bad2 <;> simp_all
            obtain ⟨hb1, hb2⟩ := hb
            subst hb1; subst hb2
            obtain ⟨e1, l1⟩ := claim_contained _ _ _ _ _ hc1
            obtain ⟨e2, l2⟩ := claim_contained _ _ _ _ _ hc2
            simp only [Option.some.injEq, Prod.mk.injEq] at h
            refine ⟨by omega, a, n, rest2, ?_, h.1.symm, l1, l2⟩
            rw [e1, e2, List.append_assoc]

/-- a message with too few bytes for its body, or whose checksum does not verify, is rejected -/
theorem C12_rejects_short_or_unchecked (sch : Schema) (wire : Bytes)
    (h : wire.length < sch.B ∨
         checksumOk sch (wire.take (wire.length - sch.B)) (wire.drop (wire.length - sch.B)) = false) :
    deserialize sch wire = none := by
  unfold deserialize
  rcases h with h | h
  · rw [if_pos h]
  · split
    · rfl
    · simp [h]

/-- a field whose claimed length exceeds what is left of the input makes the whole message fail -/
theorem claim_fails_when_short (body : Bytes) (f : Field) (fs : List Field) (rest : Bytes)
    (h : rest.length < le64 body f.lenOff) : (claim body (f :: fs) rest).2.2 = true := by
  simp only [claim]
  rw [if_neg (by omega)]

/-! ### round trip -/

/-- the lengths stored in the body are the lengths of the data -/
def LensMatch (body : Bytes) : List Field → List Bytes → Prop
  | [], [] => True
  | f :: fs, d :: ds => le64 body f.lenOff = d.length ∧ LensMatch body fs ds
  | _, _ => False

theorem claim_roundtrip (body : Bytes) (fs : List Field) : ∀ (ds : List Bytes) (tail : Bytes),
    LensMatch body fs ds → claim body fs (ds.flatten ++ tail) = (ds, tail, false) := by
  induction fs with
  | nil =>
    intro ds tail h
    cases ds with
    | nil => simp [claim]
    | cons d ds => simp [LensMatch] at h
  | cons f fs ih =>
    intro ds tail h
    cases ds with
    | nil => simp [LensMatch] at h
    | cons d ds =>
      simp only [LensMatch] at h
      obtain ⟨h1, h2⟩ := h
      have ih' := ih ds tail h2
      simp only [claim, h1, List.flatten_cons, List.append_assoc, List.length_append]
      rw [if_pos (by omega)]
      have e1 : List.drop d.length (d ++ (ds.flatten ++ tail)) = ds.flatten ++ tail := List.drop_left
      have e2 : List.take d.length (d ++ (ds.flatten ++ tail)) = d := List.take_left
      rw [e1, e2, ih']

/-- **C12, lossless round trip.** For every schema, every content of the first-pass fields `A` and second-pass
    fields `N` (any lengths, including empty), and every body of `B` bytes that stores those lengths (and a
    verifying checksum, for a checked message): the wire `A ++ N ++ body` — which is what `SerializerIOV::serialize`
    emits — deserializes to exactly those fields, in declaration order, and the body's fixed fields. -/
theorem C12_roundtrip (sch : Schema) (A N : List Bytes) (body : Bytes) (hB : body.length = sch.B)
    (hA : LensMatch body (sch.fields.filter (·.aligned)) A)
    (hN : LensMatch body (sch.fields.filter (!·.aligned)) N)
    (hck : checksumOk sch (A.flatten ++ N.flatten) body = true) :
    deserialize sch (A.flatten ++ N.flatten ++ body) = some (merge sch.fields A N, scalarsOf sch body) := by
  unfold deserialize
  have hlen : (A.flatten ++ N.flatten ++ body).length - sch.B = (A.flatten ++ N.flatten).length := by
    simp only [List.length_append, hB]; omega
  rw [if_neg (by simp only [List.length_append, hB]; omega), hlen]
  have hd : List.drop (A.flatten ++ N.flatten).length (A.flatten ++ N.flatten ++ body) = body := List.drop_left
  have ht : List.take (A.flatten ++ N.flatten).length (A.flatten ++ N.flatten ++ body) = A.flatten ++ N.flatten := List.take_left
  rw [hd, ht]
  dsimp only
  rw [hck]
  simp only [Bool.not_true, Bool.false_eq_true, if_false]
  rw [claim_roundtrip body _ A N.flatten hA]
  have := claim_roundtrip body _ N [] hN
  rw [List.append_nil] at this
  simp only [this, Bool.or_self, Bool.false_eq_true, if_false]

/-! ### sorted map: anchoring a slice -/

/-- **C12, a slice taken from the wire anchors inside the base buffer** (or to the empty string): the anchored
    string is a contiguous piece of the base buffer, whatever offset and length the index carries. -/
theorem C12_anchor_inside (base : Bytes) (off len : Nat) :
    ∃ pre post, base = pre ++ anchor base off len ++ post := by
  unfold anchor
  split
  · next h =>
    refine ⟨base.take off, (base.drop off).drop len, ?_⟩
    rw [List.append_assoc, List.take_append_drop, List.take_append_drop]
  · exact ⟨[], base, by simp⟩

/-! ### non-vacuity: a concrete schema, a round trip and a rejected lie -/
def demoSchema : Schema := { B := 16, fields := [⟨false, 0, false⟩, ⟨false, 8, true⟩], scalars := [], crc := none }
example : deserialize demoSchema ([7, 7, 7] ++ [1, 2] ++ [2,0,0,0,0,0,0,0, 3,0,0,0,0,0,0,0]) = some ([[1, 2], [7, 7, 7]], []) := by decide
example : deserialize demoSchema ([7, 7, 7] ++ [1, 2] ++ [9,0,0,0,0,0,0,0, 3,0,0,0,0,0,0,0]) = none := by decide

/-! ### finding F17: the checksum of a `CheckedMessage` does not cover the variable-length fields

`validate_checksum` accumulates the hash in the `m_checksum` member itself, which is the first bytes of the body. When
the body is hashed, that member holds the hash of the fields, and a CRC seeded with `h` over data that begins with the
bytes of `h` is the CRC of zero bytes seeded with 0: the fields' contribution cancels. Witness: a checked message whose
body is just the checksum field accepts *any* field bytes with a stored checksum of 0. -/
def checkedSchema : Schema := { B := 4, fields := [], scalars := [], crc := some 0 }
theorem C12_checksum_blind_witness :
    checksumOk checkedSchema [1, 2, 3] [0, 0, 0, 0] = true ∧ checksumOk checkedSchema [9, 9, 9, 7] [0, 0, 0, 0] = true ∧
    checksumOk checkedSchema [] [0, 0, 0, 0] = true := by decide +kernel

end Photon.Ser
