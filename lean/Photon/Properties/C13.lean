import Photon.Model.Http
/-! # C13 — HTTP/1.1 framing (theorems below) -/
namespace Photon.Http

theorem untilChar_length (c : Nat) : ∀ b : Bytes, (untilChar c b).1.length + (untilChar c b).2.length ≤ b.length
  | [] => by simp [untilChar]
  | x :: r => by
    have ih := untilChar_length c r
    simp only [untilChar]
    split
    · simp
    · simp only [List.length_cons]; omega

end Photon.Http
