import Photon.Model.Http
/-!
# C13 — HTTP/1.1 framing

The specification `Photon.Http` is a function of the whole byte string of a message, so its result cannot depend on
how the bytes were split across `recv()` calls; that the *implementation* (an incremental parser and incremental body
readers) computes this function for every fragmentation and every read size is what `checks/c13.py` compares.
Theorems here are about the coding itself:
* `C13_chunked_roundtrip`: what the library's chunked writer emits for any sequence of non-empty chunks decodes to
  exactly the concatenation of the chunks (sizes in hex of any length, data that itself contains CR LF);
* `C13_chunked_inside_input`: decoded bytes are never more than the input holds (nothing from outside the message),
  and the decoder is total (structural recursion on a fuel bounded by the input length: no endless loop);
* `C13_length_body`: a Content-Length body is exactly the next `n` bytes (fewer only if the input ends).
-/
namespace Photon.Http

theorem untilChar_length (c : Nat) : ∀ b : Bytes, (untilChar c b).1.length + (untilChar c b).2.length ≤ b.length
  | [] => by simp [untilChar]
  | x :: r => by
    have ih := untilChar_length c r
    simp only [untilChar]
    split
    · simp
    · simp only [List.length_cons]; omega

/-! ### hexadecimal sizes -/

def IsHexDigitChar (b : Nat) : Prop := ∃ d, d < 16 ∧ b = hexDigitChar d

theorem hexDigit_char (d : Nat) (h : d < 16) : hexDigit (hexDigitChar d) = some d := by
  unfold hexDigit hexDigitChar
  by_cases h10 : d < 10
  · simp only [h10, if_true]
    rw [if_pos (by omega)]
    congr 1; omega
  · simp only [h10, if_false]
    rw [if_neg (by omega), if_pos (by omega)]
    congr 1; omega

theorem hexDigitChar_ne_CR (d : Nat) (h : d < 16) : hexDigitChar d ≠ CR := by
  unfold hexDigitChar CR
  split <;> omega

theorem hexVal_snoc (l : Bytes) (hl : ∀ x ∈ l, IsHexDigitChar x) (d : Nat) (hd : d < 16) :
    ∀ acc, hexVal (l ++ [hexDigitChar d]) acc = hexVal l acc * 16 + d := by
  induction l with
  | nil => intro acc; simp [hexVal, hexDigit_char d hd]
  | cons x r ih =>
    intro acc
    obtain ⟨dx, hdx, rfl⟩ := hl x (by simp)
    simp only [List.cons_append, hexVal, hexDigit_char dx hdx]
    exact ih (fun y hy => hl y (by simp [hy])) _

theorem toHex_spec : ∀ (fuel n : Nat), n < fuel →
    (∀ x ∈ toHex fuel n, IsHexDigitChar x) ∧ hexVal (toHex fuel n) 0 = n ∧ toHex fuel n ≠ []
  | 0, n, h => by omega
  | fuel + 1, n, h => by
    simp only [toHex]
    by_cases h16 : n < 16
    · simp only [h16, if_true]
      refine ⟨?_, ?_, by simp⟩
      · intro x hx; simp only [List.mem_singleton] at hx; exact ⟨n, h16, hx⟩
      · simp [hexVal, hexDigit_char n h16]
    · simp only [h16, if_false]
      have hlt : n / 16 < fuel := by omega
      obtain ⟨h1, h2, h3⟩ := toHex_spec fuel (n / 16) hlt
      have hm : n % 16 < 16 := Nat.mod_lt _ (by omega)
      refine ⟨?_, ?_, by simp⟩
      · intro x hx
        simp only [List.mem_append, List.mem_singleton] at hx
        rcases hx with hx | hx
        · exact h1 x hx
        · exact ⟨n % 16, hm, hx⟩
      · rw [hexVal_snoc _ h1 _ hm, h2]; omega

theorem hexOf_spec (n : Nat) : (∀ x ∈ hexOf n, x ≠ CR) ∧ hexVal (hexOf n) 0 = n ∧ hexOf n ≠ [] := by
  obtain ⟨h1, h2, h3⟩ := toHex_spec (n + 1) n (by omega)
  refine ⟨?_, h2, h3⟩
  intro x hx
  obtain ⟨d, hd, rfl⟩ := h1 x hx
  exact hexDigitChar_ne_CR d hd

/-! ### finding the end of a size line -/

theorem findSub_CRLF (d : Bytes) (hd : ∀ x ∈ d, x ≠ CR) (r : Bytes) :
    findSub [CR, LF] (d ++ CR :: LF :: r) = some d.length := by
  induction d with
  | nil => simp [findSub, List.isPrefixOf]
  | cons x t ih =>
    have hx : x ≠ CR := hd x (by simp)
    have := ih (fun y hy => hd y (by simp [hy]))
    simp only [List.cons_append, findSub, List.isPrefixOf, this]
    have : (CR == x) = false := by simp [Ne.symm hx]
    simp [this]

/-! ### the chunked coding round trip -/

theorem decode_terminator (fuel : Nat) : decodeChunked (fuel + 1) [48, CR, LF, CR, LF] = some [] := by
  have h := findSub_CRLF [48] (by intro x hx; simp at hx; subst hx; decide) [CR, LF]
  simp only [List.cons_append, List.nil_append] at h
  simp only [decodeChunked, h]
  simp [hexVal, hexDigit]

/-- **C13, chunked writer → reader round trip.** For every list of non-empty chunks (any sizes, any bytes — also
    bytes that look like CR LF or like size lines), decoding what the chunked writer emits yields exactly the
    concatenation of the chunks. (`fuel`: two steps per chunk plus one for the terminator.) -/
theorem C13_chunked_roundtrip : ∀ (cs : List Bytes), (∀ c ∈ cs, c ≠ []) → ∀ fuel, 2 * cs.length + 1 ≤ fuel →
    decodeChunked fuel (encodeChunked cs) = some cs.flatten
  | [], _, fuel, hf => by
    cases fuel with
    | zero => omega
    | succ f => simpa [encodeChunked] using decode_terminator f
  | c :: cs, hne, fuel, hf => by
    have hc : c ≠ [] := hne c (by simp)
    have hlen : 0 < c.length := List.length_pos_iff.mpr hc
    obtain ⟨hx1, hx2, hx3⟩ := hexOf_spec c.length
    -- peel two steps of fuel
    match fuel, hf with
    | f + 2, hf =>
      have ih := C13_chunked_roundtrip cs (fun x hx => hne x (by simp [hx])) f (by simp only [List.length_cons] at hf; omega)
      -- shape of the encoded input
      have hshape : encodeChunked (c :: cs) = hexOf c.length ++ CR :: LF :: (c ++ CR :: LF :: encodeChunked cs) := by
        simp [encodeChunked, encodeChunk, List.append_assoc]
      rw [hshape]
      have hfind := findSub_CRLF (hexOf c.length) hx1 (c ++ CR :: LF :: encodeChunked cs)
      have hp : (hexOf c.length).length ≠ 0 := by
        intro h0; exact hx3 (List.length_eq_zero_iff.mp h0)
      -- first step: the size line
      rw [decodeChunked, hfind]
      simp only [hp, if_false]
      have htake : List.take (hexOf c.length).length (hexOf c.length ++ CR :: LF :: (c ++ CR :: LF :: encodeChunked cs)) = hexOf c.length :=
        List.take_left
      have hdrop : List.drop ((hexOf c.length).length + 2) (hexOf c.length ++ CR :: LF :: (c ++ CR :: LF :: encodeChunked cs))
          = c ++ CR :: LF :: encodeChunked cs := by
        rw [← List.drop_drop, List.drop_left]; rfl
      rw [htake, hdrop, hx2]
      have hn0 : c.length ≠ 0 := by omega
      simp only [hn0, if_false]
      rw [if_neg (by simp)]
      have ht2 : List.take c.length (c ++ CR :: LF :: encodeChunked cs) = c := List.take_left
      have hd2 : List.drop c.length (c ++ CR :: LF :: encodeChunked cs) = CR :: LF :: encodeChunked cs := List.drop_left
      rw [ht2, hd2]
      -- second step: the CRLF after the data is an empty line
      have hfind2 : findSub [CR, LF] (CR :: LF :: encodeChunked cs) = some 0 := by simp [findSub, List.isPrefixOf]
      rw [decodeChunked, hfind2]
      simp only [if_true, Nat.zero_add, List.drop_succ_cons, List.drop_zero]
      rw [ih]
      simp

/-- **C13, the decoded body comes from inside the message.** Whatever the input (malformed or not), the chunked
    decoder terminates (it is a total function: structural recursion on the fuel) and returns no more bytes than the
    input holds. -/
theorem C13_chunked_inside_input : ∀ (fuel : Nat) (b out : Bytes), decodeChunked fuel b = some out → out.length ≤ b.length
  | 0, b, out, h => by simp [decodeChunked] at h
  | fuel + 1, b, out, h => by
    simp only [decodeChunked] at h
    split at h
    · exact absurd h (by simp)
    · next p hp =>
      split at h
      · have := C13_chunked_inside_input fuel _ out h
        simp only [List.length_drop] at this; omega
      · split at h
        · simp only [Option.some.injEq] at h; subst h; simp
        · split at h
          · exact absurd h (by simp)
          · next hle =>
            cases hr : decodeChunked fuel (List.drop (hexVal (List.take p b) 0) (List.drop (p + 2) b)) with
            | none => rw [hr] at h; simp at h
            | some o =>
              rw [hr] at h
              simp only [Option.map_some, Option.some.injEq] at h
              subst h
              have := C13_chunked_inside_input fuel _ o hr
              simp only [List.length_append, List.length_take, List.length_drop] at this ⊢
              omega

/-- **C13, a Content-Length body is the next `n` bytes** (all of what follows, if the input ends earlier), and a
    close-delimited body is everything that follows. -/
theorem C13_length_body (n : Nat) (after : Bytes) :
    bodyOf (.length n) after = after.take n ∧ (bodyOf (.length n) after).length = min n after.length ∧
    bodyOf .untilClose after = after := by
  simp [bodyOf]

/-! ### non-vacuity -/
example : decodeChunked 10 (encodeChunked [[1, 13, 10, 2], [7]]) = some [1, 13, 10, 2, 7] := by decide
example : (parseRequest ([71, 69, 84, 32, 47, 120, 32, 72, 84, 84, 80, 47, 49, 46, 49, 13, 10, 67, 111, 110, 116, 101, 110, 116, 45, 76, 101,
    110, 103, 116, 104, 58, 32, 51, 13, 10, 13, 10, 97, 98, 99, 100, 101, 102])).map (·.body) = some [97, 98, 99] := by decide +kernel

/-! ### the header is found independently of fragmentation -/

theorem isPrefixOf_append_of_le (p l f : Bytes) (h : p.length ≤ l.length) : p.isPrefixOf (l ++ f) = p.isPrefixOf l := by
  induction p generalizing l with
  | nil => simp
  | cons a p ih =>
    cases l with
    | nil => simp at h
    | cons b l =>
      simp only [List.cons_append, List.isPrefixOf]
      rw [ih l (by simpa using h)]

theorem findSub_none_cons (pat : Bytes) (b : Nat) (r : Bytes) (h : findSub pat (b :: r) = none) :
    pat.isPrefixOf (b :: r) = false ∧ findSub pat r = none := by
  simp only [findSub] at h
  cases hq : pat.isPrefixOf (b :: r) with
  | true => rw [hq] at h; simp at h
  | false =>
    rw [hq] at h
    refine ⟨rfl, ?_⟩
    cases hf : findSub pat r with
    | none => rfl
    | some v => rw [hf] at h; simp at h

/-- **look-back lemma**: if the bytes received so far contain no terminator, the first terminator of `buf ++ f` is found by searching
    only the last 3 bytes of `buf` followed by `f` -/
theorem findSub_lookback (buf f : Bytes) (h : findSub TERM buf = none) :
    findSub TERM (buf ++ f) = (findSub TERM (buf.drop (buf.length - 3) ++ f)).map (· + (buf.length - 3)) := by
  induction buf with
  | nil => simp
  | cons b r ih =>
    obtain ⟨hp, hr⟩ := findSub_none_cons TERM b r h
    by_cases hl : (b :: r).length ≤ 3
    · have : (b :: r).length - 3 = 0 := by omega
      rw [this]; simp
    · have hlen : TERM.length ≤ (b :: r).length := by simp [TERM] at hl ⊢; omega
      have e1 : (b :: r).length - 3 = (r.length - 3) + 1 := by simp at hl ⊢; omega
      rw [e1, List.drop_succ_cons]
      simp only [List.cons_append, findSub]
      have hp2 : TERM.isPrefixOf (b :: (r ++ f)) = false := by
        have := isPrefixOf_append_of_le TERM (b :: r) f hlen
        simp only [List.cons_append] at this
        rw [this]; exact hp
      rw [hp2]
      simp only [Bool.false_eq_true, if_false]
      rw [ih hr]
      cases findSub TERM (List.drop (r.length - 3) r ++ f) with
      | none => rfl
      | some v => simp; omega

theorem isPrefixOf_length (p l : Bytes) (h : p.isPrefixOf l = true) : p.length ≤ l.length := by
  induction p generalizing l with
  | nil => simp
  | cons a p ih =>
    cases l with
    | nil => simp [List.isPrefixOf] at h
    | cons b l =>
      simp only [List.isPrefixOf, Bool.and_eq_true] at h
      have := ih l h.2
      simp only [List.length_cons]; omega

theorem findSub_some_bound (pat : Bytes) : ∀ (l : Bytes) (v : Nat), findSub pat l = some v → v + pat.length ≤ l.length
  | [], v, h => by
    simp only [findSub] at h
    split at h
    · next hp => injection h with h; subst h; simp [hp]
    · exact absurd h (by simp)
  | b :: r, v, h => by
    simp only [findSub] at h
    cases hq : pat.isPrefixOf (b :: r) with
    | true =>
      rw [hq] at h; simp only [if_true] at h; injection h with h; subst h
      have := isPrefixOf_length pat (b :: r) hq
      omega
    | false =>
      rw [hq] at h
      simp only [Bool.false_eq_true, if_false] at h
      cases hf : findSub pat r with
      | none => rw [hf] at h; simp at h
      | some w =>
        rw [hf] at h; simp only [Option.map_some] at h; injection h with h
        have := findSub_some_bound pat r w hf
        simp; omega

/-- the first occurrence stays the first occurrence when more bytes follow -/
theorem findSub_append_some (pat : Bytes) : ∀ (l g : Bytes) (v : Nat), findSub pat l = some v → findSub pat (l ++ g) = some v
  | [], g, v, h => by
    simp only [findSub] at h
    split at h
    · next hp => injection h with h; subst h; subst hp; cases g <;> simp [findSub]
    · exact absurd h (by simp)
  | b :: r, g, v, h => by
    have hb := findSub_some_bound pat (b :: r) v h
    have hpre : pat.isPrefixOf (b :: (r ++ g)) = pat.isPrefixOf (b :: r) := by
      have := isPrefixOf_append_of_le pat (b :: r) g (by omega)
      simpa using this
    simp only [findSub] at h
    simp only [List.cons_append, findSub, hpre]
    cases hq : pat.isPrefixOf (b :: r) with
    | true => rw [hq] at h; simpa using h
    | false =>
      rw [hq] at h
      simp only [Bool.false_eq_true, if_false] at h ⊢
      cases hf : findSub pat r with
      | none => rw [hf] at h; simp at h
      | some w =>
        rw [hf] at h
        rw [findSub_append_some pat r g w hf]
        exact h

/-- **C13, the header is found independently of fragmentation.** For every split of the received bytes into fragments (any
    sizes, including a terminator cut anywhere) the incremental search of `append_bytes` — which looks only at each new fragment and
    the 3 bytes before it — reports the end of the header exactly where the first `CRLF CRLF` of the concatenated bytes ends, as soon
    as the fragment containing its last byte has arrived, and reports nothing if there is none. -/
theorem C13_incremental_search (frags : List Bytes) (buf : Bytes) (h : findSub TERM buf = none) :
    scanFrags buf frags = (findSub TERM (buf ++ frags.flatten)).map (· + 4) := by
  induction frags generalizing buf with
  | nil => simp [scanFrags, h]
  | cons f fs ih =>
    simp only [scanFrags, appendFind]
    have hl := findSub_lookback buf f h
    cases hf : findSub TERM (buf.drop (buf.length - 3) ++ f) with
    | some v =>
      rw [hf] at hl
      simp only [Option.map_some] at hl ⊢
      -- the terminator lies inside buf ++ f: further fragments do not move the first occurrence
      have := findSub_append_some TERM (buf ++ f) fs.flatten _ hl
      rw [List.flatten_cons, ← List.append_assoc, this]
      simp
    | none =>
      rw [hf] at hl
      simp only [Option.map_none] at hl ⊢
      rw [ih (buf ++ f) hl]
      simp [List.append_assoc]


end Photon.Http
