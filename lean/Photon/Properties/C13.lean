import Photon.Model.Http
/-!
# C13 — HTTP/1.1 framing

The specification `Photon.Http` is a function of the whole byte string of a message, so its result cannot depend on
how the bytes were split across `recv()` calls; that the *implementation* (an incremental parser and incremental body
readers) computes this function for every fragmentation and every read size is what `checks/c13.py` compares.
Theorems here are about the coding itself:
* `C13_chunked_roundtrip`: what the library's chunked writer emits for any sequence of non-empty chunks decodes to
  exactly the concatenation of the chunks (sizes in hex of any length, data that itself contains CR LF);
* `C13_chunked_inside_input`: decoded bytes are never more than the input holds (nothing from outside the message),
  and the decoder is total (structural recursion on a fuel bounded by the input length: no endless loop);
* `C13_length_body`: a Content-Length body is exactly the next `n` bytes (fewer only if the input ends).
-/
namespace Photon.Http

theorem untilChar_length (c : Nat) : ∀ b : Bytes, (untilChar c b).1.length + (untilChar c b).2.length ≤ b.length
  | [] => by simp [untilChar]
  | x :: r => by
    have ih := untilChar_length c r
    simp only [untilChar]
    split
    · simp
    · simp only [List.length_cons]; omega

/-! ### hexadecimal sizes -/

def IsHexDigitChar (b : Nat) : Prop := ∃ d, d < 16 ∧ b = hexDigitChar d

theorem hexDigit_char (d : Nat) (h : d < 16) : hexDigit (hexDigitChar d) = some d := by
  unfold hexDigit hexDigitChar
  by_cases h10 : d < 10
  · simp only [h10, if_true]
    rw [if_pos (by omega)]
    congr 1; omega
  · simp only [h10, if_false]
    rw [if_neg (by omega), if_pos (by omega)]
    congr 1; omega

theorem hexDigitChar_ne_CR (d : Nat) (h : d < 16) : hexDigitChar d ≠ CR := by
  unfold hexDigitChar CR
  split <;> omega

theorem hexVal_snoc (l : Bytes) (hl : ∀ x ∈ l, IsHexDigitChar x) (d : Nat) (hd : d < 16) :
    ∀ acc, hexVal (l ++ [hexDigitChar d]) acc = hexVal l acc * 16 + d := by
  induction l with
  | nil => intro acc; simp [hexVal, hexDigit_char d hd]
  | cons x r ih =>
    intro acc
    obtain ⟨dx, hdx, rfl⟩ := hl x (by simp)
    simp only [List.cons_append, hexVal, hexDigit_char dx hdx]
    exact ih (fun y hy => hl y (by simp [hy])) _

theorem toHex_spec : ∀ (fuel n : Nat), n < fuel →
    (∀ x ∈ toHex fuel n, IsHexDigitChar x) ∧ hexVal (toHex fuel n) 0 = n ∧ toHex fuel n ≠ []
  | 0, n, h => by omega
  | fuel + 1, n, h => by
    simp only [toHex]
    by_cases h16 : n < 16
    · simp only [h16, if_true]
      refine ⟨?_, ?_, by simp⟩
      · intro x hx; simp only [List.mem_singleton] at hx; exact ⟨n, h16, hx⟩
      · simp [hexVal, hexDigit_char n h16]
    · simp only [h16, if_false]
      have hlt : n / 16 < fuel := by omega
      obtain ⟨h1, h2, h3⟩ := toHex_spec fuel (n / 16) hlt
      have hm : n % 16 < 16 := Nat.mod_lt _ (by omega)
      refine ⟨?_, ?_, by simp⟩
      · intro x hx
        simp only [List.mem_append, List.mem_singleton] at hx
        rcases hx with hx | hx
        · exact h1 x hx
        · exact ⟨n % 16, hm, hx⟩
      · rw [hexVal_snoc _ h1 _ hm, h2]; omega

theorem hexOf_spec (n : Nat) : (∀ x ∈ hexOf n, x ≠ CR) ∧ hexVal (hexOf n) 0 = n ∧ hexOf n ≠ [] := by
  obtain ⟨h1, h2, h3⟩ := toHex_spec (n + 1) n (by omega)
  refine ⟨?_, h2, h3⟩
  intro x hx
  obtain ⟨d, hd, rfl⟩ := h1 x hx
  exact hexDigitChar_ne_CR d hd

/-! ### finding the end of a size line -/

theorem findSub_CRLF (d : Bytes) (hd : ∀ x ∈ d, x ≠ CR) (r : Bytes) :
    findSub [CR, LF] (d ++ CR :: LF :: r) = some d.length := by
  induction d with
  | nil => simp [findSub, List.isPrefixOf]
  | cons x t ih =>
    have hx : x ≠ CR := hd x (by simp)
    have := ih (fun y hy => hd y (by simp [hy]))
    simp only [List.cons_append, findSub, List.isPrefixOf, this]
    have : (CR == x) = false := by simp [Ne.symm hx]
    simp [this]

/-! ### the chunked coding round trip -/

theorem decode_terminator (fuel : Nat) : decodeChunked (fuel + 1) [48, CR, LF, CR, LF] = some [] := by
  have h := findSub_CRLF [48] (by intro x hx; simp at hx; subst hx; decide) [CR, LF]
  simp only [List.cons_append, List.nil_append] at h
  simp only [decodeChunked, h]
  simp [hexVal, hexDigit]

/-- **C13, chunked writer → reader round trip.** For every list of non-empty chunks (any sizes, any bytes — also
    bytes that look like CR LF or like size lines), decoding what the chunked writer emits yields exactly the
    concatenation of the chunks. (`fuel`: two steps per chunk plus one for the terminator.) -/
theorem C13_chunked_roundtrip : ∀ (cs : List Bytes), (∀ c ∈ cs, c ≠ []) → ∀ fuel, 2 * cs.length + 1 ≤ fuel →
    decodeChunked fuel (encodeChunked cs) = some cs.flatten
  | [], _, fuel, hf => by
    cases fuel with
    | zero => omega
    | succ f => simpa [encodeChunked] using decode_terminator f
  | c :: cs, hne, fuel, hf => by
    have hc : c ≠ [] := hne c (by simp)
    have hlen : 0 < c.length := List.length_pos_iff.mpr hc
    obtain ⟨hx1, hx2, hx3⟩ := hexOf_spec c.length
    -- peel two steps of fuel
    match fuel, hf with
    | f + 2, hf =>
      have ih := C13_chunked_roundtrip cs (fun x hx => hne x (by simp [hx])) f (by simp only [List.length_cons] at hf; omega)
      -- shape of the encoded input
      have hshape : encodeChunked (c :: cs) = hexOf c.length ++ CR :: LF :: (c ++ CR :: LF :: encodeChunked cs) := by
        simp [encodeChunked, encodeChunk, List.append_assoc]
      rw [hshape]
      have hfind := findSub_CRLF (hexOf c.length) hx1 (c ++ CR :: LF :: encodeChunked cs)
      have hp : (hexOf c.length).length ≠ 0 := by
        intro h0; exact hx3 (List.length_eq_zero_iff.mp h0)
      -- first step: the size line
      rw [decodeChunked, hfind]
      simp only [hp, if_false]
      have htake : List.take (hexOf c.length).length (hexOf c.length ++ CR :: LF :: (c ++ CR :: LF :: encodeChunked cs)) = hexOf c.length :=
        List.take_left
      have hdrop : List.drop ((hexOf c.length).length + 2) (hexOf c.length ++ CR :: LF :: (c ++ CR :: LF :: encodeChunked cs))
          = c ++ CR :: LF :: encodeChunked cs := by
        rw [← List.drop_drop, List.drop_left]; rfl
      rw [htake, hdrop, hx2]
      have hn0 : c.length ≠ 0 := by omega
      simp only [hn0, if_false]
      rw [if_neg (by simp)]
      have ht2 : List.take c.length (c ++ CR :: LF :: encodeChunked cs) = c := List.take_left
      have hd2 : List.drop c.length (c ++ CR :: LF :: encodeChunked cs) = CR :: LF :: encodeChunked cs := List.drop_left
      rw [ht2, hd2]
      -- second step: the CRLF after the data is an empty line
      have hfind2 : findSub [CR, LF] (CR :: LF :: encodeChunked cs) = some 0 := by simp [findSub, List.isPrefixOf]
      rw [decodeChunked, hfind2]
      simp only [if_true, Nat.zero_add, List.drop_succ_cons, List.drop_zero]
      rw [ih]
      simp

/-- **C13, the decoded body comes from inside the message.** Whatever the input (malformed or not), the chunked
    decoder terminates (it is a total function: structural recursion on the fuel) and returns no more bytes than the
    input holds. -/
theorem C13_chunked_inside_input : ∀ (fuel : Nat) (b out : Bytes), decodeChunked fuel b = some out → out.length ≤ b.length
  | 0, b, out, h => by simp [decodeChunked] at h
  | fuel + 1, b, out, h => by
    simp only [decodeChunked] at h
    split at h
    · exact absurd h (by simp)
    · next p hp =>
      split at h
      · have := C13_chunked_inside_input fuel _ out h
        simp only [List.length_drop] at this; omega
      · split at h
        · simp only [Option.some.injEq] at h; subst h; simp
        · split at h
          · exact absurd h (by simp)
          · next hle =>
            cases hr : decodeChunked fuel (List.drop (hexVal (List.take p b) 0) (List.drop (p + 2) b)) with
            | none => rw [hr] at h; simp at h
            | some o =>
              rw [hr] at h
              simp only [Option.map_some, Option.some.injEq] at h
              subst h
              have := C13_chunked_inside_input fuel _ o hr
              simp only [List.length_append, List.length_take, List.length_drop] at this ⊢
              omega

/-- **C13, a Content-Length body is the next `n` bytes** (all of what follows, if the input ends earlier), and a
    close-delimited body is everything that follows. -/
theorem C13_length_body (n : Nat) (after : Bytes) :
    bodyOf (.length n) after = after.take n ∧ (bodyOf (.length n) after).length = min n after.length ∧
    bodyOf .untilClose after = after := by
  simp [bodyOf]

/-! ### non-vacuity -/
example : decodeChunked 10 (encodeChunked [[1, 13, 10, 2], [7]]) = some [1, 13, 10, 2, 7] := by decide
example : (parseRequest ([71, 69, 84, 32, 47, 120, 32, 72, 84, 84, 80, 47, 49, 46, 49, 13, 10, 67, 111, 110, 116, 101, 110, 116, 45, 76, 101,
    110, 103, 116, 104, 58, 32, 51, 13, 10, 13, 10, 97, 98, 99, 100, 101, 102])).map (·.body) = some [97, 98, 99] := by decide +kernel

end Photon.Http
