import Photon.Lemmas.Iov
/-!
# C14 — iovector: every operation equals its effect on the flat byte sequence

Statements are about *addresses*: `addrs v` is the flat sequence of byte addresses a view denotes.
"returns exactly the bytes the same operation on the flat byte string would" is
`addrs pieces = (addrs v).take ret`; "leaves the vector denoting exactly the remaining bytes" is
`addrs rest = (addrs v).drop ret`; "never reads or writes outside" is the fact that every address an
operation touches is listed in `addrs v` (resp. in the destination it was given); "requests larger
than the content are truncated" is `ret = min n (sum v)`.
-/
namespace Photon.Iov

/-- **C14 sum.** `sum()` is the length of the flat byte sequence. -/
theorem C14_sum_spec (v : View) : sum v = (addrs v).length := (addrs_length v).symm

/-! ### shrink_to -/

theorem shrinkToAux_spec : ∀ (v : View) (size : Nat),
    (shrinkToAux v size).1 = size - min size (sum v) ∧
    addrs (shrinkToAux v size).2 = (addrs v).take size := by
  intro v; induction v with
  | nil => intro size; simp [shrinkToAux, sum]
  | cons e r ih =>
    intro size
    obtain ⟨b, o, l⟩ := e
    unfold shrinkToAux
    by_cases h : size ≤ l
    · simp only [h, if_true, sum, addrs_cons, addrs_nil, List.append_nil]
      refine ⟨by omega, ?_⟩
      rw [List.take_append_of_le_length (by simp; exact h), IoVec.addrs_split b o l size h]
      rw [List.take_left' (by simp)]
    · simp only [h, if_false, sum, addrs_cons]
      obtain ⟨h1, h2⟩ := ih (size - l)
      refine ⟨by rw [h1]; omega, ?_⟩
      rw [h2, List.take_append,
        List.take_of_length_le (l := (IoVec.mk b o l).addrs) (i := size) (by rw [IoVec.addrs_length]; show l ≤ size; omega),
        IoVec.addrs_length]

/-- **C14 shrink_to.** Returns `min size total` and leaves exactly the first `size` bytes. -/
theorem C14_shrinkTo_spec (v : View) (size : Nat) :
    (shrinkTo v size).1 = min size (sum v) ∧ addrs (shrinkTo v size).2 = (addrs v).take size := by
  unfold shrinkTo
  by_cases h : size = 0
  · simp [h]
  · simp only [h, if_false]
    obtain ⟨h1, h2⟩ := shrinkToAux_spec v size
    refine ⟨by rw [h1]; omega, h2⟩

/-! ### extract_front -/

/-- invariant of the `do_extract_front` loop: whatever was handed to the callback followed by what
    remains is the original content; on success the handed-over amount is `min bytes total` -/
theorem extractFrontLoop_spec (cap : Option Nat) : ∀ (v : View) (bytes : Nat) (ps : List IoVec),
    ∃ qs, (extractFrontLoop cap v bytes ps).2.2 = ps ++ qs ∧
      addrs qs ++ addrs (extractFrontLoop cap v bytes ps).2.1 = addrs v ∧
      (∀ l, (extractFrontLoop cap v bytes ps).1 = some l →
          l = bytes - min bytes (sum v) ∧ (addrs qs).length = min bytes (sum v)) ∧
      ((extractFrontLoop cap v bytes ps).1 = none → cap = some (ps ++ qs).length) ∧
      (cap = none → (extractFrontLoop cap v bytes ps).1 ≠ none) := by
  intro v; induction v with
  | nil => intro bytes ps; exact ⟨[], by simp [extractFrontLoop, sum]⟩
  | cons e r ih =>
    intro bytes ps
    obtain ⟨b, o, l⟩ := e
    unfold extractFrontLoop
    have href : refuses cap ps.length = true → cap = some ps.length := by
      intro h; cases cap with
      | none => simp [refuses] at h
      | some n => simp [refuses] at h; simp [h]
    by_cases hb : bytes ≤ l
    · simp only [hb, if_true]
      by_cases hr : refuses cap ps.length = true
      · simp only [hr, if_true]
        exact ⟨[], by simp, by simp, by simp, fun _ => by simpa using href hr, by
          intro hc; subst hc; simp [refuses] at hr⟩
      · have hr' : refuses cap ps.length = false := by simpa using hr
        simp only [hr', Bool.false_eq_true, if_false]
        by_cases hz : l - bytes = 0
        · simp only [hz, if_true]
          have hl : l = bytes := by omega
          subst hl
          refine ⟨[⟨b, o, l⟩], rfl, by simp, ?_, by simp, by simp⟩
          intro l' hl'; simp at hl'; subst hl'; simp [sum]
        · simp only [hz, if_false]
          refine ⟨[⟨b, o, bytes⟩], rfl, ?_, ?_, by simp, by simp⟩
          · simp only [addrs_cons, addrs_nil, List.append_nil, ← List.append_assoc]
            rw [← IoVec.addrs_split b o l bytes hb]
          · intro l' hl'; simp at hl'; subst hl'; simp [sum]; omega
    · simp only [hb, if_false]
      by_cases hr : refuses cap ps.length = true
      · simp only [hr, if_true]
        exact ⟨[], by simp, by simp, by simp, fun _ => by simpa using href hr, by
          intro hc; subst hc; simp [refuses] at hr⟩
      · have hr' : refuses cap ps.length = false := by simpa using hr
        simp only [hr', Bool.false_eq_true, if_false]
        obtain ⟨qs, h1, h2, h3, h4, h5⟩ := ih (bytes - l) (ps ++ [⟨b, o, l⟩])
        refine ⟨⟨b, o, l⟩ :: qs, by rw [h1]; simp, ?_, ?_, ?_, h5⟩
        · simp only [addrs_cons, List.append_assoc]; rw [h2]
        · intro l' hl'
          obtain ⟨e1, e2⟩ := h3 l' hl'
          simp only [sum, addrs_cons, List.length_append, IoVec.addrs_length]
          omega
        · intro hn; have := h4 hn; simpa using this

/-- **C14 extract_front** (discarding or copying out: the callback never refuses).
    Returns `min bytes total`; the pieces handed out are exactly the first `ret` bytes, in order;
    the view afterwards denotes exactly the remaining bytes. -/
theorem C14_extractFront_spec (v : View) (bytes : Nat) :
    let r := extractFront none v bytes
    r.ret = some (min bytes (sum v)) ∧
    addrs r.pieces = (addrs v).take (min bytes (sum v)) ∧
    addrs r.rest = (addrs v).drop (min bytes (sum v)) := by
  intro r
  by_cases hb : bytes = 0
  · subst hb; simp [r, extractFront]
  · obtain ⟨qs, h1, h2, h3, _, h5⟩ := extractFrontLoop_spec none v bytes []
    have hne := h5 rfl
    cases hret : (extractFrontLoop none v bytes []).1 with
    | none => exact absurd hret hne
    | some l =>
      obtain ⟨e1, e2⟩ := h3 l hret
      simp only [List.nil_append] at h1
      have hp : r.pieces = qs := by simp [r, extractFront, hb, h1]
      have hrest : r.rest = (extractFrontLoop none v bytes []).2.1 := by simp [r, extractFront, hb]
      have htd := take_drop_of_split h2 e2
      refine ⟨?_, ?_, ?_⟩
      · simp only [r, extractFront, hb, if_false, hret, Option.map_some]; congr 1; omega
      · rw [hp]; exact htd.1.symm
      · rw [hrest]; exact htd.2.symm

/-- **C14 extract_front into a destination view with `n` slots.** Either it succeeds exactly as
    above, or it fails (`-1`) after filling all `n` slots — and then nothing is lost: the slots
    followed by the remaining view are still the original content. -/
theorem C14_extractFront_view_spec (v : View) (bytes n : Nat) :
    let r := extractFront (some n) v bytes
    addrs r.pieces ++ addrs r.rest = addrs v ∧
    (∀ k, r.ret = some k → k = min bytes (sum v) ∧ (addrs r.pieces).length = k) ∧
    (r.ret = none → r.pieces.length = n) := by
  intro r
  by_cases hb : bytes = 0
  · subst hb; simp [r, extractFront]
  · obtain ⟨qs, h1, h2, h3, h4, _⟩ := extractFrontLoop_spec (some n) v bytes []
    simp only [List.nil_append] at h1 h4
    have hp : r.pieces = qs := by simp [r, extractFront, hb, h1]
    have hrest : r.rest = (extractFrontLoop (some n) v bytes []).2.1 := by simp [r, extractFront, hb]
    refine ⟨by rw [hp, hrest]; exact h2, ?_, ?_⟩
    · intro k hk
      simp only [r, extractFront, hb, if_false] at hk
      cases hret : (extractFrontLoop (some n) v bytes []).1 with
      | none => rw [hret] at hk; simp at hk
      | some l =>
        rw [hret] at hk; simp at hk
        obtain ⟨e1, e2⟩ := h3 l hret
        rw [hp]; omega
    · intro hn
      simp only [r, extractFront, hb, if_false] at hn
      cases hret : (extractFrontLoop (some n) v bytes []).1 with
      | none => have := h4 hret; rw [hp]; simpa using this.symm
      | some l => rw [hret] at hn; simp at hn

/-- where `extract_front(bytes, buf)` puts the bytes: piece after piece from offset 0, i.e. the
    destination receives the first `ret` flat bytes in order at `buf[0 .. ret)` -/
theorem frontDest_contiguous : ∀ (ps : List IoVec) (at_ : Nat),
    (∀ x ∈ frontDest ps at_, at_ ≤ x.1) ∧
    ((frontDest ps at_).map (·.2) = ps) ∧
    (∀ i (h : i < (frontDest ps at_).length),
        ((frontDest ps at_)[i]).1 = at_ + (addrs (ps.take i)).length) := by
  intro ps; induction ps with
  | nil => intro at_; simp [frontDest]
  | cons p r ih =>
    intro at_
    obtain ⟨h1, h2, h3⟩ := ih (at_ + p.len)
    refine ⟨?_, by simp [frontDest, h2], ?_⟩
    · intro x hx
      simp only [frontDest, List.mem_cons] at hx
      rcases hx with rfl | hx
      · exact Nat.le_refl _
      · have := h1 x hx; omega
    · intro i hi
      cases i with
      | zero => simp [frontDest]
      | succ j =>
        simp only [frontDest, List.length_cons] at hi
        simp only [frontDest, List.getElem_cons_succ, List.take_succ_cons, addrs_cons,
          List.length_append, IoVec.addrs_length]
        rw [h3 j (by omega)]; omega

/-! ### extract_back -/

theorem sum_append (a b : View) : sum (a ++ b) = sum a + sum b := by
  induction a with
  | nil => simp [sum]
  | cons e r ih => simp [sum, ih]; omega

theorem sum_reverse (v : View) : sum v.reverse = sum v := by
  induction v with
  | nil => rfl
  | cons e r ih => simp [sum_append, sum, ih]; omega

/-- invariant of the `do_extract_back` loop, on the reversed element list `rv` -/
theorem extractBackLoop_spec (cap : Option Nat) : ∀ (rv : View) (bytes : Nat) (ps : List IoVec),
    ∃ qs, (extractBackLoop cap rv bytes ps).2.2 = ps ++ qs ∧
      addrs (extractBackLoop cap rv bytes ps).2.1.reverse ++ addrs qs.reverse = addrs rv.reverse ∧
      (∀ l, (extractBackLoop cap rv bytes ps).1 = some l →
          l = bytes - min bytes (sum rv) ∧ (addrs qs.reverse).length = min bytes (sum rv)) ∧
      ((extractBackLoop cap rv bytes ps).1 = none → cap = some (ps ++ qs).length) ∧
      (cap = none → (extractBackLoop cap rv bytes ps).1 ≠ none) := by
  intro rv; induction rv with
  | nil => intro bytes ps; exact ⟨[], by simp [extractBackLoop, sum]⟩
  | cons e r ih =>
    intro bytes ps
    obtain ⟨b, o, l⟩ := e
    unfold extractBackLoop
    have href : refuses cap ps.length = true → cap = some ps.length := by
      intro h; cases cap with
      | none => simp [refuses] at h
      | some n => simp [refuses] at h; simp [h]
    by_cases hb : bytes ≤ l
    · simp only [hb, if_true]
      by_cases hr : refuses cap ps.length = true
      · simp only [hr, if_true]
        exact ⟨[], by simp, by simp, by simp, fun _ => by simpa using href hr, by
          intro hc; subst hc; simp [refuses] at hr⟩
      · have hr' : refuses cap ps.length = false := by simpa using hr
        simp only [hr', Bool.false_eq_true, if_false]
        by_cases hz : l - bytes = 0
        · simp only [hz, if_true]
          have hl : l = bytes := by omega
          subst hl
          refine ⟨[⟨b, o, l⟩], by simp, by simp [addrs_append], ?_, by simp, by simp⟩
          intro l' hl'; simp at hl'; subst hl'; simp [sum]
        · simp only [hz, if_false]
          refine ⟨[⟨b, o + l - bytes, bytes⟩], rfl, ?_, ?_, by simp, by simp⟩
          · simp only [List.reverse_cons, addrs_append, addrs_cons, addrs_nil, List.append_nil,
              List.reverse_nil, List.nil_append, List.append_assoc]
            congr 1
            rw [IoVec.addrs_split b o l (l - bytes) (by omega)]
            have e1 : o + (l - bytes) = o + l - bytes := by omega
            have e2 : l - (l - bytes) = bytes := by omega
            rw [e1, e2]
          · intro l' hl'; simp at hl'; subst hl'; simp [sum]; omega
    · simp only [hb, if_false]
      by_cases hr : refuses cap ps.length = true
      · simp only [hr, if_true]
        exact ⟨[], by simp, by simp, by simp, fun _ => by simpa using href hr, by
          intro hc; subst hc; simp [refuses] at hr⟩
      · have hr' : refuses cap ps.length = false := by simpa using hr
        simp only [hr', Bool.false_eq_true, if_false]
        obtain ⟨qs, h1, h2, h3, h4, h5⟩ := ih (bytes - l) (ps ++ [⟨b, o, l⟩])
        refine ⟨⟨b, o, l⟩ :: qs, by rw [h1]; simp, ?_, ?_, ?_, h5⟩
        · simp only [List.reverse_cons, addrs_append, addrs_cons, addrs_nil, List.append_nil,
            ← List.append_assoc]
          rw [h2]
        · intro l' hl'
          obtain ⟨e1, e2⟩ := h3 l' hl'
          simp only [sum, List.reverse_cons, addrs_append, addrs_cons, addrs_nil, List.append_nil,
            List.length_append, IoVec.addrs_length]
          omega
        · intro hn; have := h4 hn; simpa using this

/-- **C14 extract_back** (discarding or copying out). Returns `min bytes total`; the pieces, read
    in memory order, are exactly the last `ret` bytes; the view keeps exactly the first
    `total - ret` bytes. -/
theorem C14_extractBack_spec (v : View) (bytes : Nat) :
    let r := extractBack none v bytes
    r.ret = some (min bytes (sum v)) ∧
    addrs r.rest = (addrs v).take (sum v - min bytes (sum v)) ∧
    addrs r.pieces.reverse = (addrs v).drop (sum v - min bytes (sum v)) := by
  intro r
  by_cases hb : bytes = 0
  · subst hb
    simp only [r, extractBack, if_true, Nat.zero_min, Nat.sub_zero, List.reverse_nil, addrs_nil]
    refine ⟨by simp, ?_, ?_⟩
    · rw [List.take_of_length_le (by rw [addrs_length]; exact Nat.le_refl _)]
    · rw [List.drop_of_length_le (by rw [addrs_length]; exact Nat.le_refl _)]
  · obtain ⟨qs, h1, h2, h3, _, h5⟩ := extractBackLoop_spec none v.reverse bytes []
    have hne := h5 rfl
    cases hret : (extractBackLoop none v.reverse bytes []).1 with
    | none => exact absurd hret hne
    | some l =>
      obtain ⟨e1, e2⟩ := h3 l hret
      rw [sum_reverse] at e1 e2
      simp only [List.nil_append] at h1
      simp only [List.reverse_reverse] at h2
      have hp : r.pieces = qs := by simp [r, extractBack, hb, h1]
      have hrest : r.rest = (extractBackLoop none v.reverse bytes []).2.1.reverse := by
        simp [r, extractBack, hb]
      have hlen : (addrs (extractBackLoop none v.reverse bytes []).2.1.reverse).length =
          sum v - min bytes (sum v) := by
        have := congrArg List.length h2
        have hv := addrs_length v
        rw [List.length_append, e2] at this
        omega
      have htd := take_drop_of_split h2 hlen
      refine ⟨?_, ?_, ?_⟩
      · simp only [r, extractBack, hb, if_false, hret, Option.map_some]; congr 1; omega
      · rw [hrest]; exact htd.1.symm
      · rw [hp]; exact htd.2.symm

/-- **C14 extract_back into a destination view with `n` slots**: success as above, or `-1` with
    all `n` slots used and nothing lost. -/
theorem C14_extractBack_view_spec (v : View) (bytes n : Nat) :
    let r := extractBack (some n) v bytes
    addrs r.rest ++ addrs r.pieces.reverse = addrs v ∧
    (∀ k, r.ret = some k → k = min bytes (sum v) ∧ (addrs r.pieces.reverse).length = k) ∧
    (r.ret = none → r.pieces.length = n) := by
  intro r
  by_cases hb : bytes = 0
  · subst hb; simp [r, extractBack]
  · obtain ⟨qs, h1, h2, h3, h4, _⟩ := extractBackLoop_spec (some n) v.reverse bytes []
    simp only [List.nil_append] at h1 h4
    simp only [List.reverse_reverse] at h2
    rw [sum_reverse] at h3
    have hp : r.pieces = qs := by simp [r, extractBack, hb, h1]
    have hrest : r.rest = (extractBackLoop (some n) v.reverse bytes []).2.1.reverse := by
      simp [r, extractBack, hb]
    refine ⟨by rw [hp, hrest]; exact h2, ?_, ?_⟩
    · intro k hk
      simp only [r, extractBack, hb, if_false] at hk
      cases hret : (extractBackLoop (some n) v.reverse bytes []).1 with
      | none => rw [hret] at hk; simp at hk
      | some l =>
        rw [hret] at hk; simp at hk
        obtain ⟨e1, e2⟩ := h3 l hret
        rw [hp]; omega
    · intro hn
      simp only [r, extractBack, hb, if_false] at hn
      cases hret : (extractBackLoop (some n) v.reverse bytes []).1 with
      | none => have := h4 hret; rw [hp]; simpa using this.symm
      | some l => rw [hret] at hn; simp at hn

/-- where `extract_back(bytes, buf)` puts piece `i`: the pieces (taken back to front) are stored
    downwards from `buf + bytes`, so in memory they appear in flat order and end at `buf + bytes` -/
theorem backDest_contiguous : ∀ (ps : List IoVec) (at_ : Nat), (addrs ps).length ≤ at_ →
    ((backDest ps at_).map (·.2) = ps) ∧
    (∀ i (h : i < (backDest ps at_).length),
        ((backDest ps at_)[i]).1 + (addrs (ps.take (i + 1))).length = at_) := by
  intro ps; induction ps with
  | nil => intro at_ _; simp [backDest]
  | cons p r ih =>
    intro at_ hle
    simp only [addrs_cons, List.length_append, IoVec.addrs_length] at hle
    obtain ⟨h2, h3⟩ := ih (at_ - p.len) (by omega)
    refine ⟨by simp [backDest, h2], ?_⟩
    intro i hi
    cases i with
    | zero => simp [backDest]; omega
    | succ j =>
      simp only [backDest, List.length_cons] at hi
      simp only [backDest, List.getElem_cons_succ, List.take_succ_cons, addrs_cons,
        List.length_append, IoVec.addrs_length]
      have := h3 j (by omega); omega

/-! ### contiguous extract -/

/-- **C14 extract_front_continuous (view).** A pointer is returned exactly when the front element
    alone holds `bytes`; it then denotes the first `bytes` flat bytes and the view keeps the rest. -/
theorem C14_extractFrontContinuous_spec (v : View) (bytes : Nat) :
    match extractFrontContinuous v bytes with
    | (some p, v') => p.addrs ++ addrs v' = addrs v ∧ p.len = bytes ∧
        (∃ f r, v = f :: r ∧ bytes ≤ f.len)
    | (none, v') => v' = v ∧ (v = [] ∨ ∃ f r, v = f :: r ∧ f.len < bytes) := by
  cases v with
  | nil => simp [extractFrontContinuous]
  | cons f r =>
    obtain ⟨b, o, l⟩ := f
    unfold extractFrontContinuous
    by_cases h : l < bytes
    · simp [h]
    · simp only [h, if_false]
      by_cases hz : l - bytes = 0
      · have : l = bytes := by omega
        subst this; simp
      · simp only [hz, if_false, addrs_cons, ← List.append_assoc]
        refine ⟨?_, by simp, ⟨_, _, rfl, by simp; omega⟩⟩
        rw [← IoVec.addrs_split b o l bytes (by omega)]

/-- **C14 owning extract_front_continuous.** `null` exactly when the vector holds fewer than
    `bytes`; otherwise the result (a pointer into the front element, or a fresh copy assembled from
    the pieces when the range straddles elements) denotes exactly the first `bytes` flat bytes and
    the vector keeps the rest. -/
theorem C14_ownExtractFrontContinuous_spec (v : View) (bytes : Nat) :
    match ownExtractFrontContinuous v bytes with
    | (.direct p, v') => p.addrs = (addrs v).take bytes ∧ addrs v' = (addrs v).drop bytes ∧ bytes ≤ sum v
    | (.copied ps, v') => addrs ps = (addrs v).take bytes ∧ addrs v' = (addrs v).drop bytes ∧ bytes ≤ sum v
    | (.null, v') => v' = v ∧ sum v < bytes := by
  unfold ownExtractFrontContinuous
  have hc := C14_extractFrontContinuous_spec v bytes
  cases hx : extractFrontContinuous v bytes with
  | mk p v' =>
    rw [hx] at hc
    cases p with
    | some p =>
      simp only at hc ⊢
      obtain ⟨h1, h2, f, r, hv, hle⟩ := hc
      have htd := take_drop_of_split h1 (by rw [IoVec.addrs_length, h2])
      refine ⟨htd.1.symm, htd.2.symm, ?_⟩
      subst hv; simp [sum]; omega
    | none =>
      simp only at hc ⊢
      by_cases hs : sum v < bytes
      · simp [hs]
      · simp only [hs, if_false]
        have hsp := C14_extractFront_spec v bytes
        simp only at hsp
        have hmin : min bytes (sum v) = bytes := by omega
        rw [hmin] at hsp
        exact ⟨hsp.2.1, hsp.2.2, by omega⟩

/-! ### slice -/

theorem sliceSkip_spec : ∀ (v : View) (offset pos : Nat), pos ≤ offset →
    ∃ skipped, addrs v = skipped ++ addrs (sliceSkip v offset pos).1 ∧
      (sliceSkip v offset pos).2 = pos + skipped.length ∧ (sliceSkip v offset pos).2 ≤ offset ∧
      (∀ e r, (sliceSkip v offset pos).1 = e :: r → (sliceSkip v offset pos).2 + e.len > offset) := by
  intro v; induction v with
  | nil => intro offset pos h; exact ⟨[], by simp [sliceSkip], by simp [sliceSkip], by simpa [sliceSkip] using h, by simp [sliceSkip]⟩
  | cons e r ih =>
    intro offset pos h
    unfold sliceSkip
    by_cases hc : pos + e.len > offset
    · simp only [hc, if_true]
      refine ⟨[], by simp, by simp, h, ?_⟩
      intro e' r' he; simp at he; rw [← he.1]; exact hc
    · simp only [hc, if_false]
      obtain ⟨sk, h1, h2, h3, h4⟩ := ih offset (pos + e.len) (by omega)
      refine ⟨e.addrs ++ sk, by simp [h1], by rw [h2]; simp; omega, h3, h4⟩

theorem sliceRest_spec : ∀ (v : View) (count slots : Nat),
    addrs (sliceRest v count slots).2 = (addrs v).take (sliceRest v count slots).1 ∧
    (sliceRest v count slots).1 ≤ min count (sum v) ∧ (sliceRest v count slots).2.length ≤ slots ∧
    ((sliceRest v count slots).1 < min count (sum v) → (sliceRest v count slots).2.length = slots) := by
  intro v; induction v with
  | nil => intro count slots; simp [sliceRest, sum]
  | cons e r ih =>
    intro count slots
    obtain ⟨b, o, l⟩ := e
    cases slots with
    | zero => simp [sliceRest]
    | succ k =>
      unfold sliceRest
      by_cases hc : count ≤ l
      · simp only [hc, if_true, addrs_cons, addrs_nil, List.append_nil, sum, List.length_cons,
          List.length_nil]
        refine ⟨?_, by omega, by omega, by omega⟩
        rw [List.take_append_of_le_length (by simp; exact hc), IoVec.addrs_split b o l count hc,
          List.take_left' (by simp)]
      · simp only [hc, if_false, addrs_cons, sum, List.length_cons]
        obtain ⟨h1, h2, h3, h4⟩ := ih (count - l) k
        refine ⟨?_, by omega, by omega, by omega⟩
        rw [h1, take_len_add _ _ l _ (by simp)]

/-- **C14 slice.** `slice(count, offset, out)` with `slots > 0`, `count > 0`: the produced elements
    denote exactly the flat bytes `[offset, offset + ret)`; `ret` never exceeds what was asked or
    what exists; and it is smaller only when every destination slot was used. -/
theorem C14_slice_spec (v : View) (count offset slots : Nat) (hs : 0 < slots) (hc : 0 < count) :
    ∃ ret out, slice v count offset slots = some (ret, out) ∧
      addrs out = ((addrs v).drop offset).take ret ∧
      ret ≤ min count (sum v - offset) ∧ out.length ≤ slots ∧
      (ret < min count (sum v - offset) → out.length = slots) := by
  unfold slice
  have hs0 : ¬ slots = 0 := by omega
  have hc0 : ¬ count = 0 := by omega
  simp only [hs0, hc0, if_false]
  obtain ⟨sk, h1, h2, h3, h4⟩ := sliceSkip_spec v offset 0 (Nat.zero_le _)
  have hsum : sum v = sk.length + sum (sliceSkip v offset 0).1 := by
    rw [← addrs_length, h1, List.length_append, addrs_length]
  cases hx : sliceSkip v offset 0 with
  | mk rest pos =>
    rw [hx] at h1 h2 h3 h4 hsum
    simp only at h1 h2 h3 h4 hsum
    cases rest with
    | nil =>
      simp only [sum] at hsum
      refine ⟨0, [], rfl, by simp, by omega, by simp, ?_⟩
      intro h; omega
    | cons e r =>
      obtain ⟨b, o, l⟩ := e
      have hgt := h4 _ _ rfl
      simp only at hgt
      simp only [Nat.zero_add] at h2
      have hdrop : (addrs v).drop offset =
          (IoVec.mk b (o + (offset - pos)) (l - (offset - pos))).addrs ++ addrs r := by
        rw [h1]
        have e1 : offset = sk.length + (offset - pos) := by omega
        rw [e1, List.drop_length_add_append, addrs_cons,
          IoVec.addrs_split b o l (offset - pos) (by omega), List.append_assoc,
          List.drop_left' (by simp)]
        congr 3 <;> omega
      simp only [sum] at hsum
      by_cases hcf : count ≤ l - (offset - pos)
      · simp only [hcf, if_true]
        refine ⟨count, _, rfl, ?_, by omega, by simp; omega, by intro h; omega⟩
        rw [hdrop, List.take_append_of_le_length (by simp; exact hcf)]
        simp only [addrs_cons, addrs_nil, List.append_nil]
        rw [IoVec.addrs_split b (o + (offset - pos)) (l - (offset - pos)) count hcf,
          List.take_left' (by simp)]
      · simp only [hcf, if_false]
        obtain ⟨g1, g2, g3, g4⟩ := sliceRest_spec r (count - (l - (offset - pos))) (slots - 1)
        refine ⟨_, _, rfl, ?_, by omega, by simp; omega, ?_⟩
        · rw [hdrop, addrs_cons, g1, take_len_add _ _ (l - (offset - pos)) _ (by simp)]
        · intro h; simp only [List.length_cons]; have := g4 (by omega); omega

/-! ### memcpy / pipe -/

theorem advance_spec (e : IoVec) (r : View) (n : Nat) (h : n ≤ e.len) :
    (IoVec.mk e.buf e.off n).addrs ++ addrs (advance (e :: r) n) = addrs (e :: r) := by
  obtain ⟨b, o, l⟩ := e
  unfold advance
  by_cases hn : n < l
  · simp only [hn, if_true, addrs_cons, ← List.append_assoc]
    rw [← IoVec.addrs_split b o l n (by omega)]
  · have : n = l := by simp at h; omega
    subst this; simp

/-- **C14 memcpy / pipe core** (`_copy_pipe_iov`). For every destination and source shape and every
    `size`: the number of bytes moved is `min size (min |dest| |src|)`; the `memcpy` calls, in
    order, read exactly the first `n` flat source bytes and write exactly the first `n` flat
    destination bytes (so nothing outside either vector is touched), each call with equal
    lengths; what remains of both sides is exactly the rest. -/
theorem C14_copyPipe_spec (size : Nat) (d s : View) :
    let r := copyPipe size d s
    r.1 = min size (min (sum d) (sum s)) ∧
    addrs (r.2.1.map (·.dst)) ++ addrs r.2.2.1 = addrs d ∧
    addrs (r.2.1.map (·.src)) ++ addrs r.2.2.2 = addrs s ∧
    (addrs (r.2.1.map (·.dst))).length = r.1 ∧ (addrs (r.2.1.map (·.src))).length = r.1 ∧
    (∀ c ∈ r.2.1, c.dst.len = c.src.len) := by
  fun_induction copyPipe size d s with
  | case1 d s => simp
  | case2 size s hsz => simp [sum]
  | case3 size d hsz hd => simp [sum]
  | case4 size df dr sf sr step n cs d' s' hrec ih =>
    simp only [hrec] at ih
    obtain ⟨i1, i2, i3, i4, i5, i6⟩ := ih
    have hstep1 : step ≤ df.len := by simp only [step]; omega
    have hstep2 : step ≤ sf.len := by simp only [step]; omega
    have hd := advance_spec df dr step hstep1
    have hs := advance_spec sf sr step hstep2
    have hsumd : sum (df :: dr) = step + sum (advance (df :: dr) step) := by
      rw [← addrs_length, ← hd, List.length_append, addrs_length]; simp
    have hsums : sum (sf :: sr) = step + sum (advance (sf :: sr) step) := by
      rw [← addrs_length, ← hs, List.length_append, addrs_length]; simp
    refine ⟨?_, ?_, ?_, ?_, ?_, ?_⟩
    · simp only []; rw [i1, hsumd, hsums]; simp only [step]; omega
    · simp only [List.map_cons, addrs_cons, List.append_assoc]; rw [i2]; exact hd
    · simp only [List.map_cons, addrs_cons, List.append_assoc]; rw [i3]; exact hs
    · simp only [List.map_cons, addrs_cons, List.length_append, IoVec.addrs_length]; omega
    · simp only [List.map_cons, addrs_cons, List.length_append, IoVec.addrs_length]; omega
    · intro c hc
      simp only [List.mem_cons] at hc
      rcases hc with rfl | hc
      · rfl
      · exact i6 c hc

/-- corollary in take/drop form -/
theorem C14_copyPipe_take_drop (size : Nat) (d s : View) :
    let r := copyPipe size d s
    addrs (r.2.1.map (·.dst)) = (addrs d).take r.1 ∧ addrs r.2.2.1 = (addrs d).drop r.1 ∧
    addrs (r.2.1.map (·.src)) = (addrs s).take r.1 ∧ addrs r.2.2.2 = (addrs s).drop r.1 := by
  intro r
  obtain ⟨_, h2, h3, h4, h5, _⟩ := C14_copyPipe_spec size d s
  have a := take_drop_of_split h2 h4
  have b := take_drop_of_split h3 h5
  exact ⟨a.1.symm, a.2.symm, b.1.symm, b.2.symm⟩

/-! ### non-vacuity: the statements evaluated on a concrete vector with a zero-length element -/

example : extractFront none [⟨0, 0, 10⟩, ⟨1, 0, 5⟩, ⟨2, 0, 0⟩, ⟨3, 0, 7⟩] 12 =
    ⟨some 12, [⟨1, 2, 3⟩, ⟨2, 0, 0⟩, ⟨3, 0, 7⟩], [⟨0, 0, 10⟩, ⟨1, 0, 2⟩]⟩ := by decide
example : extractFront (some 1) [⟨0, 0, 10⟩, ⟨1, 0, 5⟩] 12 =
    ⟨none, [⟨1, 0, 5⟩], [⟨0, 0, 10⟩]⟩ := by decide
example : extractBack none [⟨0, 0, 10⟩, ⟨1, 0, 5⟩, ⟨2, 0, 0⟩, ⟨3, 0, 7⟩] 9 =
    ⟨some 9, [⟨0, 0, 10⟩, ⟨1, 0, 3⟩], [⟨3, 0, 7⟩, ⟨2, 0, 0⟩, ⟨1, 3, 2⟩]⟩ := by decide
example : slice [⟨0, 0, 10⟩, ⟨1, 0, 5⟩] 9 4 2 = some (9, [⟨0, 4, 6⟩, ⟨1, 0, 3⟩]) := by decide

end Photon.Iov
